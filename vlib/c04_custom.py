"""Function-level family for C04: user-defined operations (function.Custom with partial_derivative) composed with
NumPy-API operations; the symbolic function.derivative is compared with a numerical Jacobian of a plain numpy
evaluation of the same tree (independent of nutils)."""
import numpy


def make_ops():
    from nutils import function
    from nutils.types import hashable_function

    class Mul2(function.Custom):
        def __init__(self, a, b):
            a, b = function.broadcast_arrays(a, b)
            super().__init__(args=(a, b), shape=(), dtype=float, npointwise=a.ndim)

        @hashable_function
        def evalf(a, b):
            return a * b

        @hashable_function
        def partial_derivative(iarg, a, b):
            return b if iarg == 0 else a

    class Mul3(function.Custom):
        def __init__(self, a, b, c):
            a, b, c = function.broadcast_arrays(a, b, c)
            super().__init__(args=(a, b, c), shape=(), dtype=float, npointwise=a.ndim)

        @hashable_function
        def evalf(a, b, c):
            return a * b * c

        @hashable_function
        def partial_derivative(iarg, a, b, c):
            return [b * c, a * c, a * b][iarg]

    class Cube(function.Custom):
        def __init__(self, a):
            a = function.asarray(a)
            super().__init__(args=(a,), shape=(), dtype=float, npointwise=a.ndim)

        @hashable_function
        def evalf(a):
            return a**3

        @hashable_function
        def partial_derivative(iarg, a):
            return 3. * a * a

    class Roll(function.Custom):
        def __init__(self, array, shift):
            array = function.asarray(array)
            super().__init__(args=(array, shift.__index__()), shape=array.shape[-1:], dtype=array.dtype, npointwise=array.ndim - 1)

        @hashable_function
        def evalf(array, shift):
            return numpy.roll(array, shift, 1)

        @hashable_function
        def partial_derivative(iarg, array, shift):
            if iarg == 0:
                return Roll(function.eye(array.shape[0]), shift).T
            raise NotImplementedError

    return dict(Mul2=Mul2, Mul3=Mul3, Cube=Cube, Roll=Roll)


def gen_tree(rng, depth, n):
    """JSON tree over arguments u, w (shape (n,)), constants and operations."""
    if depth == 0 or rng.random() < .2:
        r = rng.random()
        if r < .4:
            return ['u']
        if r < .7:
            return ['w']
        return ['c', [round(float(x), 2) for x in rng.uniform(.5, 1.5, size=n)]]
    op = str(rng.choice(['Mul2', 'Mul2', 'Mul3', 'Cube', 'Roll', 'sin', 'exp', 'add', 'mul', 'matvec']))
    if op in ('Mul2', 'add', 'mul'):
        return [op, gen_tree(rng, depth - 1, n), gen_tree(rng, depth - 1, n)]
    if op == 'Mul3':
        return [op, gen_tree(rng, depth - 1, n), gen_tree(rng, depth - 1, n), gen_tree(rng, depth - 1, n)]
    if op == 'Roll':
        return [op, gen_tree(rng, depth - 1, n), int(rng.integers(1, n + 1))]
    if op == 'matvec':
        return [op, [[round(float(x), 2) for x in row] for row in rng.uniform(-1, 1, size=(n, n))], gen_tree(rng, depth - 1, n)]
    return [op, gen_tree(rng, depth - 1, n)]


def build(tree, ops, u, w):
    from nutils import function
    t = tree[0]
    if t == 'u':
        return u
    if t == 'w':
        return w
    if t == 'c':
        return function.asarray(numpy.array(tree[1]))
    if t == 'Mul2':
        return ops['Mul2'](build(tree[1], ops, u, w), build(tree[2], ops, u, w))
    if t == 'Mul3':
        return ops['Mul3'](*(build(x, ops, u, w) for x in tree[1:]))
    if t == 'Cube':
        return ops['Cube'](build(tree[1], ops, u, w))
    if t == 'Roll':
        return ops['Roll'](build(tree[1], ops, u, w), tree[2])
    if t == 'sin':
        return numpy.sin(build(tree[1], ops, u, w))
    if t == 'exp':
        return numpy.exp(build(tree[1], ops, u, w) * .3)
    if t == 'add':
        return build(tree[1], ops, u, w) + build(tree[2], ops, u, w)
    if t == 'mul':
        return build(tree[1], ops, u, w) * build(tree[2], ops, u, w)
    if t == 'matvec':
        return numpy.array(tree[1]) @ build(tree[2], ops, u, w)
    raise ValueError(t)


def ref(tree, u, w):
    t = tree[0]
    if t == 'u':
        return u
    if t == 'w':
        return w
    if t == 'c':
        return numpy.array(tree[1])
    if t in ('Mul2', 'mul'):
        return ref(tree[1], u, w) * ref(tree[2], u, w)
    if t == 'Mul3':
        return ref(tree[1], u, w) * ref(tree[2], u, w) * ref(tree[3], u, w)
    if t == 'Cube':
        return ref(tree[1], u, w)**3
    if t == 'Roll':
        return numpy.roll(ref(tree[1], u, w), tree[2])
    if t == 'sin':
        return numpy.sin(ref(tree[1], u, w))
    if t == 'exp':
        return numpy.exp(ref(tree[1], u, w) * .3)
    if t == 'add':
        return ref(tree[1], u, w) + ref(tree[2], u, w)
    if t == 'matvec':
        return numpy.array(tree[1]) @ ref(tree[2], u, w)
    raise ValueError(t)


def uses(tree, names=('Mul2', 'Mul3', 'Cube', 'Roll')):
    return tree[0] in names or any(isinstance(x, list) and x and isinstance(x[0], str) and uses(x, names) for x in tree[1:] if isinstance(x, list))


W6 = numpy.array([-1., 9., -45., 0., 45., -9., 1.]) / 60.


def fd(f, x, h=1e-3):
    f0 = f(x)
    J = numpy.zeros(f0.shape + x.shape)
    for k in range(x.size):
        acc = 0
        for s, wgt in zip(range(-3, 4), W6):
            if wgt:
                xp = x.copy()
                xp[k] += s * h
                acc = acc + wgt * f(xp)
        J[..., k] = acc / h
    return J
