"""C16 workloads: random evaluable programs with 1-3 outer loops (JSON specs + interpreter)
and topology-level cases (integrate / sample.eval / locate).

A spec is pure JSON so that a failing case can be replayed from the replay file alone.

Expression mini-language (prefix lists), all built with public nutils.evaluable helpers:
  ["arg", name, shape]            float Argument (values in spec["args"][name])
  ["c", nested, "f"|"i"]          constant
  ["idx", L]                      loop index of loop L (int scalar)
  ["f", e]                        int -> float
  ["row", table, L, "f"|"i"]      row L of a constant table (len(L) x m) -> shape (m,)
  ["add"|"mul"|"sub", a, b]  ["neg"|"sin"|"sq", a]
  ["outer", a, b]                 (m,),(k,) -> (m,k)
  ["ins", e, n]                   append an axis of length n
  ["sum", e]                      sum over the last axis
  ["infl", e, dofs, N]            scatter-add the last axis of e into length N (Inflate)
  ["diag", e]                     Diagonalize over the last axis
  ["tr", e]                       swap the last two axes
  ["take", e, index]              e[..., index]
  ["range", n_expr]               Range(n)
  ["lsum", e, L]  ["lcat", e, L]  loop_sum / loop_concatenate over loop L
"""

import numpy


# ------------------------------------------------------------------ interpreter

def build(spec):
    from nutils import evaluable as ev
    loops = {}
    for name, ln in spec['loops'].items():
        if isinstance(ln, dict):
            length = ev.InRange(ev.Argument(ln['arg'], (), int), ev.constant(10))
        else:
            length = ev.constant(int(ln))
        loops[name] = ev.loop_index(name, length)

    def B(e):
        op = e[0]
        if op == 'arg':
            return ev.Argument(e[1], tuple(ev.constant(int(n)) for n in e[2]), float)
        if op == 'c':
            return ev.constant(numpy.array(e[1], dtype=float if e[2] == 'f' else int))
        if op == 'idx':
            return loops[e[1]]
        if op == 'f':
            return ev.astype(B(e[1]), float)
        if op == 'row':
            table = numpy.array(e[1], dtype=float if e[3] == 'f' else int)
            return ev.Take(ev.constant(numpy.ascontiguousarray(table.T)), loops[e[2]])
        if op == 'add':
            return B(e[1]) + B(e[2])
        if op == 'sub':
            return B(e[1]) - B(e[2])
        if op == 'mul':
            return B(e[1]) * B(e[2])
        if op == 'neg':
            return -B(e[1])
        if op == 'sin':
            return ev.sin(B(e[1]))
        if op == 'sq':
            a = B(e[1])
            return a * a
        if op == 'outer':
            a, b = B(e[1]), B(e[2])
            return ev.insertaxis(a, a.ndim, b.shape[-1]) * ev.insertaxis(b, b.ndim - 1, a.shape[-1])
        if op == 'ins':
            return ev.InsertAxis(B(e[1]), ev.constant(int(e[2])))
        if op == 'sum':
            return ev.Sum(B(e[1]))
        if op == 'infl':
            a = B(e[1])
            return ev._inflate(a, B(e[2]), ev.constant(int(e[3])), a.ndim - 1)
        if op == 'diag':
            return ev.Diagonalize(B(e[1]))
        if op == 'tr':
            a = B(e[1])
            return ev.transpose(a, (*range(a.ndim - 2), a.ndim - 1, a.ndim - 2))
        if op == 'take':
            return ev.Take(B(e[1]), B(e[2]))
        if op == 'range':
            return ev.Range(B(e[1]))
        if op == 'lsum':
            return ev.loop_sum(B(e[1]), loops[e[2]])
        if op == 'lcat':
            return ev.loop_concatenate(B(e[1]), loops[e[2]])
        raise ValueError(f'unknown op {op}')

    outs = tuple(B(e) for e in spec['outs'])
    return outs


def arguments(spec, which=0):
    args = {}
    for name, val in spec['args'].items():
        a = numpy.array(val, dtype=float)
        if which:
            a = a * (1 + .5 * which) + .25 * which
        args[name] = a
    for name, ln in spec['loops'].items():
        if isinstance(ln, dict):
            args[ln['arg']] = numpy.array(int(ln['value'] if which == 0 else ln.get('value2', ln['value'])))
    return args


# ------------------------------------------------------------------ random generator

def _r(x):
    return round(float(x), 3)


class Gen:

    def __init__(self, rng):
        self.rng = rng
        self.loops = {}
        self.args = {}
        self.nargs = 0
        self.ninner = 0
        self.features = set()

    def ri(self, a, b):
        return int(self.rng.integers(a, b + 1))

    def choice(self, seq, p=None):
        return seq[int(self.rng.choice(len(seq), p=p))]

    def new_arg(self, shape):
        name = f'a{self.nargs}'
        self.nargs += 1
        self.args[name] = numpy.round(self.rng.uniform(-2, 2, size=shape), 3).tolist()
        return ['arg', name, list(shape)]

    def length(self, L):
        ln = self.loops[L]
        return ln['max'] if isinstance(ln, dict) else ln

    def static(self, L):
        return not isinstance(self.loops[L], dict)

    def ftable(self, L, m):
        return numpy.round(self.rng.uniform(-2, 2, size=(self.length(L), m)), 3).tolist()

    def itable(self, L, m):
        return self.rng.integers(-3, 4, size=(self.length(L), m)).tolist()

    def dofs(self, L, m, N):
        return [sorted(self.rng.choice(N, size=m, replace=False).tolist()) if self.rng.random() < .8 else self.rng.choice(N, size=m, replace=False).tolist()
                for _ in range(self.length(L))]

    def inner_loop(self):
        name = f'p{self.ninner}'
        self.ninner += 1
        self.loops[name] = self.ri(2, 4)
        return name

    # body vectors of shape (m,) depending on loop L
    def body_vec(self, L, m, depth=0):
        if not self.static(L):
            kinds = ['idxarg', 'idxarg', 'nested']
        else:
            kinds = ['row', 'rowidx', 'rowarg', 'rowplus', 'nested', 'sin', 'argtake', 'sq']
        k = self.choice(kinds)
        if depth > 1 and k == 'nested':
            k = 'row' if self.static(L) else 'idxarg'
        self.features.add('body/' + k)
        if k == 'idxarg':
            return ['mul', self.new_arg((m,)), ['ins', ['add', ['f', ['idx', L]], ['c', 1., 'f']], m]]
        row = ['row', self.ftable(L, m), L, 'f'] if self.static(L) else None
        if k == 'row':
            return row
        if k == 'rowidx':
            return ['mul', row, ['ins', ['f', ['idx', L]], m]]
        if k == 'rowarg':
            return ['mul', row, self.new_arg((m,))]
        if k == 'rowplus':
            return ['add', row, ['ins', ['f', ['idx', L]], m]]
        if k == 'sin':
            return ['sin', ['mul', row, self.new_arg((m,))]]
        if k == 'sq':
            return ['sq', ['add', row, self.new_arg((m,))]]
        if k == 'argtake':
            b = self.new_arg((self.length(L),))
            return ['mul', row, ['ins', ['take', b, ['idx', L]], m]]
        if k == 'nested':
            P = self.inner_loop()
            inner = self.choice(['scalar', 'vec', 'cat'])
            self.features.add('nested/' + inner)
            base = row if row is not None else self.new_arg((m,))
            if inner == 'scalar':
                return ['mul', base, ['ins', ['lsum', ['f', ['add', ['idx', L], ['idx', P]]], P], m]]
            if inner == 'vec':
                return ['lsum', ['mul', base, ['mul', ['row', self.ftable(P, m), P, 'f'], ['ins', ['f', ['add', ['idx', L], ['idx', P]]], m]]], P]
            # inner concatenate summed to a scalar
            q = self.ri(1, 3)
            return ['mul', base, ['ins', ['sum', ['lcat', ['mul', ['row', self.ftable(P, q), P, 'f'], ['ins', ['f', ['add', ['idx', L], ['c', 1, 'i']]], q]], P]], m]]
        raise AssertionError(k)

    def int_vec(self, L, m):
        self.features.add('int')
        k = self.choice(['row', 'rowidx', 'rowplus'])
        row = ['row', self.itable(L, m), L, 'i']
        if k == 'row':
            return row
        if k == 'rowidx':
            return ['mul', row, ['ins', ['idx', L], m]]
        return ['add', row, ['ins', ['idx', L], m]]

    def output(self, L, others):
        """One output driven by outer loop L (others: further outer loops that may be combined in)."""
        static = self.static(L)
        kinds = ['lsum', 'inflate', 'diag', 'matrix', 'lcat', 'addsame', 'post', 'nestcat', 'scalar']
        if static:
            kinds += ['varcat', 'int_lsum', 'int_lcat', 'int_inflate', 'trmatrix', 'lcat2d']
        if others:
            kinds += ['addother', 'dependent', 'addother']
        k = self.choice(kinds)
        self.features.add('out/' + k)
        m = self.ri(1, 4)
        N = self.ri(m, m + 4)
        if k == 'lsum':
            return ['lsum', self.body_vec(L, m), L]
        if k == 'scalar':
            return ['lsum', ['sum', self.body_vec(L, m)], L]
        if k == 'inflate':
            if static:
                return ['lsum', ['infl', self.body_vec(L, m), ['row', self.dofs(L, m, N), L, 'i'], N], L]
            return ['lsum', ['infl', self.body_vec(L, m), ['c', sorted(self.rng.choice(N, size=m, replace=False).tolist()), 'i'], N], L]
        if k == 'int_inflate':
            return ['lsum', ['infl', self.int_vec(L, m), ['row', self.dofs(L, m, N), L, 'i'], N], L]
        if k == 'diag':
            if static:
                return ['lsum', ['diag', ['infl', self.body_vec(L, m), ['row', self.dofs(L, m, N), L, 'i'], N]], L]
            return ['lsum', ['diag', self.body_vec(L, m)], L]
        if k in ('matrix', 'trmatrix'):
            if static:
                d = ['row', self.dofs(L, m, N), L, 'i']
                e = ['lsum', ['outer', ['infl', self.body_vec(L, m), d, N], ['infl', self.body_vec(L, m), d, N]], L]
            else:
                e = ['lsum', ['outer', self.body_vec(L, m), self.body_vec(L, m)], L]
            return ['tr', e] if k == 'trmatrix' else e
        if k == 'lcat':
            return ['lcat', self.body_vec(L, m), L]
        if k == 'lcat2d':
            q = self.ri(1, 3)
            return ['lcat', ['outer', self.body_vec(L, q), self.body_vec(L, m)], L]
        if k == 'int_lsum':
            return ['lsum', self.int_vec(L, m), L]
        if k == 'int_lcat':
            return ['lcat', self.int_vec(L, m), L]
        if k == 'varcat':
            # chunk length depends on the loop index: sizes are computed by a first loop, data by a second
            n = ['add', ['idx', L], ['c', self.ri(0, 1), 'i']]
            self.features.add('variable-length-chunks')
            return ['lcat', ['add', ['f', ['range', n]], ['f', ['idx', L]]], L]
        if k == 'addsame':
            return ['add', ['lsum', self.body_vec(L, m), L], ['lsum', self.body_vec(L, m), L]]
        if k == 'addother':
            M = self.choice(others)
            if self.static(L) and self.static(M) and self.rng.random() < .5:
                return ['add', ['lsum', ['infl', self.body_vec(L, m), ['row', self.dofs(L, m, N), L, 'i'], N], L],
                        ['lsum', ['infl', self.body_vec(M, m), ['row', self.dofs(M, m, N), M, 'i'], N], M]]
            return ['add', ['lsum', self.body_vec(L, m), L], ['lsum', self.body_vec(M, m), M]]
        if k == 'dependent':
            # loop M reads the (shared) result of loop L
            M = self.choice(others)
            first = ['lcat', self.body_vec(L, m), L] if self.static(L) else ['lsum', self.body_vec(L, m), L]
            sel = ['take', first, ['c', 0, 'i']] if not self.static(L) or not self.static(M) else \
                  ['take', first, ['row', self.rng.integers(0, self.length(L) * m, size=(self.length(M), 1)).tolist(), M, 'i']]
            if sel[2][0] == 'c':
                return ['lsum', ['mul', self.body_vec(M, m), ['ins', sel, m]], M]
            return ['lsum', ['mul', self.body_vec(M, m), ['ins', ['sum', sel], m]], M]
        if k == 'post':
            e = ['lsum', self.body_vec(L, m), L]
            return self.choice([['mul', e, self.new_arg((m,))], ['sum', e], ['neg', e], ['sin', e], ['add', e, self.new_arg((m,))]])
        if k == 'nestcat':
            # outer concatenate of inner sums
            P = self.inner_loop()
            base = ['row', self.ftable(L, m), L, 'f'] if static else self.new_arg((m,))
            return ['lcat', ['lsum', ['mul', base, ['ins', ['f', ['add', ['idx', L], ['idx', P]]], m]], P], L]
        raise AssertionError(k)


def gen_spec(rng, index=0):
    g = Gen(rng)
    nouter = int(rng.choice([1, 2, 3], p=[.45, .35, .2]))
    names = ['i', 'j', 'k'][:nouter]
    same = rng.random() < .4
    base_len = g.ri(2, 9)
    for nm in names:
        if rng.random() < .12:
            mx = 9
            v = int(rng.choice([0, 1, 2, 3, 5, 7]))
            g.loops[nm] = dict(arg='n' + nm, value=v, value2=int(rng.choice([1, 2, 4, 6])), max=mx)
            g.features.add(f'runtime-length/{min(v, 2)}')
        else:
            g.loops[nm] = base_len if same else g.ri(2, 9)
    nouts = int(rng.choice([1, 2, 3], p=[.4, .4, .2]))
    outs = []
    mode = str(rng.choice(['once', 'compile2', 'once', 'compile_par_call_ser'], p=[.45, .4, .1, .05]))
    if index % 8 == 0 or rng.random() < .03:
        # an outer loop whose run-time length is 1 (no fork happens, maxprocs stays n) around nested inner loops
        g.loops['i'] = dict(arg='ni', value=1, value2=int(rng.choice([2, 3, 5])), max=9)
        g.features.add('runtime-length-1-around-inner-loops')
        m = g.ri(1, 3)
        P, Q = g.inner_loop(), g.inner_loop()
        g.loops[P] = g.ri(3, 6)
        outs.append(['lsum', ['lsum', ['mul', g.new_arg((m,)), ['mul', ['row', g.ftable(P, m), P, 'f'], ['ins', ['f', ['add', ['idx', 'i'], ['idx', P]]], m]]], P], 'i'])
        outs.append(['lsum', ['sum', ['lcat', ['mul', ['row', g.ftable(Q, m), Q, 'f'], ['ins', ['f', ['add', ['idx', 'i'], ['c', 1, 'i']]], m]], Q]], 'i'])
        mode = 'compile2' if rng.random() < .5 else 'once'
    for o in range(max(nouts, nouter)):
        L = names[o % nouter]
        others = [n for n in names if n != L]
        outs.append(g.output(L, others))
    loops = {k: (dict(arg=v['arg'], value=v['value'], value2=v['value2']) if isinstance(v, dict) else v) for k, v in g.loops.items()}
    return dict(kind='ev', index=index, loops=loops, outer=names, outs=outs, args=g.args, mode=mode, features=sorted(g.features))


# ------------------------------------------------------------------ topology cases

TOPO_OPS = ['integrate_multi', 'integrate_mass', 'integrate_coo', 'eval_geom', 'eval_basis', 'locate', 'locate_missing', 'locate_skip', 'integrate_boundary', 'locate_maxdist',
            'integrate_csr']


def gen_topo_spec(rng, index=0):
    mesh = str(rng.choice(['rect', 'tri', 'mixed', 'line', 'rect_curved']))
    op = TOPO_OPS[index % len(TOPO_OPS)]
    if op.startswith('locate') and mesh in ('rect', 'line'):
        mesh = str(rng.choice(['tri', 'mixed', 'rect_curved']))  # affine structured meshes take the serial shortcut
    n = [int(rng.integers(2, 5)), int(rng.integers(2, 4))]
    return dict(kind='topo', index=index, mesh=mesh, n=n, op=op, degree=int(rng.integers(1, 3)), npoints=int(rng.integers(4, 12)),
                nmissing=int(rng.integers(1, 3)), seed=int(rng.integers(0, 2**31)), btype=str(rng.choice(['std', 'discont'])))


class TopoCase:
    """Builds the topology once; call() performs the API call under the current maxprocs."""

    def __init__(self, spec):
        from nutils import mesh, function
        self.spec = spec
        rng = numpy.random.default_rng(spec['seed'])
        m, n = spec['mesh'], spec['n']
        if m == 'line':
            self.domain, self.geom = mesh.line(n[0] * 2 + 1)
        elif m == 'rect':
            self.domain, self.geom = mesh.rectilinear([numpy.linspace(0, 1, n[0] + 1), numpy.linspace(0, 1, n[1] + 1)])
        elif m == 'rect_curved':
            self.domain, x = mesh.rectilinear([numpy.linspace(0, 1, n[0] + 1), numpy.linspace(0, 1, n[1] + 1)])
            self.geom = x * (1 + .2 * x[0] + .1 * x[1])
        else:
            self.domain, self.geom = mesh.unitsquare(n[0], 'triangle' if m == 'tri' else 'mixed')
        self.ndims = self.domain.ndims
        self.basis = self.domain.basis(spec['btype'], degree=spec['degree'])
        self.u = function.dotarg('u', self.basis)
        self.args = dict(u=numpy.round(rng.uniform(-1, 1, size=len(self.basis)), 3))
        self.J = function.J(self.geom)
        self.sample = self.domain.sample('gauss', 2 * spec['degree'])
        op = spec['op']
        if op.startswith('locate'):
            npts = spec['npoints']
            xi = rng.uniform(.02, .98, size=(npts, self.ndims))
            if m == 'rect_curved':
                coords = xi * (1 + .2 * xi[:, :1] + .1 * xi[:, 1:])
            else:
                coords = xi * (n[0] * 2 + 1 if m == 'line' else 1)
            if op in ('locate_missing', 'locate_skip'):
                where = sorted(rng.choice(npts + 1, size=spec['nmissing'], replace=True).tolist())
                for w in reversed(where):
                    coords = numpy.insert(coords, w, rng.uniform(2.5, 3.5, size=self.ndims), axis=0)
            self.coords = coords

    def call(self):
        from nutils import function
        op, b, u, J, g = self.spec['op'], self.basis, self.u, self.J, self.geom
        if op == 'integrate_multi':
            return self.sample.integrate([b[:, None] * b[None, :] * J, b * u * J, u**2 * J, (g * u).sum(-1) * J], arguments=self.args)
        if op == 'integrate_mass':
            return self.sample.integrate(b[:, None] * b[None, :] * (1 + u**2) * J, arguments=self.args),
        if op == 'integrate_coo':
            return function.eval(function.as_coo(self.sample.integral(b[:, None] * b[None, :] * J)))
        if op == 'integrate_csr':
            return function.eval(function.as_csr(self.sample.integral(b[:, None] * b[None, :] * (1 + u**2) * J)), arguments=self.args)
        if op == 'integrate_boundary':
            bs = self.domain.boundary.sample('gauss', 2)
            return bs.integrate([b * function.J(g), u * function.J(g)], arguments=self.args)
        if op == 'eval_geom':
            return self.sample.eval([g * u, g], arguments=self.args)
        if op == 'eval_basis':
            return self.sample.eval([b, function.grad(u, g)], arguments=self.args)
        kw = dict(eps=1e-10)
        if op == 'locate_skip':
            kw['skip_missing'] = True
        if op == 'locate_maxdist':
            kw['maxdist'] = 2.
        located = self.domain.locate(g, self.coords, **kw)
        return located.eval([g, self.domain.f_index])
