"""C13 helper: JSON expression language for nutils *function* arrays, builder,
free-argument analysis, by-value elimination of replace nodes, and the random
generator (G-fn restricted to what C13 needs).

An expression is a nested JSON list:

  ['arg', name]                              function.Argument(name, *decl[name])
  ['const', {'dtype','shape','data'}]        constant array
  ['geom', topo]   ['basis', topo, type, degree]   ['field', name, basis_expr, extra_shape]
  ['grad', e, topo]
  ['integral', topo, where, degree, e]       topo[.boundary].integral(e * J(geom), degree=)
  ['bind', topo, where, [stype, degree], e]  topo[.boundary].sample(stype, degree).bind(e)
  ['u', op, e]  ['b', op, e1, e2]  ['idx', e, i]  ['sum', e, axis]  ['ins', e, axis]
  ['replace', e, spelling, [[key, value], ...]]      value: name (str) or expression
  ['linearize', e, spelling, [[key, name], ...]]
  ['derivative', e, name]    ['factor', e]

`decl` maps every argument name to [shape, dtype-name].
"""

import json, hashlib
import numpy

DT = {'bool': bool, 'int': int, 'float': float, 'complex': complex}
DTNAME = {bool: 'bool', int: 'int', float: 'float', complex: 'complex'}
RANK = {'bool': 0, 'int': 1, 'float': 2, 'complex': 3}

# ------------------------------------------------------------------ values <-> JSON


def enc(a):
    a = numpy.asarray(a)
    k = a.dtype.kind
    if k == 'c':
        return dict(dtype='complex', shape=list(a.shape), data=[[float(v.real), float(v.imag)] for v in a.ravel()])
    if k == 'f':
        return dict(dtype='float', shape=list(a.shape), data=[float(v) for v in a.ravel()])
    if k in 'iu':
        return dict(dtype='int', shape=list(a.shape), data=[int(v) for v in a.ravel()])
    if k == 'b':
        return dict(dtype='bool', shape=list(a.shape), data=[bool(v) for v in a.ravel()])
    raise ValueError(a.dtype)


def dec(j):
    if j['dtype'] == 'complex':
        a = numpy.array([complex(r, i) for r, i in j['data']], dtype=complex)
    else:
        a = numpy.array(j['data'], dtype=DT[j['dtype']])
    return a.reshape(tuple(j['shape']))


def enc_args(A):
    return {k: enc(v) for k, v in A.items()}


def dec_args(J):
    return {k: dec(v) for k, v in J.items()}


# ------------------------------------------------------------------ topologies

_TOPO = {}
TOPOS = ['line3', 'rect22', 'rectnu', 'tri2', 'mixed2', 'lineper']
BASES = {'line3': [('std', 1), ('std', 2), ('discont', 0), ('discont', 1), ('spline', 2)],
         'rect22': [('std', 1), ('std', 2), ('discont', 0), ('discont', 1), ('spline', 2)],
         'rectnu': [('std', 1), ('discont', 0), ('discont', 1), ('spline', 2)],
         'tri2': [('std', 1), ('std', 2), ('discont', 0), ('discont', 1)],
         'mixed2': [('std', 1), ('discont', 0), ('discont', 1)],
         'lineper': [('std', 1), ('std', 2), ('discont', 1), ('spline', 2)]}
HAS_BOUNDARY = {'line3', 'rect22', 'rectnu', 'tri2', 'mixed2'}


class Topo:
    def __init__(self, key):
        from nutils import mesh
        if key == 'line3':
            self.topo, self.geom = mesh.rectilinear([3])
        elif key == 'rect22':
            self.topo, self.geom = mesh.rectilinear([2, 2])
        elif key == 'rectnu':
            self.topo, self.geom = mesh.rectilinear([[0., .5, 1.5, 2.], [0., 1., 3.]])
        elif key == 'tri2':
            self.topo, self.geom = mesh.unitsquare(2, 'triangle')
        elif key == 'mixed2':
            self.topo, self.geom = mesh.unitsquare(2, 'mixed')
        elif key == 'lineper':
            self.topo, self.geom = mesh.rectilinear([4], periodic=[0])
        else:
            raise KeyError(key)
        self.ndims = self.topo.ndims
        self._bases = {}

    def domain(self, where):
        return self.topo.boundary if where == 'boundary' else self.topo

    def basis(self, btype, degree):
        k = btype, degree
        if k not in self._bases:
            self._bases[k] = self.topo.basis(btype, degree=degree)
        return self._bases[k]


def topo(key):
    if key not in _TOPO:
        _TOPO[key] = Topo(key)
    return _TOPO[key]


# ------------------------------------------------------------------ operator tables

def _un():
    import numpy as np
    return {
        'neg': lambda a: -a, 'sin': np.sin, 'cos': np.cos, 'exp': lambda a: np.exp(a * .5), 'tanh': np.tanh,
        'sqr': lambda a: a**2, 'cube': lambda a: a**3, 'sqrt1p': lambda a: np.sqrt(1. + a * a), 'rec4': lambda a: 1. / (4. + a * a),
        'half': lambda a: a * .5, 'twice': lambda a: a * 2, 'plus1': lambda a: a + 1, 'cmul': lambda a: a * (1. - .5j),
        'abs': abs, 'sign': np.sign, 'max0': lambda a: np.maximum(a, .25), 'min0': lambda a: np.minimum(a, -.25),
        'conj': np.conjugate, 'real': np.real, 'imag': np.imag,
        'mod3': lambda a: a % 3, 'fdiv2': lambda a: a // 2, 'tofloat': lambda a: a.astype(float), 'gt0': lambda a: np.greater(a, 0),
        'not': np.logical_not,
        'T': np.transpose, 'trace': np.trace, 'ravel': np.ravel,
    }


def _bin():
    import numpy as np
    return {
        'add': lambda a, b: a + b, 'sub': lambda a, b: a - b, 'mul': lambda a, b: a * b, 'matmul': lambda a, b: a @ b,
        'outer': lambda a, b: np.einsum('i,j->ij', a, b), 'maximum': np.maximum, 'stack': lambda a, b: np.stack([a, b], axis=0),
        'concat': lambda a, b: np.concatenate([a, b], axis=0), 'divc': lambda a, b: a / (4. + b * b),
    }


UN = _un()
BIN = _bin()
KINKED = {'abs', 'sign', 'max0', 'min0', 'maximum', 'mod3', 'fdiv2', 'gt0', 'not'}
NONHOLO = {'conj', 'real', 'imag', 'abs', 'sign'}
FLOAT_ONLY = {'sqrt1p', 'rec4', 'divc', 'tanh', 'max0', 'min0', 'maximum', 'sign'}
INT_ONLY = {'mod3', 'fdiv2'}


# ------------------------------------------------------------------ builder

class Env:
    def __init__(self, decl):
        self.decl = decl

    def argument(self, name):
        from nutils import function
        shape, dtype = self.decl[name]
        return function.Argument(name, tuple(shape), DT[dtype])


def spell(spelling, pairs, env, build_value):
    """Turn [[key, value], ...] into the requested spelling.  Values that are
    strings are argument names; other values are expressions (built with
    build_value)."""
    names_only = all(isinstance(v, str) for _, v in pairs)

    def val(v):
        return v if isinstance(v, str) else build_value(v)

    if spelling == 'dict':
        return {k: val(v) for k, v in pairs}
    if spelling == 'string':
        assert names_only
        return ','.join(f'{k}:{v}' for k, v in pairs)
    if spelling == 'tuple':
        assert names_only
        return tuple(f'{k}:{v}' for k, v in pairs)
    if spelling == 'pairs':
        return [(k, val(v)) for k, v in pairs]
    if spelling == 'argval':   # names as Argument objects (shape/dtype of the key)
        from nutils import function
        out = {}
        for k, v in pairs:
            if isinstance(v, str):
                shape, dtype = env.decl[k]
                out[k] = function.Argument(v, tuple(shape), DT[dtype])
            else:
                out[k] = build_value(v)
        return out
    if spelling == 'argkey':   # docstring spelling 6: Argument-object keys in a list of pairs, the last item as a string if possible
        from nutils import function
        out = []
        for i, (k, v) in enumerate(pairs):
            shape, dtype = env.decl[k]
            if isinstance(v, str) and i == len(pairs) - 1 and len(pairs) > 1:
                out.append(f'{k}:{v}')
            else:
                out.append((env.argument(k), function.Argument(v, tuple(shape), DT[dtype]) if isinstance(v, str) else build_value(v)))
        return out
    raise ValueError(spelling)


SPELLINGS_ALL = ['dict', 'string', 'tuple', 'pairs', 'argval', 'argkey']
SPELLINGS_EXPR = ['dict', 'pairs', 'argval', 'argkey']


def build(e, env):
    from nutils import function
    t = e[0]
    if t == 'arg':
        return env.argument(e[1])
    if t == 'const':
        return function.Array.cast(dec(e[1]))
    if t == 'geom':
        return topo(e[1]).geom
    if t == 'basis':
        return topo(e[1]).basis(e[2], e[3])
    if t == 'field':
        return function.field(e[1], build(e[2], env), shape=tuple(e[3]))
    if t == 'grad':
        return function.grad(build(e[1], env), topo(e[2]).geom)
    if t == 'integral':
        T = topo(e[1])
        return T.domain(e[2]).integral(build(e[4], env) * function.J(T.geom), degree=e[3])
    if t == 'bind':
        T = topo(e[1])
        return T.domain(e[2]).sample(*e[3]).bind(build(e[4], env))
    if t == 'u':
        return UN[e[1]](build(e[2], env))
    if t == 'b':
        return BIN[e[1]](build(e[2], env), build(e[3], env))
    if t == 'idx':
        return build(e[1], env)[e[2]]
    if t == 'sum':
        return numpy.sum(build(e[1], env), e[2])
    if t == 'ins':
        return function.insertaxis(build(e[1], env), e[2], 1)
    if t == 'replace':
        return function.replace_arguments(build(e[1], env), spell(e[2], e[3], env, lambda v: build(v, env)))
    if t == 'linearize':
        return function.linearize(build(e[1], env), spell(e[2], e[3], env, None))
    if t == 'derivative':
        return function.derivative(build(e[1], env), e[2])
    if t == 'factor':
        return function.factor(build(e[1], env))
    raise ValueError(f'unknown node {t!r}')


def children(e):
    t = e[0]
    if t in ('arg', 'const', 'geom', 'basis'):
        return []
    if t == 'field':
        return [e[2]]
    if t in ('grad', 'idx', 'sum', 'ins', 'derivative', 'factor'):
        return [e[1]]
    if t == 'integral':
        return [e[4]]
    if t == 'bind':
        return [e[4]]
    if t == 'u':
        return [e[2]]
    if t == 'b':
        return [e[2], e[3]]
    if t in ('replace', 'linearize'):
        return [e[1]] + [v for _, v in e[3] if not isinstance(v, str)]
    raise ValueError(t)


def free(e):
    """Names of the arguments the expression syntactically needs."""
    t = e[0]
    if t == 'arg':
        return {e[1]}
    if t == 'field':
        return {e[1]} | free(e[2])
    if t == 'replace':
        inner = free(e[1])
        out = set(inner)
        for k, v in e[3]:
            if k in inner:
                out.discard(k)
        for k, v in e[3]:
            if k in inner:
                out |= {v} if isinstance(v, str) else free(v)
        return out
    if t == 'linearize':
        inner = free(e[1])
        return inner | {v for k, v in e[3] if k in inner}
    if t == 'derivative':
        return free(e[1]) | {e[2]}
    out = set()
    for c in children(e):
        out |= free(c)
    return out


def count_nodes(e, pred=lambda n: True):
    return (1 if pred(e) else 0) + sum(count_nodes(c, pred) for c in children(e))


def ops_used(e, out=None):
    out = set() if out is None else out
    t = e[0]
    out.add(t + ':' + e[1] if t in ('u', 'b') else t)
    for c in children(e):
        ops_used(c, out)
    return out


def skeleton(e):
    """Structure without constant values (for distinctness hashing)."""
    t = e[0]
    if t == 'const':
        return ['const', e[1]['dtype'], e[1]['shape']]
    if t in ('replace', 'linearize'):
        return [t, skeleton(e[1]), e[2], [[k, v if isinstance(v, str) else skeleton(v)] for k, v in e[3]]]
    out = []
    for x in e:
        out.append(skeleton(x) if isinstance(x, list) and x and isinstance(x[0], str) and x[0] in NODES else x)
    return out


NODES = {'arg', 'const', 'geom', 'basis', 'field', 'grad', 'integral', 'bind', 'u', 'b', 'idx', 'sum', 'ins', 'replace', 'linearize', 'derivative', 'factor'}


def digest(obj):
    return hashlib.sha1(json.dumps(obj, sort_keys=True, default=str).encode()).hexdigest()[:16]


# ------------------------------------------------------------------ by-value elimination of replace nodes

class Eliminator:
    """Rewrites an expression with replace nodes into a replace-free expression
    over fresh argument names whose VALUES are obtained by evaluating the
    (replace-free) replacement expressions first: substitution by value.

    Renaming is done on the JSON expression by this code, never by nutils."""

    def __init__(self, decl, values, evaluate):
        self.decl = dict(decl)
        self.values = dict(values)     # name -> ndarray, including fresh names
        self.evaluate = evaluate       # (expr, decl, values) -> ndarray
        self.n = 0
        self.stages = 0

    def fresh(self, like):
        self.n += 1
        name = f'_r{self.n}'
        self.decl[name] = self.decl[like]
        return name

    def run(self, e, rename):
        t = e[0]
        if t == 'arg':
            return ['arg', rename.get(e[1], e[1])]
        if t == 'field':
            return ['field', rename.get(e[1], e[1]), self.run(e[2], rename), e[3]]
        if t == 'derivative':
            return ['derivative', self.run(e[1], rename), rename.get(e[2], e[2])]
        if t == 'replace':
            inner = free(e[1])
            sub = dict(rename)
            staged = []
            for k, v in e[3]:
                if k not in inner:
                    continue   # keys that are not arguments of the function are ignored
                if isinstance(v, str):
                    # a rename: the new name is an argument of the OUTER scope
                    staged.append((k, rename.get(v, v), None))
                else:
                    g = self.run(v, rename)     # the replacement lives in the outer scope
                    staged.append((k, None, g))
            for k, name, g in staged:
                if g is None:
                    sub[k] = name
                else:
                    f = self.fresh(k)
                    needed = free(g)
                    self.values[f] = numpy.asarray(self.evaluate(g, self.decl, {n: self.values[n] for n in needed}), dtype=DT[self.decl[k][1]])
                    self.stages += 1
                    sub[k] = f
            return self.run(e[1], sub)
        if t in ('linearize', 'factor'):
            raise ValueError('elimination below linearize/factor is not defined')
        if t in ('const', 'geom', 'basis'):
            return e
        if t == 'grad':
            return ['grad', self.run(e[1], rename), e[2]]
        if t == 'integral':
            return ['integral', e[1], e[2], e[3], self.run(e[4], rename)]
        if t == 'bind':
            return ['bind', e[1], e[2], e[3], self.run(e[4], rename)]
        if t == 'u':
            return ['u', e[1], self.run(e[2], rename)]
        if t == 'b':
            return ['b', e[1], self.run(e[2], rename), self.run(e[3], rename)]
        if t in ('idx', 'sum', 'ins'):
            return [t, self.run(e[1], rename), e[2]]
        raise ValueError(t)


def has_node(e, kinds):
    return e[0] in kinds or any(has_node(c, kinds) for c in children(e))


def replace_nodes(e, out=None, level=0):
    """All replace nodes with their loop nesting level (number of enclosing integral/bind)."""
    out = [] if out is None else out
    if e[0] == 'replace':
        out.append((e, level))
    for c in children(e):
        replace_nodes(c, out, level + (1 if e[0] in ('integral', 'bind') else 0))
    return out


def respell(e, frm, to):
    """Copy of e with every replace/linearize node spelled `frm` respelled `to`."""
    t = e[0]
    if t in ('replace', 'linearize'):
        return [t, respell(e[1], frm, to), to if e[2] == frm else e[2], [[k, v if isinstance(v, str) else respell(v, frm, to)] for k, v in e[3]]]
    if t in ('arg', 'const', 'geom', 'basis'):
        return e
    if t == 'field':
        return ['field', e[1], respell(e[2], frm, to), e[3]]
    if t == 'grad':
        return ['grad', respell(e[1], frm, to), e[2]]
    if t in ('integral', 'bind'):
        return e[:4] + [respell(e[4], frm, to)]
    if t == 'u':
        return ['u', e[1], respell(e[2], frm, to)]
    if t == 'b':
        return ['b', e[1], respell(e[2], frm, to), respell(e[3], frm, to)]
    if t in ('idx', 'sum', 'ins', 'derivative'):
        return [t, respell(e[1], frm, to), e[2]]
    if t == 'factor':
        return ['factor', respell(e[1], frm, to)]
    raise ValueError(t)


# structural predicates for the ledger mechanisms ---------------------------------

def raw_membership_trigger(node):
    """_Replace.__init__ tests `name not in <raw spec>`; for the string spelling
    that is a substring test.  True when an argument of the inner function that
    is NOT replaced is a substring of the spec string (so it is dropped from
    .arguments) and is not re-introduced as a replacement target."""
    if node[0] != 'replace' or node[2] != 'string':
        return False
    spec = ','.join(f'{k}:{v}' for k, v in node[3])
    inner = free(node[1])
    keys = {k for k, _ in node[3]}
    targets = {v for k, v in node[3] if k in inner}
    return any(n in spec and n not in keys and n not in targets for n in inner)


def loop_capture_trigger(node):
    """_Replace.lower substitutes a replacement that contains a loop (integral or
    bind) into a function that itself loops at the same nesting level: both
    loops get the id `_sample_<level>`."""
    if node[0] != 'replace':
        return False
    inner = free(node[1])
    if not has_node(node[1], {'integral', 'bind'}):
        return False
    return any(k in inner and not isinstance(v, str) and has_node(v, {'integral', 'bind'}) for k, v in node[3])


# ------------------------------------------------------------------ random generation

class Entry:
    __slots__ = 'e', 'shape', 'dtype', 'spaces', 'args', 'smooth', 'holo', 'nops', 'topo'

    def __init__(self, e, arr, smooth=True, holo=True, nops=0, topo=False):
        self.e = e
        self.shape = tuple(int(n) for n in arr.shape)
        self.dtype = DTNAME[arr.dtype]
        self.spaces = bool(arr.spaces)
        self.args = set(arr.arguments)
        self.smooth, self.holo, self.nops, self.topo = smooth, holo, nops, topo


NAMEPOOL = ['u', 'v', 'w', 'p', 'q', 'x', 'y', 'a', 'b', 'c', 'du', 'u0', 'uh', 'vw', 'dp', 'lhs', 't', 'pq', 'xy', 'ab', 'w1', 'y0']
LENGTHS = [1, 2, 2, 3, 3]


def rand_value(rng, shape, dtype):
    shape = tuple(shape)
    if dtype == 'float':
        return numpy.round(rng.uniform(-1.5, 1.5, size=shape), 3)
    if dtype == 'int':
        return rng.integers(-3, 4, size=shape)
    if dtype == 'bool':
        return rng.random(shape) < .5
    if dtype == 'complex':
        return numpy.round(rng.uniform(-1.5, 1.5, size=shape), 3) + 1j * numpy.round(rng.uniform(-1.5, 1.5, size=shape), 3)
    raise ValueError(dtype)


def rand_const(rng, shape, dtype):
    v = rand_value(rng, shape, dtype)
    if dtype == 'float' and rng.random() < .3:
        v = numpy.round(v)
    return v


class Gen:
    """Grows a pool of typed sub-expressions; everything is built with nutils as
    it is generated so that shapes/dtypes are nutils' own."""

    def __init__(self, rng, with_topo=None, dtypes=None, max_ndim=2):
        self.rng = rng
        self.decl = {}
        self.env = Env(self.decl)
        self.names = list(NAMEPOOL)
        rng.shuffle(self.names)
        self.free_pool = []
        self.point_pool = []
        self.topo_key = None
        self.where = 'interior'
        self.rejected = 0
        self.dtypes = dtypes or ['float'] * 6 + ['int'] * 2 + ['complex'] * 2 + ['bool']
        self.max_ndim = max_ndim
        if with_topo is None:
            with_topo = rng.random() < .55
        if with_topo:
            self.topo_key = str(rng.choice(TOPOS))
            if self.topo_key in HAS_BOUNDARY and rng.random() < .15:
                self.where = 'boundary'

    # -- helpers
    def new_name(self):
        return self.names.pop() if self.names else f'z{len(self.decl)}'

    def new_arg(self, shape, dtype):
        name = self.new_name()
        self.decl[name] = [list(shape), dtype]
        return name

    def entry(self, e, **kw):
        try:
            arr = build(e, self.env)
        except Exception:
            self.rejected += 1
            return None
        if arr.ndim > 4 or int(numpy.prod(arr.shape, dtype=int)) > 600 or 0 in arr.shape:
            self.rejected += 1
            return None
        return Entry(e, arr, **kw)

    def rand_shape(self, p_high=.16):
        """ndim 0-2 mostly; with probability p_high an argument of ndim 3 (rarely 4) whose axis lengths
        are all different in the leading positions (ravel/unravel order of multi-indices matters there)."""
        if self.max_ndim >= 2 and self.rng.random() < p_high:
            base = [[2, 3, 4], [4, 2, 3], [3, 4, 2], [2, 4, 3], [3, 2, 4], [4, 3, 2], [1, 3, 2], [2, 3, 1]]
            shape = tuple(base[int(self.rng.integers(len(base)))])
            if self.rng.random() < .2:
                shape = shape + (2,) if self.rng.random() < .5 else (2, 3, 4, 2) if self.rng.random() < .5 else (3, 2, 2, 4)
            return shape
        nd = int(self.rng.choice([0, 1, 1, 2, 2][:2 + 2 * self.max_ndim - 1] if self.max_ndim < 2 else [0, 1, 1, 2, 2]))
        shape = tuple(int(self.rng.choice(LENGTHS)) for _ in range(nd))
        if nd == 2 and self.rng.random() < .3:
            n = int(self.rng.choice([2, 3]))
            shape = (n, n)      # square: a transposed value / direction has the right shape
        return shape

    # -- leaves
    def seed_free(self, nsig=None):
        rng = self.rng
        nsig = nsig or int(rng.integers(1, 3))
        for _ in range(nsig):
            shape, dtype = self.rand_shape(), str(rng.choice(self.dtypes))
            for _ in range(int(rng.integers(1, 4))):   # several arguments of equal signature -> swaps and chains are possible
                name = self.new_arg(shape, dtype)
                self.free_pool.append(self.entry(['arg', name]))
        for _ in range(int(rng.integers(1, 3))):
            shape = self.rand_shape() if rng.random() < .5 else self.free_pool[0].shape
            dtype = str(rng.choice(['float', 'float', 'int', 'complex']))
            self.free_pool.append(self.entry(['const', enc(rand_const(rng, shape, dtype))]))
        self.free_pool = [p for p in self.free_pool if p]

    def seed_point(self):
        rng = self.rng
        key = self.topo_key
        T = topo(key)
        pool = self.point_pool
        pool.append(self.entry(['geom', key], topo=True))
        bases = [BASES[key][int(i)] for i in rng.choice(len(BASES[key]), size=min(2, len(BASES[key])), replace=False)]
        for bt, deg in bases[:int(rng.integers(1, 3))]:
            be = ['basis', key, bt, deg]
            pool.append(self.entry(be, topo=True))
            n = len(T.basis(bt, deg))
            for _ in range(int(rng.integers(1, 3))):
                extra = [] if rng.random() < .7 else [T.ndims] if rng.random() < .7 or n > 12 else [2, 3]
                name = self.new_name()
                self.decl[name] = [[n] + extra, 'float']
                fe = ['field', name, be, extra]
                pool.append(self.entry(fe, topo=True))
                if rng.random() < .5 and (bt, deg) != ('discont', 0):
                    pool.append(self.entry(['grad', fe, key], topo=True))
                # the bare argument is also available space-free (e.g. for replacement values and norms)
                self.free_pool.append(self.entry(['arg', name]))
        self.point_pool = [p for p in pool if p]

    # -- growth
    def compatible(self, a, pool):
        out = []
        for b in pool:
            try:
                numpy.broadcast_shapes(a.shape, b.shape)
            except ValueError:
                continue
            out.append(b)
        return out

    def grow(self, pool, others=(), allow_kinks=True):
        """Add one node to `pool`; operands are drawn from pool + others."""
        rng = self.rng
        src = list(pool) + list(others)
        if not src:
            return None
        a = src[int(rng.integers(len(src)))] if rng.random() < .5 else src[-1 - int(rng.integers(min(3, len(src))))]
        r = rng.random()
        kw = dict(smooth=a.smooth, holo=a.holo, nops=a.nops + 1, topo=a.topo)
        new = None
        if r < .40:   # unary
            if a.dtype == 'float':
                ops = ['neg', 'sin', 'cos', 'exp', 'tanh', 'sqr', 'cube', 'sqrt1p', 'rec4', 'half', 'plus1', 'cmul'] + (['abs', 'max0', 'min0', 'sign'] if allow_kinks and rng.random() < .25 else [])
            elif a.dtype == 'complex':
                ops = ['neg', 'sin', 'cos', 'exp', 'sqr', 'cube', 'half', 'plus1', 'cmul'] + (['conj', 'real', 'imag', 'abs'] if allow_kinks and rng.random() < .25 else [])
            elif a.dtype == 'int':
                ops = ['neg', 'sqr', 'twice', 'plus1', 'tofloat', 'tofloat', 'half'] + (['mod3', 'fdiv2', 'gt0'] if allow_kinks else [])
            else:
                ops = ['tofloat', 'not']
            op = str(rng.choice(ops))
            kw['smooth'] = a.smooth and op not in KINKED
            kw['holo'] = a.holo and op not in NONHOLO
            new = self.entry(['u', op, a.e], **kw)
        elif r < .75:  # binary elementwise
            cands = self.compatible(a, src)
            b = cands[int(rng.integers(len(cands)))]
            ops = ['add', 'sub', 'mul', 'mul']
            if 'bool' in (a.dtype, b.dtype):
                ops = ['mul'] if a.dtype != b.dtype else []
            if a.dtype == 'float' and b.dtype == 'float':
                ops += ['divc'] + (['maximum'] if allow_kinks and rng.random() < .2 else [])
            if a.shape == b.shape and a.dtype == b.dtype and len(a.shape) < 4 and rng.random() < .3:
                ops += ['stack'] + (['concat'] if a.shape else [])
            if not ops:
                return None
            op = str(rng.choice(ops))
            kw = dict(smooth=a.smooth and b.smooth and op not in KINKED, holo=a.holo and b.holo, nops=a.nops + b.nops + 1, topo=a.topo or b.topo)
            new = self.entry(['b', op, a.e, b.e], **kw)
        elif r < .85:  # contractions
            cands = [b for b in src if a.shape and b.shape and a.shape[-1] == b.shape[0] and len(b.shape) <= 2 and 'bool' not in (a.dtype, b.dtype)]
            if cands:
                b = cands[int(rng.integers(len(cands)))]
                kw = dict(smooth=a.smooth and b.smooth, holo=a.holo and b.holo, nops=a.nops + b.nops + 1, topo=a.topo or b.topo)
                new = self.entry(['b', 'matmul', a.e, b.e], **kw)
            else:
                cands = [b for b in src if len(a.shape) == 1 and len(b.shape) == 1 and 'bool' not in (a.dtype, b.dtype)]
                if cands:
                    b = cands[int(rng.integers(len(cands)))]
                    kw = dict(smooth=a.smooth and b.smooth, holo=a.holo and b.holo, nops=a.nops + b.nops + 1, topo=a.topo or b.topo)
                    new = self.entry(['b', 'outer', a.e, b.e], **kw)
        else:  # shape ops
            nd = len(a.shape)
            if a.dtype == 'bool':
                return None
            if nd == 0:
                new = self.entry(['ins', a.e, 0], **kw)
            else:
                k = rng.random()
                if k < .4:
                    new = self.entry(['sum', a.e, int(rng.integers(nd))], **kw)
                elif k < .6:
                    ax = int(rng.integers(nd))
                    i = int(rng.integers(a.shape[ax]))
                    new = self.entry(['idx', a.e, i], **kw) if ax == 0 else self.entry(['u', 'T', ['idx', ['u', 'T', a.e], i]], **kw) if nd == 2 else None
                elif k < .75 and nd >= 2:
                    new = self.entry(['u', 'T', a.e], **kw)
                elif k < .85 and nd == 2 and a.shape[0] == a.shape[1]:
                    new = self.entry(['u', 'trace', a.e], **kw)
                elif nd < 4:
                    new = self.entry(['ins', a.e, int(rng.integers(nd + 1))], **kw)
        if new is not None:
            pool.append(new)
        return new

    def close_point(self, p):
        """Turn a pointwise entry into a space-free one by integral or bind."""
        rng = self.rng
        key = self.topo_key
        kw = dict(smooth=p.smooth, holo=p.holo, nops=p.nops + 1, topo=True)
        if rng.random() < .6 or len(p.shape) >= 2 or p.dtype == 'bool':
            if p.dtype == 'bool':
                return None
            e = ['integral', key, self.where, int(rng.integers(1, 5)), p.e]
        else:
            st = [('gauss', int(rng.integers(1, 4))), ('uniform', int(rng.integers(1, 3))), ('bezier', 2), ('vertex', 0)][int(rng.integers(4))]
            e = ['bind', key, self.where, [st[0], st[1]], p.e]
        new = self.entry(e, **kw)
        if new is not None:
            self.free_pool.append(new)
        return new

    # -- replacement specs
    def same_sig(self, name, among):
        return [n for n in among if n != name and self.decl[n] == self.decl[name]]

    def repl_value(self, key, f_args, allow_integral=True):
        """A space-free expression of the shape and dtype of argument `key`."""
        rng = self.rng
        shape, dtype = self.decl[key]
        shape = tuple(shape)
        r = rng.random()
        if r < .2:
            return ['const', enc(rand_const(rng, shape, dtype))], 'const'
        if dtype == 'bool':
            y = self.new_arg(shape, 'bool')
            return ['u', 'not', ['arg', y]], 'expr-new'
        # integral-valued replacement for field-like arguments
        if allow_integral and self.topo_key and dtype == 'float' and r < .6:
            T = topo(self.topo_key)
            for bt, deg in BASES[self.topo_key]:
                n = len(T.basis(bt, deg))
                if shape == (n,):
                    be = ['basis', self.topo_key, bt, deg]
                    same = [nm for nm in self.decl if self.decl[nm] == [[n], 'float'] and nm != key]
                    cname = same[int(rng.integers(len(same)))] if same and rng.random() < .6 else self.new_arg((n,), 'float')
                    integrand = ['b', 'mul', be, ['u', str(rng.choice(['plus1', 'sqr', 'sin', 'half'])), ['field', cname, be, []]]]
                    return ['integral', self.topo_key, 'interior', int(rng.integers(1, 4)), integrand], 'integral'
            if shape == ():
                cands = [p for p in self.point_pool if p.shape == () and p.dtype == 'float']
                if cands:
                    p = cands[int(rng.integers(len(cands)))]
                    return ['integral', self.topo_key, 'interior', int(rng.integers(1, 4)), p.e], 'integral'
        # expression over new and existing arguments
        y = self.new_arg(shape, dtype)
        ye = ['arg', y]
        kind = 'expr-new'
        choices = ['affine', 'square', 'mix', 'self', 'scaled']
        if dtype == 'float':
            choices += ['sin', 'matvec'] if shape else ['sin', 'sumnew']
        c = str(rng.choice(choices))
        if c == 'affine':
            e = ['b', 'add', ['b', 'mul', ye, ['const', enc(rand_const(rng, shape if rng.random() < .5 else (), dtype))]], ['const', enc(rand_const(rng, (), dtype))]]
        elif c == 'square':
            e = ['u', 'sqr', ye]
        elif c == 'sin':
            e = ['u', 'sin', ye]
        elif c == 'mix':
            others = self.same_sig(key, f_args)
            o = others[int(rng.integers(len(others)))] if others else key
            e = ['b', str(rng.choice(['add', 'sub', 'mul'])), ye, ['arg', o]]
            kind = 'expr-mixed'
        elif c == 'self':
            e = ['b', 'add', ['u', 'twice', ['arg', key]], ye]
            kind = 'expr-self'
        elif c == 'scaled':
            s = self.new_arg((), dtype)
            e = ['b', 'mul', ye, ['arg', s]]
        elif c == 'matvec':
            k = int(rng.integers(1, 4))
            m = self.new_arg((k,), 'float')
            M = rand_const(rng, shape + (k,), 'float')
            e = ['b', 'add', ['b', 'matmul', ['const', enc(M)], ['arg', m]], ye]
        elif c == 'sumnew':
            m = self.new_arg((int(rng.integers(1, 4)),), 'float')
            e = ['b', 'add', ['sum', ['u', 'sqr', ['arg', m]], 0], ye]
        return e, kind

    def repl_spec(self, f, only_names=False, allow_integral=True):
        """Random replacement map for the arguments of entry f. Returns (pairs, kinds)."""
        rng = self.rng
        args = sorted(f.args)
        if not args:
            return None, None
        pairs, kinds = [], []
        x = args[int(rng.integers(len(args)))]
        paired = [n for n in args if self.same_sig(n, args)]
        if paired and rng.random() < .6:
            x = paired[int(rng.integers(len(paired)))]       # swaps and chains need two arguments of one signature
        elif self.topo_key and rng.random() < .5:
            fieldlike = [n for n in args if len(self.decl[n][0]) == 1 and self.decl[n][0][0] >= 3 and self.decl[n][1] == 'float']
            if fieldlike:
                x = fieldlike[int(rng.integers(len(fieldlike)))]
        sig = self.same_sig(x, args)
        r = rng.random()
        if sig and r < .30:
            y = sig[int(rng.integers(len(sig)))]
            pairs = [[x, y], [y, x]]
            kinds.append('swap')
            rest = [n for n in sig if n != y]
            if rest and rng.random() < .3:   # 3-cycle
                z = rest[0]
                pairs = [[x, y], [y, z], [z, x]]
                kinds[-1] = 'cycle3'
        elif sig and r < .55:
            y = sig[int(rng.integers(len(sig)))]
            rest = [n for n in sig if n != y]
            z = rest[0] if rest and rng.random() < .4 else self.new_arg(*self.decl[x])
            pairs = [[x, y], [y, z]]
            kinds.append('chain')
        elif r < .65 or only_names:
            if sig and rng.random() < .35:
                pairs = [[x, sig[int(rng.integers(len(sig)))]]]
                kinds.append('rename-existing')
            else:
                pairs = [[x, self.new_arg(*self.decl[x])]]
                kinds.append('rename-new')
        else:
            v, kind = self.repl_value(x, args, allow_integral)
            pairs = [[x, v]]
            kinds.append(kind)
        # further keys
        used = {k for k, _ in pairs}
        for n in args:
            if n in used or rng.random() > .3 or len(pairs) >= 3:
                continue
            if only_names or rng.random() < .4:
                pairs.append([n, self.new_arg(*self.decl[n])])
                kinds.append('rename-new')
            else:
                v, kind = self.repl_value(n, args, allow_integral)
                pairs.append([n, v])
                kinds.append(kind)
        if rng.random() < .12:   # a key that is not an argument of f: ignored by definition
            ghost = self.new_arg((2,), 'float')
            pairs.append([ghost, self.new_arg((2,), 'float')])
            kinds.append('absent-key')
        if rng.random() < .5:
            rng.shuffle(pairs)
        return pairs, kinds

    def spelling_for(self, pairs):
        rng = self.rng
        names_only = all(isinstance(v, str) for _, v in pairs)
        if rng.random() < .45:
            return 'dict'
        return str(rng.choice(SPELLINGS_ALL if names_only else SPELLINGS_EXPR))

    def add_replace(self, pool, f, allow_integral=True, **kwspec):
        pairs, kinds = self.repl_spec(f, allow_integral=allow_integral, **kwspec)
        if not pairs:
            return None, None
        e = ['replace', f.e, self.spelling_for(pairs), pairs]
        new = self.entry(e, smooth=f.smooth, holo=f.holo, nops=f.nops + 1, topo=f.topo or any(not isinstance(v, str) and has_node(v, {'integral'}) for _, v in pairs))
        if new is not None and pool is not None:
            pool.append(new)
        return new, kinds


def gen_function(rng, tier, smooth_only=False, dtypes=None, nested_replace=True, with_topo=None, capture_free=False):
    """Random space-free function array f with its declarations. Returns (Gen, Entry)."""
    for attempt in range(20):
        g = Gen(rng, with_topo=with_topo, dtypes=dtypes)
        g.seed_free()
        big = tier == 'thorough'
        if g.topo_key:
            g.seed_point()
            for _ in range(int(rng.integers(2, 7 if big else 6))):
                g.grow(g.point_pool, g.free_pool, allow_kinks=not smooth_only)
                if nested_replace and rng.random() < .25 and g.point_pool:
                    cand = [p for p in g.point_pool if p.args]
                    if cand:
                        g.add_replace(g.point_pool, cand[int(rng.integers(len(cand)))], allow_integral=rng.random() < .5)
            cands = [p for p in g.point_pool if p.args and p.nops >= 1 and p.dtype != 'bool']
            rng.shuffle(cands)
            cands.sort(key=lambda p: not has_node(p.e, {'replace'}))   # replaced integrands first
            for p in cands[:int(rng.integers(1, 3))]:
                g.close_point(p)
        for _ in range(int(rng.integers(2, 8 if big else 6))):
            g.grow(g.free_pool, allow_kinks=not smooth_only)
            if nested_replace and rng.random() < .12:
                cand = [p for p in g.free_pool if p.args and p.nops >= 1]
                if cand:
                    # capture_free: no integral-valued replacement at the level of a function that loops itself
                    # (open finding C13-replacement-loop-capture; only the replace monitor can attribute it)
                    g.add_replace(g.free_pool, cand[int(rng.integers(len(cand)))], allow_integral=not capture_free)
        cands = [p for p in g.free_pool if p.args and p.nops >= 2 and p.dtype != 'bool' and len(p.shape) <= 3 and (not smooth_only or p.smooth)]
        if g.topo_key:
            t = [p for p in cands if p.topo]
            cands = t or cands
        if not cands:
            continue
        cands.sort(key=lambda p: p.nops)
        f = cands[-1 - int(rng.integers(min(3, len(cands))))]
        if rng.random() < .5:
            # prefer functions of several arguments of one signature (swaps, chains) or with a replace node inside
            rich = [p for p in cands if has_node(p.e, {'replace'}) or any(g.same_sig(n, p.args) for n in p.args)]
            if rich:
                f = rich[-1 - int(rng.integers(min(3, len(rich))))]
        return g, f
    raise RuntimeError('generator could not produce a function')


# ---- polynomials for factor -------------------------------------------------------

def gen_polynomial(rng, tier):
    """Polynomial (total degree <= 3) in 1-3 float arguments, optionally with
    coefficients coming from integrals. Returns (Gen, expr, degree, nonpoly_variant or None)."""
    g = Gen(rng, with_topo=rng.random() < .5, dtypes=['float'])
    nargs = int(rng.integers(1, 4))
    terms = []   # (expr, degree, shape)
    atoms = []
    if g.topo_key:
        T = topo(g.topo_key)
        bt, deg = BASES[g.topo_key][int(rng.integers(len(BASES[g.topo_key])))]
        be = ['basis', g.topo_key, bt, deg]
        n = len(T.basis(bt, deg))
        fields = []
        for _ in range(int(rng.integers(1, 3))):
            name = g.new_name()
            if rng.random() < .3 and n <= 12:
                # tensor-valued field: a 3-axis argument (ndofs, 2, 3) / (ndofs, 3, 2), contracted to a scalar
                extra = [2, 3] if rng.random() < .5 else [3, 2]
                g.decl[name] = [[n] + extra, 'float']
                fe = ['field', name, be, extra]
                fields.append(['sum', ['sum', ['b', 'mul', fe, ['const', enc(rand_const(rng, tuple(extra), 'float'))]], 1], 0])
            else:
                g.decl[name] = [[n], 'float']
                fields.append(['field', name, be, []])
        w = None
        if rng.random() < .5:
            wname = g.new_arg((T.ndims,), 'float')
            w = ['b', 'matmul', ['geom', g.topo_key], ['arg', wname]]
        # integrands: products of up to 3 field/weight factors, optionally times basis
        for _ in range(int(rng.integers(1, 4))):
            facs = []
            d = 0
            for _ in range(int(rng.integers(1, 4))):
                if w is not None and rng.random() < .3:
                    facs.append(w)
                else:
                    f = fields[int(rng.integers(len(fields)))]
                    facs.append(f if rng.random() < .7 or (bt, deg) == ('discont', 0) or f[0] != 'field' else ['sum', ['grad', f, g.topo_key], 0])
                d += 1
            prod = facs[0]
            for f in facs[1:]:
                prod = ['b', 'mul', prod, f]
            if rng.random() < .3:
                prod = ['b', 'add', prod, ['idx', ['geom', g.topo_key], 0]]
            if rng.random() < .6:
                prod = ['b', 'mul', be, prod]
            atoms.append((['integral', g.topo_key, 'interior', int(rng.integers(1, 5)), prod], d))
    if not atoms or rng.random() < .5:
        shape = g.rand_shape(p_high=.4)
        names = [g.new_arg(shape, 'float') for _ in range(nargs)]
        for _ in range(int(rng.integers(1, 4))):
            d = int(rng.integers(1, 4))
            prod = None
            for _ in range(d):
                a = ['arg', names[int(rng.integers(len(names)))]]
                prod = a if prod is None else ['b', 'mul', prod, a]
            if rng.random() < .5:
                prod = ['b', 'mul', prod, ['const', enc(rand_const(rng, shape if rng.random() < .5 else (), 'float'))]]
            if shape and rng.random() < .3:
                prod = ['sum', prod, int(rng.integers(len(shape)))]
            elif len(shape) >= 2 and rng.random() < .15:
                prod = ['u', 'T', prod]
            atoms.append((prod, d))
    # combine atoms of equal shape by addition; otherwise take one
    built = []
    for e, d in atoms:
        ent = g.entry(e)
        if ent is not None and ent.args:
            built.append((ent, d))
    if not built:
        return None
    ent, d = built[int(rng.integers(len(built)))]
    e = ent.e
    for other, d2 in built:
        if other is not ent and other.shape == ent.shape and rng.random() < .6:
            e = ['b', 'add', e, other.e]
            d = max(d, d2)
    if rng.random() < .3:
        e = ['b', 'add', e, ['const', enc(rand_const(rng, (), 'float'))]]
    ent = g.entry(e)
    if ent is None or len(ent.args) > 3:
        return None
    # a non-polynomial sibling: must be refused or still evaluate equal
    nonpoly = None
    if rng.random() < .35:
        op = str(rng.choice(['sin', 'abs', 'sqrt1p', 'rec4', 'exp', 'max0']))
        nonpoly = ['u', op, e]
    return g, ent, d, nonpoly
