"""Small topology generator for checks/c12.py (own generator; nothing shared with other checks).

A topology is described by a JSON *spec* (sufficient for replay); ``build`` turns
it into a ``T`` record holding the nutils topology plus what the monitors need
to know about it (structured shape, periodic axes, hierarchical depth,
simplex table, multipatch layout ...).
"""

import itertools, math
import numpy


class T:
    def __init__(self, **kw):
        self.topo = None
        self.kind = None          # evidence label
        self.nd = None
        self.struct = None        # dict(shape, periodic) when the spline constructor of a structured topology is reachable
        self.base = None          # topology whose f_index/f_coords define the geometry (structured / multipatch base)
        self.nlevels = 1          # hierarchical depth (1 = not hierarchical)
        self.hier = False
        self.trimmed = False
        self.simplices = None     # vertex table for closed-form counts
        self.mp = None            # multipatch layout record
        self.factors = None       # product topology: list of T
        self.notes = []
        self.__dict__.update(kw)


# ---------------------------------------------------------------- spec generation

def _shape(rng, nd, big=False):
    if nd == 1:
        return [int(rng.integers(1, 7))]
    if nd == 2:
        return [int(rng.integers(1, 5)), int(rng.integers(1, 4))]
    s = [int(rng.integers(1, 3)) for _ in range(3)]
    if rng.random() < .3:
        s[int(rng.integers(0, 3))] = 3
    return s


def gen_struct(rng, nd=None, allow_refine=True):
    if nd is None:
        nd = int(rng.choice([1, 2, 3], p=[.4, .42, .18]))
    shape = _shape(rng, nd)
    periodic = [d for d in range(nd) if rng.random() < .3]
    spec = dict(kind='struct', shape=shape, periodic=periodic, refine=0)
    if allow_refine and rng.random() < .15 and numpy.prod(shape) * 2**nd <= 36:
        spec['refine'] = 1
    if rng.random() < .08:
        d = int(rng.integers(0, nd))
        if d not in periodic and shape[d] >= 2:
            a = int(rng.integers(0, shape[d] - 1))
            b = int(rng.integers(a + 1, shape[d] + 1))
            spec['slice'] = [d, a, b]
    return spec


def gen_simplex(rng):
    v = rng.choice(['unitsquare', 'strip', 'kuhn'], p=[.3, .3, .4])
    if v == 'unitsquare':
        return dict(kind='simplex', variant='unitsquare', n=int(rng.integers(1, 4)))
    perm = int(rng.integers(0, 2**31)) if rng.random() < .7 else None
    if v == 'strip':
        nd = int(rng.integers(1, 4))
        return dict(kind='simplex', variant='strip', nd=nd, nverts=int(nd + 1 + rng.integers(0, 6)), perm=perm)
    nd = int(rng.choice([2, 3]))
    shape = [int(rng.integers(1, 4 if nd == 2 else 3)) for _ in range(nd)]
    if nd == 3 and numpy.prod(shape) > 4:
        shape = [1, 2, 1]
    return dict(kind='simplex', variant='kuhn', shape=shape, perm=perm)


MP_LAYOUTS = {
    'two1d': dict(patches=[[0, 1], [1, 2]], nd=1),
    'three1d': dict(patches=[[0, 1], [0, 2], [0, 3]], nd=1),
    'two2d': dict(patches=[[0, 1, 2, 3], [2, 3, 4, 5]], nd=2),
    'L': dict(patches=[[0, 1, 3, 4], [1, 2, 4, 5], [3, 4, 6, 7]], nd=2),
    'four': dict(patches=[[0, 1, 3, 4], [1, 2, 4, 5], [3, 4, 6, 7], [4, 5, 7, 8]], nd=2),
    'ring5': dict(patches=[[0, 4, 1, 5], [2, 6, 3, 7], [0, 4, 2, 6], [1, 5, 3, 7], [4, 6, 5, 7]], nd=2),
    'two3d': dict(patches=[[0, 1, 2, 3, 4, 5, 6, 7], [4, 5, 6, 7, 8, 9, 10, 11]], nd=3),
}


def gen_multipatch(rng):
    name = str(rng.choice(['two1d', 'three1d', 'two2d', 'L', 'four', 'ring5', 'two3d'], p=[.08, .07, .25, .3, .12, .08, .1]))
    lay = MP_LAYOUTS[name]
    default = int(rng.integers(1, 4 if lay['nd'] < 3 else 3))
    nelems = [[None, default]]
    if name == 'L' and rng.random() < .6:
        n = int(rng.integers(1, 4))
        nelems += [[[3, 6], n], [[4, 7], n]]
    if name == 'L' and rng.random() < .4:
        n = int(rng.integers(1, 4))
        nelems += [[[1, 2], n], [[4, 5], n]]
    if name == 'two2d' and rng.random() < .6:
        n = int(rng.integers(1, 4))
        nelems += [[[2, 4], n], [[3, 5], n]]
    if name == 'two2d' and rng.random() < .4:
        n = int(rng.integers(1, 4))
        nelems += [[[0, 1], n], [[2, 3], n], [[4, 5], n]]
    if name == 'two1d' and rng.random() < .6:
        nelems += [[[1, 2], int(rng.integers(1, 5))]]
    return dict(kind='multipatch', layout=name, nelems=nelems)


def gen_levelset(rng, shape):
    nd = len(shape)
    kind = str(rng.choice(['plane', 'sphere']))
    c = [float(rng.uniform(.2, s - .2)) for s in shape]
    if kind == 'plane':
        n = rng.normal(size=nd)
        n /= numpy.linalg.norm(n)
        return dict(type='plane', point=c, normal=[float(v) for v in n])
    return dict(type='sphere', center=c, radius=float(rng.uniform(.6, max(shape) * .8)), sign=int(rng.choice([-1, 1])))


def gen_boundary(rng):
    """boundary of a 2-D/3-D structured mesh: every subset of periodic axes that leaves a boundary, each named
    side of a non-periodic axis, or (side -1) the whole boundary"""
    nd = int(rng.choice([2, 3], p=[.6, .4]))
    shape = [int(rng.integers(1, 5)) for _ in range(nd)] if nd == 2 else [int(rng.integers(1, 4)) for _ in range(nd)]
    while True:
        periodic = [d for d in range(nd) if rng.random() < .5]
        if len(periodic) < nd:
            break
    base = dict(kind='struct', shape=shape, periodic=periodic, refine=0)
    if rng.random() < .12:
        return dict(kind='boundary', base=base, side=-1)
    d = int(rng.choice([d for d in range(nd) if d not in periodic]))
    return dict(kind='boundary', base=base, side=2 * d + int(rng.integers(0, 2)))


def gen_spec(rng, tier):
    """Draw a topology spec.  Hierarchical patterns are filled in by ``build`` (they need element counts)."""
    if rng.random() < .08:
        return gen_boundary(rng)
    r = rng.random()
    if r < .34:
        return gen_struct(rng)
    if r < .56:
        # hierarchical over a structured base (spline-capable) or an unstructured base (std only)
        if rng.random() < .8:
            base = gen_struct(rng, nd=int(rng.choice([1, 2, 3], p=[.35, .5, .15])), allow_refine=False)
            base.pop('slice', None)
            if len(base['shape']) == 3:
                base['shape'] = [min(s, 2) for s in base['shape']]
        elif rng.random() < .7:
            base = gen_simplex(rng)
            if base['variant'] == 'kuhn' and len(base['shape']) == 3:
                base['shape'] = [1, 1, 1]
        else:
            base = dict(kind='mixed', n=int(rng.integers(2, 4)))
        nlev = int(rng.choice([1, 2, 3], p=[.45, .4, .15]))
        return dict(kind='hier', base=base, nlevels=nlev, fracs=[float(rng.uniform(.1, .6)) for _ in range(nlev)], pick=int(rng.integers(0, 2**31)))
    if r < .68:
        return gen_simplex(rng)
    if r < .73:
        return dict(kind='mixed', n=int(rng.integers(2, 5)))
    if r < .85:
        return gen_multipatch(rng)
    if r < .94:
        base = gen_struct(rng, nd=int(rng.choice([1, 2, 3], p=[.15, .7, .15])), allow_refine=False)
        base.pop('slice', None)
        base['periodic'] = [] if rng.random() < .7 else base['periodic']
        spec = dict(kind='trim', base=base, levelset=gen_levelset(rng, base['shape']), maxrefine=int(rng.integers(0, 3)))
        if rng.random() < .25:
            spec['then_refine'] = dict(frac=float(rng.uniform(.2, .6)), pick=int(rng.integers(0, 2**31)))
        return spec
    if r < .97:
        return gen_boundary(rng)
    f1 = gen_struct(rng, nd=1, allow_refine=False)
    f2 = gen_struct(rng, nd=int(rng.choice([1, 2], p=[.8, .2])), allow_refine=False) if rng.random() < .8 else dict(kind='simplex', variant='strip', nd=1, nverts=3)
    for f in (f1, f2):
        f.pop('slice', None)
    return dict(kind='product', factors=[f1, f2])


# ---------------------------------------------------------------- building

def _kuhn(shape):
    nd = len(shape)
    vshape = [s + 1 for s in shape]
    strides = numpy.array([int(numpy.prod(vshape[d + 1:])) for d in range(nd)])
    simplices = []
    for cell in itertools.product(*[range(s) for s in shape]):
        v0 = int(numpy.dot(cell, strides))
        for perm in itertools.permutations(range(nd)):
            verts = [v0]
            for d in perm:
                verts.append(verts[-1] + int(strides[d]))
            simplices.append(verts)
    return numpy.array(sorted(simplices), dtype=int)


def _pick_subset(n, frac, pick):
    rng = numpy.random.default_rng(pick)
    k = max(1, min(n, int(round(frac * n))))
    return sorted(int(i) for i in rng.choice(n, size=k, replace=False))


def build(spec, space='X'):
    from nutils import mesh, topology, transformseq, numeric, function
    kind = spec['kind']
    if kind == 'struct':
        shape, periodic = list(spec['shape']), list(spec['periodic'])
        topo, geom = mesh.rectilinear(shape, periodic=periodic, space=space)
        label = 'struct%dd' % len(shape) + ('-periodic' if periodic else '')
        if spec.get('slice'):
            d, a, b = spec['slice']
            topo = topo[(slice(None),) * d + (slice(a, b),)]
            shape[d] = b - a
            label += '-sliced'
        if spec.get('refine'):
            topo = topo.refined
            shape = [2 * s for s in shape]
            label += '-refined'
        assert list(topo.shape) == shape, (topo.shape, shape)
        return T(topo=topo, kind=label, nd=len(shape), struct=dict(shape=shape, periodic=periodic), base=topo)
    if kind == 'boundary':
        b = build(spec['base'], space)
        if spec['side'] < 0:
            # the whole boundary (union of the sides); no structured constructor is reachable
            return T(topo=b.topo.boundary, kind='struct%dd-boundary-all' % b.nd, nd=b.nd - 1)
        names = [n for pair in (('left', 'right'), ('bottom', 'top'), ('front', 'back')) for n in pair][:2 * b.nd]
        name = names[spec['side']]
        d = spec['side'] // 2
        if d in b.struct['periodic']:
            raise KeyError('periodic axis has no boundary')
        topo = b.topo.boundary[name]
        # shape and periodic axes of the boundary as the mesh defines them (NOT read back from the topology: the bases
        # built with the default periodic=None must agree with this)
        shape = [s for i, s in enumerate(b.struct['shape']) if i != d]
        periodic = [i - (i > d) for i in b.struct['periodic'] if i != d]
        return T(topo=topo, kind='struct%dd-boundary' % b.nd + ('-periodic' if periodic else ''), nd=b.nd - 1, struct=dict(shape=shape, periodic=periodic), base=topo)
    if kind == 'simplex':
        v = spec['variant']
        if v == 'unitsquare':
            topo, geom = mesh.unitsquare(spec['n'], 'triangle')
            simplices = numpy.asarray(topo.basetopo.simplices)
            return T(topo=topo, kind='triangle-unitsquare', nd=2, simplices=simplices)
        if v == 'strip':
            nd = spec['nd']
            simplices = numeric.overlapping(numpy.arange(spec['nverts']), n=nd + 1).copy()
        else:
            nd = len(spec['shape'])
            simplices = _kuhn(spec['shape'])
        if spec.get('perm') is not None:
            # relabel the vertices and shuffle the element order: same complex, irregular order of dof merging
            r = numpy.random.default_rng(spec['perm'])
            relabel = r.permutation(int(simplices.max()) + 1)
            simplices = numpy.sort(relabel[simplices], axis=1)
            simplices = simplices[r.permutation(len(simplices))]
        transforms = transformseq.IndexTransforms(nd, len(simplices))
        topo = topology.SimplexTopology(space, simplices, transforms, transforms)
        return T(topo=topo, kind={1: 'line-simplex', 2: 'triangle', 3: 'tetrahedron'}[nd] + '-' + v, nd=nd, simplices=simplices)
    if kind == 'mixed':
        topo, geom = mesh.unitsquare(spec['n'], 'mixed')
        return T(topo=topo, kind='mixed', nd=2, geom=geom)
    if kind == 'multipatch':
        lay = MP_LAYOUTS[spec['layout']]
        nelems = {(tuple(k) if k is not None else None): v for k, v in spec['nelems']}
        topo, geom = mesh.multipatch(patches=lay['patches'], nelems=nelems, space=space)
        nd = lay['nd']
        patches = numpy.array(lay['patches']).reshape((-1,) + (2,) * nd)
        shapes = [list(p.shape) for p in topo._topos]
        t = T(topo=topo, kind='multipatch-' + spec['layout'], nd=nd, base=topo,
              mp=dict(patches=patches, shapes=shapes, layout=spec['layout']))
        return t
    if kind == 'hier':
        b = build(spec['base'], space)
        topo = b.topo
        picks = []
        cap = {1: 40, 2: 48, 3: 36}[b.nd]
        for lev in range(spec['nlevels']):
            n = len(topo)
            grow = 2**b.nd - 1
            room = (cap - n) // grow
            if room < 1:
                break
            if 'indices' in spec:
                if lev >= len(spec['indices']):
                    break
                idx = spec['indices'][lev]
            else:
                idx = _pick_subset(n, spec['fracs'][lev], spec['pick'] + lev)[:room]
            picks.append(idx)
            topo = topo.refined_by(idx)
        spec['indices'] = picks  # make the spec self-contained for replay
        t = T(topo=topo, kind='hier%d-' % (len(picks)) + b.kind, nd=b.nd, struct=b.struct, base=b.base, hier=True,
              nlevels=len(getattr(topo, 'levels', [0])), simplices=None, hbase=b)
        return t
    if kind == 'trim':
        b = build(spec['base'], space)
        topo0, geom = mesh.rectilinear(list(spec['base']['shape']), periodic=list(spec['base']['periodic']), space=space)
        # the geometry must live on the very topology object family we trim: rebuild on b.topo
        base = b.topo
        idx = base.f_index
        rev = []
        for n in b.struct['shape'][:0:-1]:
            rev.append(idx % n)
            idx = idx // n
        rev.append(idx)
        geom = base.f_coords + numpy.stack(rev[::-1])
        ls = spec['levelset']
        if ls['type'] == 'plane':
            f = ((geom - numpy.array(ls['point'])) * numpy.array(ls['normal'])).sum(-1)
        else:
            f = ls['sign'] * (ls['radius']**2 - ((geom - numpy.array(ls['center']))**2).sum(-1))
        topo = base.trim(f, maxrefine=spec['maxrefine'])
        t = T(topo=topo, kind='trimmed-' + b.kind, nd=b.nd, struct=b.struct, base=b.base, trimmed=True, hbase=b)
        t.is_subset = type(topo).__name__ == 'SubsetTopology'
        if len(topo) == 0:
            raise EmptyTopology('trimmed to nothing')
        if spec.get('then_refine') and len(topo) <= 40:
            tr = spec['then_refine']
            idx = tr.get('indices') or _pick_subset(len(topo), tr['frac'], tr['pick'])
            tr['indices'] = idx
            t.topo = topo.refined_by(idx)
            t.kind = 'hier1-' + t.kind
            t.hier = True
            t.nlevels = len(getattr(t.topo, 'levels', [0, 0]))
        return t
    if kind == 'product':
        fs = [build(f, space='XYZ'[i]) for i, f in enumerate(spec['factors'])]
        topo = fs[0].topo * fs[1].topo
        return T(topo=topo, kind='product(' + ','.join(f.kind for f in fs) + ')', nd=sum(f.nd for f in fs), factors=fs)
    raise ValueError(kind)


class EmptyTopology(Exception):
    pass


# ---------------------------------------------------------------- closed forms on simplicial complexes

def simplex_face_counts(simplices):
    """number of k-faces (k=0..nd) of the simplicial complex given by its vertex table"""
    simplices = numpy.asarray(simplices)
    nd = simplices.shape[1] - 1
    counts = []
    for k in range(nd + 1):
        faces = set()
        for s in simplices:
            for f in itertools.combinations(sorted(int(v) for v in s), k + 1):
                faces.add(f)
        counts.append(len(faces))
    return counts


def simplex_c0_ndofs(simplices, degree):
    """dimension of the C0 Lagrange/Bernstein space of `degree` on a conforming simplicial complex"""
    return sum(math.comb(degree - 1, k) * c for k, c in enumerate(simplex_face_counts(simplices)))
