"""History / aliasing family of checks/c12.py.

A *scenario* is a short sequence of ``topo.basis(...)`` calls on one to three topologies in which the keyword
arguments are caller-owned numpy ndarrays (some read-only) and ONE ndarray object is shared between several axes
of a call (periodic and non-periodic, in both orders) and between successive calls.  Refuting events:

* a caller-owned array is not bit-identical (or changed its writeable flag) after a call;
* the basis built from the shared / reused arrays differs from the basis built from fresh deep copies of the
  ORIGINAL values (construction outcome, dimension, dof tables, values on a sample);
* the basis built from the shared arrays fails the ordinary C12 monitor suite for the original values
  (closed-form dimension, Cox-de Boor values, continuity across every interface incl. the periodic seam ...);
* a basis changes when the caller later overwrites the arrays it was built from.

All topologies of a scenario have ``n`` elements per axis so that one array fits every axis.
"""

import json
import numpy

REFS = ('M', 'K', 'C', 'D', 'R')


def _knots(rng, n):
    return [float(v) for v in numpy.round(numpy.cumsum(rng.uniform(.3, 2., n + 1)) - 1., 6)]


def _periodic_subset(rng, nd, leave_one=False):
    while True:
        per = [d for d in range(nd) if rng.random() < .5]
        if leave_one and len(per) == nd:
            continue
        return per


def gen_scenario(rng):
    n = int(rng.integers(1, 5))
    p = int(rng.choice([1, 2, 3, 4], p=[.1, .45, .35, .1]))
    m0 = int(rng.integers(1, max(p, 2)))
    arrays = dict(
        M=dict(values=[m0] + [int(rng.integers(1, p + 1)) for _ in range(n - 1)] + [m0], dtype='int'),
        K=dict(values=_knots(rng, n), dtype='float'))
    for a in arrays.values():
        a['readonly'] = bool(rng.random() < .4)
    topos = []
    for _ in range(int(rng.integers(1, 4))):
        kind = str(rng.choice(['struct', 'boundary', 'refined', 'hier'], p=[.45, .2, .15, .2]))
        nd = int(rng.choice([1, 2, 3], p=[.2, .55, .25]))
        if kind == 'boundary':
            nd = max(nd, 2)
        if nd == 3 and n > 2:
            nd = 2
        if kind == 'boundary':
            per = _periodic_subset(rng, nd, leave_one=True)
            d = int(rng.choice([d for d in range(nd) if d not in per]))
            spec = dict(kind='boundary', base=dict(kind='struct', shape=[n] * nd, periodic=per, refine=0), side=2 * d + int(rng.integers(0, 2)))
        else:
            per = _periodic_subset(rng, nd)
            if nd >= 2 and rng.random() < .6:
                # one periodic and one non-periodic axis, in either order
                per = [int(rng.integers(0, nd))]
            spec = dict(kind='struct', shape=[n] * nd, periodic=per, refine=0)
            if kind == 'refined' and (2 * n)**nd <= 64:
                spec['refine'] = 1
            if kind == 'hier':
                spec = dict(kind='hier', base=spec, nlevels=int(rng.integers(1, 3)), fracs=[float(rng.uniform(.15, .5)) for _ in range(2)],
                            pick=int(rng.integers(0, 2**31)))
        topos.append(spec)
    calls = []
    for _ in range(int(rng.integers(2, 5))):
        it = int(rng.integers(0, len(topos)))
        spec = topos[it]
        nd = topo_axes(spec)[0]
        hier = spec['kind'] == 'hier'
        if hier:
            bt = str(rng.choice(['h-spline', 'th-spline', 'th-std']))
        else:
            bt = str(rng.choice(['spline', 'std'], p=[.8, .2]))
        kw = dict(degree=p)
        if rng.random() < .2:
            kw['degree'] = f'@D{nd}'
            arrays.setdefault(f'D{nd}', dict(values=[p] * nd, dtype='int', readonly=bool(rng.random() < .4)))
        used = False
        if rng.random() < .7:
            km = [('@M' if rng.random() < .8 else None) for _ in range(nd)]
            if any(km):
                kw['knotmultiplicities'] = km
                used = True
        if rng.random() < .5 or not used:
            if rng.random() < .4:
                kw['knotvalues'] = '@K'
            else:
                kv = [('@K' if rng.random() < .8 else None) for _ in range(nd)]
                kw['knotvalues'] = kv if any(kv) else ['@K'] * nd
        if not bt.endswith('std') and rng.random() < .2:
            c = int(rng.integers(-1, p))
            kw['continuity'] = f'@C{nd}'
            arrays.setdefault(f'C{nd}', dict(values=[c] * nd, dtype='int', readonly=bool(rng.random() < .4)))
        if not hier and rng.random() < .1:
            arrays.setdefault('R', dict(values=[int(rng.integers(0, 2))], dtype='int', readonly=bool(rng.random() < .4)))
            kw['removedofs'] = ['@R'] + [None] * (nd - 1)
        calls.append(dict(topo=it, btype=bt, kwargs=kw))
    return dict(kind='alias', n=n, p=p, arrays=arrays, topos=topos, calls=calls, scribble=bool(rng.random() < .7))


# ---------------------------------------------------------------- materialising keyword arguments

def _subst(val, f):
    if isinstance(val, str) and val.startswith('@'):
        return f(val[1:])
    if isinstance(val, list):
        return [_subst(v, f) for v in val]
    return val


def materialise(kw, f):
    return {k: _subst(v, f) for k, v in kw.items()}


def refs_of(kw):
    out = []

    def f(name):
        out.append(name)
        return None
    materialise(kw, f)
    return out


def make_arrays(arrays):
    live = {}
    for name, a in arrays.items():
        arr = numpy.array(a['values'], dtype=int if a['dtype'] == 'int' else float)
        if a.get('readonly'):
            arr.setflags(write=False)
        live[name] = arr
    return live


def snapshot(live):
    return {name: (arr.tobytes(), arr.shape, str(arr.dtype), bool(arr.flags.writeable)) for name, arr in live.items()}


def topo_axes(spec):
    """(nd, set of periodic axes) of the topology a spec describes, from the spec alone"""
    if spec['kind'] == 'struct':
        return len(spec['shape']), set(spec['periodic'])
    if spec['kind'] == 'hier':
        return topo_axes(spec['base'])
    if spec['kind'] == 'boundary':
        nd, per = topo_axes(spec['base'])
        d = spec['side'] // 2
        return nd - 1, {i - (i > d) for i in per if i != d}
    raise ValueError(spec['kind'])


def shared_axes(kw, spec):
    """does ONE array object feed a non-periodic and a periodic axis of this call?"""
    nd, per = topo_axes(spec)
    for name in 'knotmultiplicities', 'knotvalues':
        v = kw.get(name)
        if v is None:
            continue
        axes = list(range(nd)) if isinstance(v, str) else [d for d, e in enumerate(v) if isinstance(e, str)]
        if any(d in per for d in axes) and any(d not in per for d in axes):
            order = 'nonperiodic_first' if min(d for d in axes if d not in per) < min(d for d in axes if d in per) else 'periodic_first'
            return order
    return None
