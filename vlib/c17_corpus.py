"""C17 — value recipes (JSON), their builder, and the adversarial corpus generators.

A *recipe* is a nested JSON list that ``build`` turns into a live value; everything the
check reports (cases, replays, cross-process comparisons) is expressed in recipes, so a
case is reproducible from its JSON alone.
"""

import io, pickle, struct, inspect
import numpy
from vlib import c17_canon as K
from vlib import c17_mod_a as A, c17_mod_b as B


class Unbuildable(Exception):
    pass


# ---------------------------------------------------------------- registries

def _classes():
    import nutils.types, nutils.evaluable, builtins, types as pytypes
    reg = {}
    for n in ('bool', 'int', 'float', 'complex', 'str', 'bytes', 'tuple', 'list', 'dict', 'set', 'frozenset', 'type', 'object', 'slice', 'range'):
        reg[n] = getattr(builtins, n)
    reg['NoneType'] = type(None)
    reg['ellipsis'] = type(Ellipsis)
    reg['numpy.ndarray'] = numpy.ndarray
    reg['numpy.int64'] = numpy.int64
    reg['numpy.float64'] = numpy.float64
    reg['io.BytesIO'] = io.BytesIO
    reg['nutils.arraydata'] = nutils.types.arraydata
    reg['nutils.frozendict'] = nutils.types.frozendict
    reg['nutils.Add'] = nutils.evaluable.Add
    for m, mod in (('a', A), ('b', B)):
        for n in ('Plain', 'Other', 'WithMeta', 'DC', 'DC1', 'DCalt', 'P', 'Q', 'MyInt', 'MyStr', 'MyTuple', 'Color', 'Imm2', 'Imm2b', 'ImmD', 'ImmKw',
                  'ImmKwo', 'ImmV0', 'ImmV', 'Sing2', 'Sing2b', 'SingD', 'SingKw', 'Data2', 'Data2alt', 'Data3', 'Data1'):
            reg[m + '.' + n] = getattr(mod, n)
    return reg


_CLASSES = None


def classes():
    global _CLASSES
    if _CLASSES is None:
        _CLASSES = _classes()
        for mod in (A, B):
            for n in ('src_plus', 'src_times'):
                w = getattr(mod, n)
                K.register_hashable_function(w, inspect.getsource(w.__wrapped__), permanent=True)
    return _CLASSES


FUNCS = [A.f_plus, A.f_times, B.f_plus]
PLAIN_DC = ('DC', 'DC1', 'DCalt')
NT = ('P', 'Q')
IMM_XY = ('Imm2', 'Imm2b', 'ImmV0', 'ImmV', 'Sing2', 'Sing2b', 'Data2', 'Data2alt')      # (x, y)
INTERNED = ('Sing2', 'Sing2b', 'SingD', 'SingKw', 'Data2', 'Data2alt', 'Data3', 'Data1')


# ---------------------------------------------------------------- leaf encoders

def fbits(x):
    return struct.pack('>d', x).hex()


def unfbits(s):
    return struct.unpack('>d', bytes.fromhex(s))[0]


def Ri(n):
    return ['i', str(int(n))]


def Rf(x):
    return ['f', fbits(float(x))]


def Rc(z):
    return ['c', fbits(z.real), fbits(z.imag)]


def Rs(s):
    return ['s', s]


def Ry(b):
    return ['y', bytes(b).hex()]


def Rb(v):
    return ['b', 1 if v else 0]


NEG_NAN = struct.unpack('>d', bytes.fromhex('fff8000000000000'))[0]
PAYLOAD_NAN = struct.unpack('>d', bytes.fromhex('7ff8000000000001'))[0]


# ---------------------------------------------------------------- builder

def _arr_values(kind, vals):
    if kind == 'b':
        return [bool(v) for v in vals]
    if kind in 'iu':
        return [int(v) for v in vals]
    if kind == 'f':
        return [unfbits(v) for v in vals]
    if kind == 'c':
        return [complex(unfbits(v[0]), unfbits(v[1])) for v in vals]
    raise Unbuildable('array kind ' + kind)


def build_array(r):
    _, dt, shape, vals, layout = r
    dtype = numpy.dtype(dt)
    native = dtype.newbyteorder('=')
    shape = tuple(shape)
    with numpy.errstate(all='ignore'):
        base = numpy.array(_arr_values(dtype.kind, vals), dtype=native).reshape(shape).astype(dtype)
    if layout == 'C' or base.ndim == 0:
        out = base
    elif layout == 'F':
        out = numpy.asfortranarray(base)
    elif layout == 'S':
        big = numpy.zeros(shape[:-1] + (2 * shape[-1],), dtype=dtype)
        big[..., ::2] = base
        out = big[..., ::2]
    elif layout == 'N':
        out = base[::-1].copy()[::-1]
    elif layout == 'RO':
        out = base.copy()
        out.setflags(write=False)
    elif layout == 'T':
        out = base.T.copy().T
    else:
        raise Unbuildable('layout ' + layout)
    assert out.shape == shape and out.dtype == dtype
    return out


def _ev(r):
    from nutils import evaluable as E, types as nt
    op = r[1]
    if op in ('arg', 'argkw'):
        name, shape, dt = r[2], r[3], classes()[r[4]]
        shp = tuple(E.constant(int(n)) for n in shape)
        if op == 'arg':
            return E.Argument(name, shp, dt)
        return E.Argument(dtype=dt, shape=shp, name=name)
    if op == 'const':
        return E.constant(build(r[2]))
    if op == 'Const':
        return E.Constant(build(r[2]))
    if op == 'Constkw':
        return E.Constant(_value=build(r[2]))
    if op in ('add', 'mul'):
        a, b = build(r[2]), build(r[3])
        return (E.add if op == 'add' else E.multiply)(a, b)
    if op in ('Add', 'Mul', 'Addkw', 'Mulkw'):
        a, b = build(r[2]), build(r[3])
        cls = E.Add if op.startswith('Add') else E.Multiply
        fm = nt.frozenmultiset([a, b])
        return cls(funcs=fm) if op.endswith('kw') else cls(fm)
    if op == 'ins':
        return E.InsertAxis(build(r[2]), E.constant(int(r[3])))
    if op == 'inskw':
        return E.InsertAxis(length=E.constant(int(r[3])), func=build(r[2]))
    if op == 'tr':
        return E.Transpose(build(r[2]), tuple(int(i) for i in r[3]))
    if op == 'trkw':
        return E.Transpose(axes=tuple(int(i) for i in r[3]), func=build(r[2]))
    if op == 'sum':
        return E.Sum(build(r[2]))
    if op == 'neg':
        return E.negative(build(r[2]))
    if op == 'pow':
        return E.power(build(r[2]), build(r[3]))
    if op == 'min':
        return E.Minimum(build(r[2]), build(r[3]))
    if op == 'sub':
        return E.subtract(build(r[2]), build(r[3]))
    if op == 'simp':
        return build(r[2]).simplified
    if op == 'opt':
        return build(r[2]).optimized_for_numpy
    raise Unbuildable('evaluable op ' + op)


def build(r):
    """Recipe -> live value.  Raises Unbuildable (or whatever the constructor raises)."""
    from nutils import types as nt
    k = r[0]
    if k == 'N':
        return None
    if k == 'E':
        return Ellipsis
    if k == 'b':
        return bool(r[1])
    if k == 'i':
        return int(r[1])
    if k == 'f':
        return unfbits(r[1])
    if k == 'c':
        return complex(unfbits(r[1]), unfbits(r[2]))
    if k == 's':
        return r[1]
    if k == 'y':
        return bytes.fromhex(r[1])
    if k == 'np':
        with numpy.errstate(all='ignore'):
            return numpy.dtype(r[1]).type(build(r[2]))
    if k == 'npld':    # a long double that is not a double
        return numpy.longdouble(build(r[1])) + numpy.finfo(numpy.longdouble).eps
    if k == 't':
        return tuple(build(x) for x in r[1])
    if k == 'l':
        return [build(x) for x in r[1]]
    if k == 'S':
        return set(build(x) for x in r[1])
    if k == 'F':
        return frozenset(build(x) for x in r[1])
    if k == 'd':
        return {build(a): build(b) for a, b in r[1]}
    if k == 'fd':
        return nt.frozendict({build(a): build(b) for a, b in r[1]})
    if k == 'fm':
        return nt.frozenmultiset([build(x) for x in r[1]])
    if k == 'A':
        return build_array(r)
    if k == 'Av':     # same memory, other dtype/shape
        return numpy.ascontiguousarray(build(r[1])).view(numpy.dtype(r[2])).reshape(tuple(r[3]))
    if k == 'a0':     # 0-d array of a scalar
        return numpy.array(build(r[2]), dtype=numpy.dtype(r[1]))
    if k == 'AD':
        return nt.arraydata(build(r[1]))
    if k == 'C':
        return classes()[r[1]]
    if k == 'dc':
        return classes()[r[1]](**{n: build(x) for n, x in r[2]})
    if k == 'nt':
        return classes()[r[1]](*[build(x) for x in r[2]])
    if k == 'sub':
        return classes()[r[1]](build(r[2]))
    if k == 'enum':
        return getattr(classes()[r[1]], r[2])
    if k == 'im':
        return classes()[r[1]](*[build(x) for x in r[2]], **{n: build(x) for n, x in r[3]})
    if k == 'obj':    # instance of a plain class (nutils_hash is expected to refuse)
        return classes()[r[1]]()
    if k == 'hf':
        ident = build(r[1])
        if callable(ident):
            raise Unbuildable('callable identifier')
        w = nt.hashable_function(ident)(FUNCS[r[2]])
        K.register_hashable_function(w, ident)
        return w
    if k == 'hfs':
        classes()
        return getattr({'a': A, 'b': B}[r[1]], r[2])
    if k == 'm':
        return getattr(build(r[1]), r[2])
    if k == 'io':
        f = io.BytesIO(bytes.fromhex(r[1]))
        f.seek(int(r[2]))
        return f
    if k == 'ior':
        f = io.BufferedReader(io.BytesIO(bytes.fromhex(r[1])))
        f.seek(int(r[2]))
        return f
    if k == 'ev':
        return _ev(r)
    if k == 'nu':
        from vlib import c17_nutils
        return c17_nutils.catalogue()[r[1]]
    if k == 'nuf':    # freshly rebuilt catalogue object (new mesh call)
        from vlib import c17_nutils
        return c17_nutils.fresh(r[1])
    if k == 'call':   # generic call of a nutils callable by dotted name
        import importlib
        modname, *attrs = r[1].split('.')
        f = importlib.import_module('nutils.' + modname)
        for a in attrs:
            f = getattr(f, a)
        return f(*[build(x) for x in r[2]], **{n: build(x) for n, x in r[3]})
    if k == 'pk':
        return pickle.loads(pickle.dumps(build(r[1]), protocol=int(r[2])))
    if k == 'misc':
        import fractions, decimal, collections, functools, pathlib, datetime, enum
        return {'range': lambda: range(3), 'slice': lambda: slice(1, 2), 'bytearray': lambda: bytearray(b'ab'), 'lambda': lambda: (lambda x: x),
                'builtin': lambda: len, 'Fraction': lambda: fractions.Fraction(1, 2), 'Decimal': lambda: decimal.Decimal('1.5'),
                'OrderedDict': lambda: collections.OrderedDict(a=1), 'Counter': lambda: collections.Counter('aab'), 'deque': lambda: collections.deque([1]),
                'partial': lambda: functools.partial(int, '1'), 'Path': lambda: pathlib.PurePosixPath('/tmp/x'), 'date': lambda: datetime.date(2020, 1, 1),
                'memoryview': lambda: memoryview(b'ab'), 'NotImplemented': lambda: NotImplemented, 'module': lambda: io, 'object': lambda: object(),
                'matrix': lambda: numpy.matrix([[1]]), 'recarray': lambda: numpy.zeros(2, dtype=[('a', '<i8'), ('b', '<f8')]),
                'recarray2': lambda: numpy.zeros(2, dtype=[('a', '<f8'), ('b', '<i8')]), 'objarray': lambda: numpy.array([None, 1], dtype=object),
                'strarray': lambda: numpy.array(['a', 'b']), 'dt64': lambda: numpy.datetime64('2020-01-01'), 'dtype': lambda: numpy.dtype('int32'),
                'generator': lambda: (i for i in range(2)), 'StringIO': lambda: io.StringIO('abc')}[r[1]]()
    raise Unbuildable('recipe kind %r' % (k,))


MISC = ['range', 'slice', 'bytearray', 'lambda', 'builtin', 'Fraction', 'Decimal', 'OrderedDict', 'Counter', 'deque', 'partial', 'Path', 'date', 'memoryview',
        'NotImplemented', 'module', 'object', 'matrix', 'recarray', 'recarray2', 'objarray', 'strarray', 'dt64', 'dtype', 'generator', 'StringIO']


# ---------------------------------------------------------------- leaf pools and look-alikes

def leaf_pool():
    L = [['N'], ['E'], Rb(0), Rb(1)]
    for n in (0, 1, -1, 2, 3, 10, 12, 123, 255, 256, -128, 2**31 - 1, 2**31, 2**32, 2**53, 2**63 - 1, 2**63, 2**64, -2**63, 10**20):
        L.append(Ri(n))
    for x in (0.0, -0.0, 1.0, -1.0, 2.0, 0.5, 0.1, float(numpy.float32(0.1)), 1e300, 5e-324, 2.0**53, float('inf'), float('-inf'), float('nan'), NEG_NAN, PAYLOAD_NAN, 123.0, 12.0):
        L.append(Rf(x))
    for z in (0j, complex(0., -0.), complex(-0., 0.), 1 + 0j, 1j, 1 + 1j, complex(1, -0.), complex(float('nan'), 0), complex(0, float('inf')), 2 + 0j):
        L.append(Rc(z))
    for s in ('', 'a', 'b', 'ab', 'c', 'bc', 'abc', 'a\0b', '\0', '0', '1', '12', 'True', 'None', 'int', 'tuple', 'str', 'é', 'é', ' ', 'hashable_function', 'x', 'y', '1.0', '(1, 2)'):
        L.append(Rs(s))
    for y in (b'', b'a', b'b', b'ab', b'c', b'bc', b'abc', b'a\0b', b'\0', b'1', b'12', b'\xc3\xa9', b'\xff'):
        L.append(Ry(y))
    return L


INT_DT = ('int8', 'int16', 'int32', 'int64')
UINT_DT = ('uint8', 'uint16', 'uint32', 'uint64')


def _fits(n, dt):
    info = numpy.iinfo(dt)
    return info.min <= n <= info.max


def lookalikes(r):
    """Recipes of values that look like the leaf r (some equal after nutils' documented normalisation, most not)."""
    k = r[0]
    out = []
    if k == 'b':
        v = r[1]
        out += [Ri(v), Rf(v), Rc(complex(v)), Rs(str(bool(v))), Rs(str(v)), Ry(str(v).encode()), ['np', 'bool', r], ['np', 'int8', Ri(v)], ['np', 'uint8', Ri(v)],
                ['a0', 'bool', r], ['t', [r]], Rb(1 - v), ['sub', 'a.MyInt', Ri(v)]]
    elif k == 'i':
        n = int(r[1])
        if n in (0, 1):
            out.append(Rb(n))
        if abs(n) < 2**53:
            out += [Rf(n), Rc(complex(n)), ['np', 'float64', Rf(n)]]
        out += [Rs(str(n)), Ry(str(n).encode()), ['t', [r]], ['l', [r]], ['sub', 'a.MyInt', r], ['sub', 'b.MyInt', r], Ri(-n), Ri(n + 1)]
        for dt in INT_DT + UINT_DT:
            if _fits(n, dt):
                out.append(['np', dt, r])
        if _fits(n, 'int64'):
            out.append(['a0', 'int64', r])
        if n in (1, 2):
            out.append(['enum', 'a.Color', 'RED' if n == 1 else 'GREEN'])
    elif k == 'f':
        x = unfbits(r[1])
        out += [Rf(-x), Rc(complex(x, 0.)), Rc(complex(x, -0.)), Rs(repr(x)), ['np', 'float64', r], ['np', 'float32', r], ['np', 'float16', r], ['np', 'longdouble', r],
                ['a0', 'float64', r], ['a0', 'float32', r], ['t', [r]]]
        if x == x and abs(x) != float('inf'):
            out.append(Rf(float(numpy.nextafter(x, 1e308))))
            if x == int(x) and abs(x) < 2**62:
                out.append(Ri(int(x)))
        if x != x:
            out += [Rf(float('nan')), Rf(NEG_NAN), Rf(PAYLOAD_NAN)]
    elif k == 'c':
        z = complex(unfbits(r[1]), unfbits(r[2]))
        out += [['t', [Rf(z.real), Rf(z.imag)]], Rc(z.conjugate()), ['np', 'complex128', r], ['np', 'complex64', r], ['a0', 'complex128', r], Rs(repr(z)), Rc(complex(z.imag, z.real))]
        if z.imag == 0:
            out.append(Rf(z.real))
    elif k == 's':
        s = r[1]
        out += [Ry(s.encode()), ['t', [Rs(c) for c in s]], ['sub', 'a.MyStr', r], ['sub', 'b.MyStr', r], ['np', 'str_', r], Rs(s + '\0'), Rs(s + ' '), ['t', [r]], Rs(s.swapcase())]
        if len(s) >= 2:
            out.append(['t', [Rs(s[:1]), Rs(s[1:])]])
        import unicodedata
        for form in ('NFC', 'NFD'):
            n = unicodedata.normalize(form, s)
            if n != s:
                out.append(Rs(n))
    elif k == 'y':
        y = bytes.fromhex(r[1])
        out += [Rs(y.decode('latin1')), ['A', '|u1', [len(y)], list(y), 'C'], ['A', '|i1', [len(y)], [b - 256 if b > 127 else b for b in y], 'C'], ['t', [Ri(b) for b in y]], ['np', 'bytes_', r],
                Ry(y + b'\0'), ['t', [r]]]
    elif k == 'N':
        out += [Rs('None'), ['t', []], Rb(0), ['C', 'NoneType'], ['E'], Rs('NoneType')]
    elif k == 'E':
        out += [Rs('Ellipsis'), Rs('...'), ['C', 'ellipsis'], ['N'], Rs('ellipsis')]
    return out


# ---------------------------------------------------------------- random values and structural mutations

SEQ = ('t', 'l', 'S', 'F', 'fm')
MAP = ('d', 'fd')


def is_leaf(r):
    return r[0] in ('N', 'E', 'b', 'i', 'f', 'c', 's', 'y', 'np', 'a0', 'npld', 'C', 'enum', 'sub')


def gen_leaf(rng, pool):
    r = pool[int(rng.integers(len(pool)))]
    if rng.random() < .2:
        la = lookalikes(r)
        if la:
            r = la[int(rng.integers(len(la)))]
    return r


def gen_value(rng, pool, depth=0, hashable=False):
    """Random nested container recipe."""
    u = rng.random()
    if depth >= 3 or u < .35:
        return gen_leaf(rng, pool)
    n = int(rng.choice([0, 1, 2, 2, 3, 4]))
    if u < .8:
        kinds = ('t', 'F', 'fm') if hashable else SEQ
        k = kinds[int(rng.integers(len(kinds)))] if rng.random() < .6 else 't'
        inner_hashable = hashable or k in ('S', 'F', 'fm')
        return [k, [gen_value(rng, pool, depth + 1, inner_hashable) for _ in range(n)]]
    k = 'fd' if hashable or rng.random() < .5 else 'd'
    return [k, [[gen_value(rng, pool, depth + 1, True), gen_value(rng, pool, depth + 1, hashable or k == 'fd')] for _ in range(n)]]


def _paths(r, prefix=()):
    """All positions of sub-recipes inside container recipes."""
    yield prefix
    if r[0] in SEQ:
        for i, x in enumerate(r[1]):
            yield from _paths(x, prefix + (1, i))
    elif r[0] in MAP:
        for i, (a, b) in enumerate(r[1]):
            yield from _paths(a, prefix + (1, i, 0))
            yield from _paths(b, prefix + (1, i, 1))


def _get(r, path):
    for p in path:
        r = r[p]
    return r


def _replaced(r, path, new):
    if not path:
        return new
    r = list(r)
    r[path[0]] = _replaced(r[path[0]], path[1:], new)
    return r


def mutate(r, rng, pool):
    """One structural or look-alike mutation of recipe r (returns a new recipe, possibly equal in value)."""
    paths = list(_paths(r))
    path = paths[int(rng.integers(len(paths)))]
    x = _get(r, path)
    k = x[0]
    choice = rng.random()
    if is_leaf(x) or k not in SEQ + MAP:
        la = lookalikes(x) if x[0] in ('N', 'E', 'b', 'i', 'f', 'c', 's', 'y') else []
        if la and choice < .8:
            new = la[int(rng.integers(len(la)))]
        elif choice < .9:
            new = ['t', [x]]
        else:
            new = gen_leaf(rng, pool)
        return _replaced(r, path, new)
    if k in SEQ:
        items = list(x[1])
        if choice < .25:   # container kind swap
            new = [SEQ[int(rng.integers(len(SEQ)))], items]
        elif choice < .4 and len(items) >= 2:   # permute
            i = int(rng.integers(len(items) - 1))
            items[i], items[i + 1] = items[i + 1], items[i]
            new = [k, items]
        elif choice < .55 and len(items) >= 2:   # regroup: nest two neighbours
            i = int(rng.integers(len(items) - 1))
            new = [k, items[:i] + [[k if k in ('t', 'l') else 't', items[i:i + 2]]] + items[i + 2:]]
        elif choice < .7:   # flatten one nested sequence
            for i, it in enumerate(items):
                if it[0] in SEQ:
                    new = [k, items[:i] + list(it[1]) + items[i + 1:]]
                    break
            else:
                new = [k, items + [gen_leaf(rng, pool)]]
        elif choice < .8 and items:   # duplicate
            i = int(rng.integers(len(items)))
            new = [k, items[:i] + [items[i]] + items[i:]]
        elif choice < .9 and items:   # drop
            i = int(rng.integers(len(items)))
            new = [k, items[:i] + items[i + 1:]]
        else:   # pairs <-> mapping
            if items and all(it[0] == 't' and len(it[1]) == 2 for it in items):
                new = ['d' if rng.random() < .5 else 'fd', [[it[1][0], it[1][1]] for it in items]]
            else:
                new = ['t', [x]]
        # string boundary move
        if choice > .95 and len(items) >= 2 and items[0][0] == 's' and items[1][0] == 's' and len(items[0][1]) >= 1:
            a, b = items[0][1], items[1][1]
            new = [k, [Rs(a[:-1]), Rs(a[-1:] + b)] + items[2:]]
        return _replaced(r, path, new)
    # mapping
    items = [list(it) for it in x[1]]
    if choice < .3:
        new = ['fd' if k == 'd' else 'd', items]
    elif choice < .5:
        new = ['t' if rng.random() < .5 else 'F', [['t', [a, b]] for a, b in items]]
    elif choice < .7 and items:    # swap key and value
        i = int(rng.integers(len(items)))
        items[i] = [items[i][1], items[i][0]]
        new = [k, items]
    elif choice < .85 and items:   # move part of the value into the key: {a: (b, c)} vs {(a, b): c}
        i = int(rng.integers(len(items)))
        a, b = items[i]
        if b[0] == 't' and len(b[1]) == 2:
            items[i] = [['t', [a, b[1][0]]], b[1][1]]
        else:
            items[i] = [['t', [a]], b]
        new = [k, items]
    elif items:
        new = [k, items[::-1]]
    else:
        new = ['t', []]
    return _replaced(r, path, new)


# ---------------------------------------------------------------- arrays

ARR_DT = ('|b1', '|i1', '|u1', '<i2', '<u2', '<i4', '>i4', '<u4', '<i8', '>i8', '<u8', '<f2', '<f4', '>f4', '<f8', '>f8', '<c8', '<c16', '>c16')


def gen_array(rng, dt=None, maxsize=8):
    if dt is None:
        dt = ARR_DT[int(rng.integers(len(ARR_DT)))]
    kind = numpy.dtype(dt).kind
    shape = [(), (0,), (1,), (2,), (3,), (4,), (6,), (1, 1), (1, 2), (2, 1), (2, 2), (2, 3), (3, 2), (0, 3), (3, 0), (1, 6), (6, 1), (2, 1, 2), (1, 2, 2), (8,), (2, 4), (2, 2, 2)][int(rng.integers(22))]
    n = int(numpy.prod(shape, dtype=int))
    if kind == 'b':
        vals = [int(v) for v in rng.integers(0, 2, n)]
    elif kind in 'iu':
        info = numpy.iinfo(numpy.dtype(dt))
        small = rng.random() < .8
        lo, hi = (max(info.min, -3), min(info.max, 4)) if small else (info.min, info.max)
        vals = [int(rng.integers(lo, hi, endpoint=True)) if hi < 2**63 else int(rng.integers(0, 2**63 - 1)) * 2 + int(rng.integers(0, 2)) for _ in range(n)]
    elif kind == 'f':
        vals = [fbits(float(rng.choice([0., -0., 1., -1., .5, 2., 3., 1.5, 1e30 if numpy.dtype(dt).itemsize > 2 else 1e3]))) for _ in range(n)]
    else:
        vals = [[fbits(float(rng.choice([0., -0., 1., -1., .5, 2.]))), fbits(float(rng.choice([0., -0., 1., -1., .5])))] for _ in range(n)]
    return ['A', dt, list(shape), vals, 'C']


def array_variants(r, rng):
    """Arrays that share bytes / values / shape with array recipe r in every adversarial way."""
    _, dt, shape, vals, layout = r
    dtype = numpy.dtype(dt)
    n = int(numpy.prod(shape, dtype=int))
    out = []
    # same values, other memory layout (equal as values)
    for lay in ('F', 'S', 'N', 'RO', 'T'):
        if len(shape) >= 1 and n:
            out.append(['A', dt, shape, vals, lay])
    # same elements, other shapes
    for s2 in [[n], [1, n], [n, 1], [n, 1, 1], [1, 1, n]] + ([[2, n // 2], [n // 2, 2]] if n % 2 == 0 and n else []) + ([[3, n // 3], [n // 3, 3]] if n % 3 == 0 and n else []) + ([[]] if n == 1 else []):
        if list(s2) != list(shape):
            out.append(['A', dt, list(s2), vals, 'C'])
    if n == 0:
        for s2 in ([0], [0, 0], [0, 1], [1, 0], [0, 3], [3, 0], [2, 0, 2]):
            if s2 != list(shape):
                out.append(['A', dt, s2, [], 'C'])
    # same values, other dtype (width, signedness, kind, byte order)
    if dtype.kind in 'biu':
        ints = [int(v) for v in vals]
        for d2 in ARR_DT:
            k2 = numpy.dtype(d2).kind
            if d2 == dt:
                continue
            if k2 in 'iu' and all(_fits(v, numpy.dtype(d2)) for v in ints):
                out.append(['A', d2, shape, ints, 'C'])
            elif k2 == 'b' and all(v in (0, 1) for v in ints):
                out.append(['A', d2, shape, ints, 'C'])
            elif k2 == 'f' and d2 in ('<f8', '<f4') and all(abs(v) < 2**20 for v in ints):
                out.append(['A', d2, shape, [fbits(float(v)) for v in ints], 'C'])
    elif dtype.kind == 'f':
        for d2 in ('<f2', '<f4', '>f4', '<f8', '>f8'):
            if d2 != dt:
                out.append(['A', d2, shape, vals, 'C'])
        out.append(['A', '<c16', shape, [[v, fbits(0.)] for v in vals], 'C'])
        fl = [unfbits(v) for v in vals]
        if all(x == int(x) and abs(x) < 2**20 for x in fl):
            out.append(['A', '<i8', shape, [int(x) for x in fl], 'C'])
    else:
        for d2 in ('<c8', '<c16', '>c16'):
            if d2 != dt:
                out.append(['A', d2, shape, vals, 'C'])
    # same MEMORY viewed as another dtype (different values, equal tobytes())
    nbytes = n * dtype.itemsize
    if nbytes:
        for d2 in ('|u1', '|i1', '|b1', '<i2', '<i4', '<u4', '<i8', '<u8', '<f4', '<f8', '<c8', '<c16', '>i8', '>f8'):
            it = numpy.dtype(d2).itemsize
            if d2 != dt and nbytes % it == 0 and rng.random() < .5:
                m = nbytes // it
                for s2 in ([m], [1, m]) if rng.random() < .7 else ([m],):
                    out.append(['Av', ['A', dt, shape, vals, 'C'], d2, s2])
    # scalars / containers of the same content
    if n == 1:
        leaf = {'b': lambda v: Rb(v), 'i': Ri, 'u': Ri, 'f': lambda v: ['f', v], 'c': lambda v: ['c', v[0], v[1]]}[dtype.kind](vals[0])
        out += [leaf, ['np', dtype.newbyteorder('=').name, leaf]]
    if len(shape) == 1 and dtype.kind in 'biu':
        out += [['t', [Ri(v) for v in vals]], ['l', [Ri(v) for v in vals]]]
    out.append(Ry(build_array(r).tobytes()))
    return out


# ---------------------------------------------------------------- families

def fam_containers(rng, pool):
    base = gen_value(rng, pool)
    fam = [base]
    cur = base
    for _ in range(int(rng.integers(4, 10))):
        m = mutate(cur if rng.random() < .5 else base, rng, pool)
        fam.append(m)
        cur = m
    return fam


def fam_arrays(rng, pool):
    base = gen_array(rng)
    fam = [base] + array_variants(base, rng)
    # arraydata of each (refused for unsupported dtypes/truncation), arraydata vs ndarray vs nested
    extra = []
    for r in fam:
        if r[0] in ('A', 'Av') and rng.random() < .6:
            extra.append(['AD', r])
    if rng.random() < .3:
        extra.append(['t', [base, base]])
        extra.append(['t', [['AD', base]]])
    return fam + extra


def _args_xy(rng, pool, hashable=True):
    return [gen_value(rng, pool, 2, True), gen_value(rng, pool, 2, True)]


def fam_classes(rng, pool):
    """Class objects, instances of plain dataclasses / namedtuples / builtin subclasses with same-named twins."""
    x, y = _args_xy(rng, pool)
    fam = []
    for m in ('a', 'b'):
        fam += [['C', m + '.Plain'], ['C', m + '.DC'], ['C', m + '.P'], ['C', m + '.Imm2'], ['C', m + '.Data2'], ['C', m + '.WithMeta'], ['obj', m + '.Plain']]
        fam += [['dc', m + '.DC', [['x', x], ['y', y]]], ['dc', m + '.DC', [['x', y], ['y', x]]], ['dc', m + '.DCalt', [['x', x], ['y', y]]], ['dc', m + '.DC1', [['x', x]]]]
        fam += [['nt', m + '.P', [x, y]], ['nt', m + '.Q', [x, y]], ['nt', m + '.P', [y, x]]]
        fam += [['sub', m + '.MyTuple', ['t', [x, y]]], ['enum', m + '.Color', 'RED'], ['enum', m + '.Color', 'GREEN']]
    fam += [['t', [x, y]], ['l', [x, y]], ['d', [[Rs('x'), x], [Rs('y'), y]]], ['fd', [[Rs('x'), x], [Rs('y'), y]]], ['t', [['t', [Rs('x'), x]], ['t', [Rs('y'), y]]]],
            ['F', [['t', [Rs('x'), x]], ['t', [Rs('y'), y]]]], ['C', 'int'], ['C', 'tuple'], ['C', 'type'], ['C', 'numpy.ndarray'], ['C', 'nutils.arraydata'], ['C', 'nutils.Add'],
            ['t', [['C', 'a.Plain'], x]], ['t', [['C', 'b.Plain'], x]], ['t', [['C', 'a.Other'], x]], Rs('Plain'), ['t', [['C', 'nutils.Add']]]]
    return fam


def fam_immutables(rng, pool):
    x, y = _args_xy(rng, pool)
    fam = []
    for m in ('a', 'b'):
        for n in IMM_XY:
            fam.append(['im', m + '.' + n, [x, y], []])
        fam += [['im', m + '.Imm2', [y, x], []], ['im', m + '.Imm2', [['t', [x, y]], ['N']], []], ['im', m + '.Sing2', [y, x], []]]
    fam += [['im', 'a.ImmD', [x], []], ['im', 'a.ImmD', [x, y], []], ['im', 'a.ImmD', [x, Ri(3)], []], ['im', 'a.SingD', [x], []], ['im', 'a.SingD', [x, y], []],
            ['im', 'a.ImmKw', [x, y], []], ['im', 'a.ImmKw', [x, y], [['z', x]]], ['im', 'a.ImmKw', [x, y], [['z', y]]], ['im', 'a.ImmKw', [x, y], [['w', x]]],
            ['im', 'a.ImmKw', [x, ['t', [['t', [Rs('z'), x]]]]], []],
            ['im', 'a.ImmKwo', [x, y], [['z', x]]], ['im', 'a.ImmKwo', [x, y], [['z', y]]], ['im', 'a.SingKw', [x], [['y', y]]], ['im', 'a.SingKw', [x], [['z', y]]],
            ['im', 'a.Data3', [x, y], []], ['im', 'a.Data3', [x, y, x], []], ['im', 'a.Data1', [x], []], ['im', 'a.Data1', [['t', [x]]], []],
            ['t', [x, y, ['t', []]]], ['t', [x, y]], ['dc', 'a.DC', [['x', x], ['y', y]]], ['nt', 'a.P', [x, y]],
            ['m', ['im', 'a.Imm2', [x, y], []], 'meth'], ['m', ['im', 'a.Imm2', [x, y], []], 'other'], ['m', ['im', 'b.Imm2', [x, y], []], 'meth'],
            ['m', ['im', 'a.Sing2', [x, y], []], 'meth'], ['m', ['im', 'a.Data2', [x, y], []], 'meth'], ['t', [['im', 'a.Imm2', [x, y], []], Rs('meth')]]]
    return fam


def fam_functions(rng, pool):
    ident = gen_value(rng, pool, 2, True)
    fam = [['hf', ident, 0], ['hf', ident, 1], ['t', [Rs('hashable_function'), ident]], ['l', [Rs('hashable_function'), ident]], ident,
           ['hfs', 'a', 'src_plus'], ['hfs', 'a', 'src_times'], ['hfs', 'b', 'src_plus']]
    for la in (lookalikes(ident) if is_leaf(ident) else [mutate(ident, rng, pool), mutate(ident, rng, pool)]):
        fam.append(['hf', la, 0])
    return fam


def fam_streams(rng, pool):
    n = int(rng.integers(0, 16))
    content = bytes(rng.choice(list(b'0123456789ab'), size=n).astype('uint8')) if n else b''
    pos = int(rng.integers(0, n + 1))
    fam = [['io', content.hex(), pos], ['ior', content.hex(), pos], Ry(content), ['t', [Ri(pos), Ry(content)]]]
    for p2 in {0, n, min(n, pos + 1), max(0, pos - 1)}:
        fam.append(['io', content.hex(), p2])
    fam.append(['io', (content + b'0').hex(), pos])
    fam.append(['io', content[1:].hex(), min(pos, max(0, n - 1))])
    # the digits of the position run into the content
    if n >= 12:
        fam.append(['io', (b'2' + content).hex(), 1])
        fam.append(['io', content.hex(), 12])
    return fam


def gen_evaluable(rng, depth=0, shape=None, dt=None):
    """Random small evaluable recipe with tracked (shape, dtype key)."""
    if shape is None:
        shape = [[], [2], [3], [2, 3], [3, 2]][int(rng.integers(5))]
    if dt is None:
        dt = ('float', 'int', 'float', 'complex', 'bool')[int(rng.integers(5))]
    u = rng.random()
    if depth >= 3 or u < .3:
        if rng.random() < .5:
            return ['ev', 'arg', 'abcxy'[int(rng.integers(5))], shape, dt]
        n = int(numpy.prod(shape, dtype=int))
        adt = {'float': '<f8', 'int': '<i8', 'complex': '<c16', 'bool': '|b1'}[dt]
        vals = {'float': lambda: fbits(float(rng.integers(-2, 3))), 'int': lambda: int(rng.integers(-2, 3)), 'bool': lambda: int(rng.integers(0, 2)),
                'complex': lambda: [fbits(float(rng.integers(-2, 3))), fbits(float(rng.integers(0, 2)))]}[dt]
        return ['ev', 'const', ['A', adt, shape, [vals() for _ in range(n)], 'C']]
    if u < .6:
        op = ('add', 'mul', 'Add', 'Mul')[int(rng.integers(4))]
        return ['ev', op, gen_evaluable(rng, depth + 1, shape, dt), gen_evaluable(rng, depth + 1, shape, dt)]
    if u < .7 and shape:
        return ['ev', 'ins', gen_evaluable(rng, depth + 1, shape[:-1], dt), shape[-1]]
    if u < .8 and len(shape) == 2:
        return ['ev', 'tr', gen_evaluable(rng, depth + 1, shape[::-1], dt), [1, 0]]
    if u < .9:
        return ['ev', 'sum', gen_evaluable(rng, depth + 1, shape + [int(rng.integers(2, 4))], dt if dt != 'bool' else 'int')]
    if dt != 'bool':
        return ['ev', ('sub', 'min')[int(rng.integers(2))] if dt != 'complex' else 'sub', gen_evaluable(rng, depth + 1, shape, dt), gen_evaluable(rng, depth + 1, shape, dt)]
    return ['ev', 'arg', 'b', shape, dt]


def _ev_paths(r, prefix=()):
    yield prefix
    if r[0] == 'ev' and r[1] not in ('arg', 'argkw', 'const', 'Const'):
        for i in (2, 3):
            if i < len(r) and isinstance(r[i], list) and r[i] and r[i][0] == 'ev':
                yield from _ev_paths(r[i], prefix + (i,))


def ev_equivalents(r, rng):
    """Other construction routes of the SAME evaluable (keyword vs positional, operand order)."""
    out = []
    paths = list(_ev_paths(r))
    for _ in range(3):
        path = paths[int(rng.integers(len(paths)))]
        x = _get(r, path)
        op = x[1]
        new = None
        if op in ('add', 'mul', 'Add', 'Mul', 'Addkw', 'Mulkw'):
            alt = {'add': ['add', 'Add', 'Addkw'], 'Add': ['add', 'Add', 'Addkw'], 'Addkw': ['add', 'Add'], 'mul': ['mul', 'Mul', 'Mulkw'], 'Mul': ['mul', 'Mul', 'Mulkw'], 'Mulkw': ['mul', 'Mul']}[op]
            new = ['ev', alt[int(rng.integers(len(alt)))], x[3], x[2]]
        elif op == 'arg':
            new = ['ev', 'argkw'] + x[2:]
        elif op == 'ins':
            new = ['ev', 'inskw'] + x[2:]
        elif op == 'tr':
            new = ['ev', 'trkw'] + x[2:]
        elif op == 'const':
            a = x[2]
            if a[1] == '<i8' and all(abs(int(v)) < 100 for v in a[3]):
                new = ['ev', 'const', ['A', ('<i4', '|i1', '<i2', '>i8', '|u1')[int(rng.integers(5))] if all(int(v) >= 0 for v in a[3]) else ('<i4', '|i1', '>i8')[int(rng.integers(3))], a[2], a[3], ('C', 'F', 'S')[int(rng.integers(3))]]]
            elif a[1] == '<f8':
                new = ['ev', 'const', ['A', ('<f4', '>f8')[int(rng.integers(2))], a[2], a[3], 'C']]
            else:
                new = ['ev', 'Constkw' if rng.random() < .5 else 'Const', ['AD', a]]
        if new is not None:
            out.append(_replaced(r, path, new))
    return out


def ev_mutants(r, rng):
    """Evaluables that differ from r in one adversarial detail."""
    out = []
    paths = list(_ev_paths(r))
    for _ in range(5):
        path = paths[int(rng.integers(len(paths)))]
        x = _get(r, path)
        op = x[1]
        new = None
        if op in ('add', 'Add'):
            new = ['ev', 'mul'] + x[2:]
        elif op in ('mul', 'Mul'):
            new = ['ev', 'add'] + x[2:]
        elif op == 'sub':
            new = ['ev', 'sub', x[3], x[2]]
        elif op == 'arg':
            c = rng.random()
            if c < .4:
                new = ['ev', 'arg', x[2] + "'", x[3], x[4]]
            elif c < .7:
                new = ['ev', 'arg', x[2], x[3], {'float': 'complex', 'int': 'float', 'complex': 'float', 'bool': 'int'}[x[4]]]
            elif x[3]:
                new = ['ev', 'arg', x[2], x[3][::-1] if len(x[3]) == 2 and x[3][0] != x[3][1] else x[3] + [1], x[4]]
        elif op == 'const':
            a = x[2]
            if a[1] == '<i8':
                new = ['ev', 'const', ['A', '<f8', a[2], [fbits(float(v)) for v in a[3]], 'C']]
            elif a[1] == '<f8':
                new = ['ev', 'const', ['A', '<f8', a[2], [fbits(-unfbits(v)) for v in a[3]], 'C']]    # sign incl. -0.0
            elif a[1] == '|b1':
                new = ['ev', 'const', ['A', '<i8', a[2], a[3], 'C']]
        elif op == 'ins':
            new = ['ev', 'ins', x[2], int(x[3]) + 1]
        elif op == 'sum':
            new = ['ev', 'neg', x]
        if new is not None:
            out.append(_replaced(r, path, new))
    return out


def fam_evaluables(rng, pool):
    base = gen_evaluable(rng)
    fam = [base] + ev_equivalents(base, rng) + ev_mutants(base, rng)
    if rng.random() < .3:
        fam += [['ev', 'simp', base], ['ev', 'opt', base]]
    if rng.random() < .3:
        fam.append(['t', [base, base]])
    return fam


FAMILIES = [('containers', fam_containers, .40), ('arrays', fam_arrays, .17), ('classes', fam_classes, .08), ('immutables', fam_immutables, .12),
            ('functions', fam_functions, .05), ('streams', fam_streams, .04), ('evaluables', fam_evaluables, .14)]


def gen_family(rng, pool):
    u = rng.random()
    acc = 0.
    for name, f, p in FAMILIES:
        acc += p
        if u < acc:
            return name, f(rng, pool)
    return FAMILIES[0][0], FAMILIES[0][1](rng, pool)


# ---------------------------------------------------------------- deterministic base corpus (same in every worker)

def base_corpus():
    pool = leaf_pool()
    out = list(pool)
    seen_la = []
    for r in pool:
        seen_la += lookalikes(r)
    out += seen_la
    core = [['N'], ['E'], Rb(0), Rb(1), Ri(0), Ri(1), Ri(2), Ri(12), Rf(0.), Rf(-0.), Rf(1.), Rf(float('nan')), Rc(0j), Rc(1 + 0j), Rs(''), Rs('a'), Rs('b'), Rs('ab'), Rs('1'),
            Ry(b''), Ry(b'a'), Ry(b'1'), ['t', []], ['np', 'int32', Ri(1)], ['np', 'float32', Rf(1.)], ['a0', 'int64', Ri(1)]]
    # every core leaf in every wrapper
    for x in core:
        out += [['t', [x]], ['l', [x]], ['S', [x]], ['F', [x]], ['fm', [x]], ['fm', [x, x]], ['d', [[x, x]]], ['fd', [[x, x]]], ['t', [['t', [x]]]], ['t', [x, x]], ['l', [x, x]],
                ['t', [x, ['t', []]]], ['t', [['t', []], x]], ['d', [[x, ['N']]]], ['d', [[['t', [x]], x]]], ['F', [['t', [x, x]]]], ['S', [['t', [x, x]]]],
                ['im', 'a.Imm2', [x, x], []], ['im', 'a.Data1', [x], []], ['hf', x, 0]]
    # ordered pairs and nesting boundaries of a smaller core
    small = core[:19]
    for x in small:
        for y in small:
            out += [['t', [x, y]], ['d', [[x, y]]], ['fd', [[x, y]]]]
    for x in small[:10]:
        for y in small[:10]:
            for z in (Ri(3), Rs('c')):
                out += [['t', [x, ['t', [y, z]]]], ['t', [['t', [x, y]], z]], ['t', [x, y, z]], ['l', [x, ['l', [y, z]]]], ['t', [['t', [x]], ['t', [y, z]]]]]
    out += [['t', [Rs('ab'), Rs('c')]], ['t', [Rs('a'), Rs('bc')]], ['t', [Rs('abc')]], ['t', [Ry(b'ab'), Ry(b'c')]], ['t', [Ry(b'a'), Ry(b'bc')]]]
    # empty containers of every kind
    out += [['t', []], ['l', []], ['S', []], ['F', []], ['fm', []], ['d', []], ['fd', []], ['A', '<f8', [0], [], 'C'], ['A', '<i8', [0], [], 'C'], ['A', '|b1', [0], [], 'C'],
            ['AD', ['A', '<f8', [0], [], 'C']], ['AD', ['A', '<i8', [0], [], 'C']], ['AD', ['A', '<i8', [0, 0], [], 'C']], ['AD', ['A', '<i8', [], [0], 'C']]]
    # things nutils_hash is expected to refuse
    out += [['misc', m] for m in MISC] + [['np', 'datetime64', Rs('2020-01-01')], ['npld', Rf(1.)], ['obj', 'a.Plain'], ['obj', 'a.WithMeta'], ['C', 'a.WithMeta'], Rs('\ud800')]
    # class objects
    out += [['C', k] for k in sorted(classes())]
    return out


# ---------------------------------------------------------------- routes that must preserve the hash (Monitor B) and interning pools (Monitor C)

def has_nan(r):
    """Does the recipe contain a NaN scalar leaf (NaN != NaN defeats ==-based interning and equality: left out of identity verdicts)."""
    if not isinstance(r, list) or not r:
        return False
    if r[0] == 'f':
        x = unfbits(r[1])
        return x != x
    if r[0] == 'c':
        a, b = unfbits(r[1]), unfbits(r[2])
        return a != a or b != b
    return any(has_nan(x) for x in r if isinstance(x, list))


_NUMERIC_LOOKALIKE = ('b', 'f', 'c', 'np', 'npld', 'a0', 'sub', 'enum')


def _contains_kind(r, kinds):
    if not isinstance(r, list) or not r:
        return False
    if isinstance(r[0], str) and r[0] in kinds:
        return True
    return any(_contains_kind(x, kinds) for x in r if isinstance(x, list))


def risky_intern(r):
    """An interned own-class instance whose arguments contain scalars that compare equal to scalars of another type
    (1 == 1.0 == True): which object such a construction returns depends on what is alive (finding
    C17-intern-key-python-equality), so these are kept out of order-sensitive comparisons."""
    if not isinstance(r, list) or not r:
        return False
    if r[0] == 'im' and r[1].split('.')[1] in INTERNED and _contains_kind(r[2:], _NUMERIC_LOOKALIKE):
        return True
    if r[0] == 'call' and _contains_kind(r[2:], _NUMERIC_LOOKALIKE):
        return True
    return any(risky_intern(x) for x in r if isinstance(x, list))


def safe_value(rng, pool, depth=2):
    """Hashable random value without NaN and without numeric look-alike scalars (ints, strings, bytes, None, tuples...)."""
    for _ in range(50):
        r = gen_value(rng, pool, depth, True)
        if not has_nan(r) and not _contains_kind(r, _NUMERIC_LOOKALIKE):
            return r
    return Ri(int(rng.integers(2, 100)))


def np_equiv(r, rng):
    """The same value with python scalars replaced by numpy scalars that nutils_hash documents as equivalent."""
    k = r[0]
    if k == 'b' and rng.random() < .7:
        return ['np', 'bool', r]
    if k == 'i':
        n = int(r[1])
        fits = [dt for dt in INT_DT if _fits(n, dt)]
        if fits and rng.random() < .7:
            return ['np', fits[int(rng.integers(len(fits)))], r]
    if k == 'f':
        x = unfbits(r[1])
        with numpy.errstate(all='ignore'):
            fits = ['float64'] + [dt for dt in ('float32', 'float16') if x != x or float(numpy.dtype(dt).type(x)) == x]
        if rng.random() < .7:
            return ['np', fits[int(rng.integers(len(fits)))], r]
    if k == 'c':
        z = complex(unfbits(r[1]), unfbits(r[2]))
        with numpy.errstate(all='ignore'):
            ok64 = all(v != v or float(numpy.float32(v)) == v for v in (z.real, z.imag))
        if rng.random() < .7:
            return ['np', 'complex64' if ok64 and rng.random() < .5 else 'complex128', r]
    if k in SEQ:
        return [k, [np_equiv(x, rng) for x in r[1]]]
    if k in MAP:
        return [k, [[np_equiv(a, rng), np_equiv(b, rng)] for a, b in r[1]]]
    return r


def _shuffled(items, rng):
    items = list(items)
    perm = rng.permutation(len(items))
    return [items[int(i)] for i in perm]


def reorder_unordered(r, rng):
    k = r[0]
    if k in ('S', 'F', 'fm'):
        return [k, _shuffled([reorder_unordered(x, rng) for x in r[1]], rng)]
    if k in MAP:
        return [k, _shuffled([[reorder_unordered(a, rng), reorder_unordered(b, rng)] for a, b in r[1]], rng)]
    if k in ('t', 'l'):
        return [k, [reorder_unordered(x, rng) for x in r[1]]]
    return r


def int_array_routes(rng):
    """Recipes of arrays holding the same small integers in every width / signedness / layout, and as nested lists."""
    shape = [(), (1,), (3,), (2, 2), (2, 3), (0,), (1, 2, 2)][int(rng.integers(7))]
    n = int(numpy.prod(shape, dtype=int))
    nonneg = rng.random() < .6
    vals = [int(v) for v in rng.integers(0 if nonneg else -100, 100, n)]
    routes = []
    for dt in ('|i1', '<i2', '<i4', '<i8', '>i4', '>i8') + (('|u1', '<u2', '<u4', '<u8') if nonneg else ()):
        for lay in ('C', 'F', 'S', 'RO'):
            if lay == 'C' or (len(shape) >= 1 and n):
                routes.append(['A', dt, list(shape), vals, lay])

    def nest(vals, shape):
        if not shape:
            return Ri(vals[0])
        step = len(vals) // shape[0] if shape[0] else 0
        return ['l', [nest(vals[i * step:(i + 1) * step], shape[1:]) for i in range(shape[0])]]
    if n:
        routes.append(nest(vals, list(shape)))
    return routes


def float_array_routes(rng):
    shape = [(), (2,), (2, 2), (3,)][int(rng.integers(4))]
    n = int(numpy.prod(shape, dtype=int))
    vals = [fbits(float(rng.choice([0., -0., 1., -1., .5, 2., 3., 1.5, -2.25]))) for _ in range(n)]
    return [['A', dt, list(shape), vals, 'C'] for dt in ('<f8', '>f8', '<f4', '<f2')]


def route_pairs(rng, pool):
    """[(kind, recipe1, recipe2)]: two routes to the same value; kinds in STRICT_ROUTES are the ones the property lists."""
    out = []
    x, y = safe_value(rng, pool), safe_value(rng, pool)
    u, w = gen_value(rng, pool, 2, True), gen_value(rng, pool, 2, True)     # any hashable values (may contain look-alikes)
    for key in ('a.Imm2', 'b.Imm2', 'a.ImmV', 'a.Sing2', 'a.Data2'):
        a, b = (u, w) if key.split('.')[1].startswith('Imm') else (x, y)
        out.append(('kwpos', ['im', key, [a, b], []], ['im', key, [], [['y', b], ['x', a]]]))
        out.append(('kwpos', ['im', key, [a, b], []], ['im', key, [a], [['y', b]]]))
    for key, a in (('a.ImmD', u), ('a.SingD', x)):
        out.append(('default', ['im', key, [a], []], ['im', key, [a, Ri(3)], []]))
        out.append(('default', ['im', key, [a], []], ['im', key, [], [['y', Ri(3)], ['x', a]]]))
    out.append(('default', ['im', 'a.Data3', [x, y], []], ['im', 'a.Data3', [x, y, Ri(3)], []]))
    out.append(('kwpos', ['im', 'a.Data3', [x, y, x], []], ['im', 'a.Data3', [], [['z', x], ['y', y], ['x', x]]]))
    out.append(('kwpos', ['im', 'a.ImmKw', [u, w], [['p', u], ['q', w]]], ['im', 'a.ImmKw', [u, w], [['q', w], ['p', u]]]))
    out.append(('kwpos', ['im', 'a.ImmKw', [u, w], [['p', u]]], ['im', 'a.ImmKw', [], [['p', u], ['y', w], ['x', u]]]))
    out.append(('kwpos', ['im', 'a.ImmKwo', [u, w], [['z', u]]], ['im', 'a.ImmKwo', [], [['z', u], ['y', w], ['x', u]]]))
    out.append(('kwpos', ['im', 'a.SingKw', [x], [['p', x], ['q', y]]], ['im', 'a.SingKw', [], [['q', y], ['x', x], ['p', x]]]))
    # real nutils classes
    i, j = int(rng.integers(0, 3)), int(rng.integers(1, 3))
    out += [('kwpos', ['call', 'transform.Index', [Ri(j), Ri(i)], []], ['call', 'transform.Index', [], [['index', Ri(i)], ['ndims', Ri(j)]]]),
            ('default', ['call', 'transform.SimplexEdge', [Ri(j), Ri(i)], []], ['call', 'transform.SimplexEdge', [Ri(j), Ri(i), Rb(0)], []]),
            ('kwpos', ['call', 'transform.SimplexEdge', [Ri(j), Ri(i), Rb(1)], []], ['call', 'transform.SimplexEdge', [], [['inverted', Rb(1)], ['iedge', Ri(i)], ['ndims', Ri(j)]]]),
            ('kwpos', ['call', 'transform.SimplexChild', [Ri(j), Ri(i)], []], ['call', 'transform.SimplexChild', [], [['ichild', Ri(i)], ['ndims', Ri(j)]]]),
            ('default', ['call', 'transformseq.IndexTransforms', [Ri(j), Ri(i + 1)], []], ['call', 'transformseq.IndexTransforms', [Ri(j), Ri(i + 1), Ri(0)], []]),
            ('kwpos', ['call', 'transformseq.IndexTransforms', [Ri(j), Ri(i + 1), Ri(2)], []], ['call', 'transformseq.IndexTransforms', [], [['offset', Ri(2)], ['length', Ri(i + 1)], ['ndims', Ri(j)]]]),
            ('kwpos', ['call', 'points.SimplexGaussPoints', [Ri(j), Ri(i + 1)], []], ['call', 'points.SimplexGaussPoints', [], [['degree', Ri(i + 1)], ['ndims', Ri(j)]]]),
            ('kwpos', ['call', 'points.SimplexBezierPoints', [Ri(j), Ri(i + 2)], []], ['call', 'points.SimplexBezierPoints', [], [['n', Ri(i + 2)], ['ndims', Ri(j)]]]),
            ('kwpos', ['call', 'transformseq.PlainTransforms', [['t', [['t', [['call', 'transform.Index', [Ri(1), Ri(i)], []]]]]], Ri(1), Ri(1)], []],
             ['call', 'transformseq.PlainTransforms', [], [['fromdims', Ri(1)], ['todims', Ri(1)], ['transforms', ['t', [['t', [['call', 'transform.Index', [], [['ndims', Ri(1)], ['index', Ri(i)]]]]]]]]]])]
    # numpy scalar vs python scalar
    for _ in range(3):
        v = gen_value(rng, pool, 1)
        out.append(('npscalar', v, np_equiv(v, rng)))
    out.append(('npscalar', ['im', 'a.Imm2', [u, w], []], ['im', 'a.Imm2', [np_equiv(u, rng), np_equiv(w, rng)], []]))
    # integer width inside arraydata (strict) and float width / layout (extra)
    routes = int_array_routes(rng)
    base = routes[0]
    for r2 in _shuffled(routes[1:], rng)[:6]:
        out.append(('arraydata-intwidth', ['AD', base], ['AD', r2]))
    r2 = routes[int(rng.integers(1, len(routes)))]
    out.append(('arraydata-intwidth', ['t', [['AD', base], x]], ['t', [['AD', r2], x]]))
    out.append(('arraydata-intwidth', ['im', 'a.Imm2', [['AD', base], x], []], ['im', 'a.Imm2', [['AD', r2], x], []]))
    out.append(('arraydata-intwidth', ['ev', 'const', base], ['ev', 'const', r2]))
    out.append(('arraydata-intwidth', ['ev', 'Const', ['AD', base]], ['ev', 'Constkw', ['AD', r2]]))
    fr = float_array_routes(rng)
    for r2 in fr[1:]:
        out.append(('extra:arraydata-floatwidth', ['AD', fr[0]], ['AD', r2]))
    a = gen_array(rng)
    for v in array_variants(a, rng):
        if v[0] == 'A' and v[1] == a[1] and v[2] == a[2] and v[4] != 'C':
            out.append(('extra:ndarray-layout', a, v))
    # commutative operand order
    shape = [[], [2], [2, 3]][int(rng.integers(3))]
    dt = ('float', 'int', 'complex')[int(rng.integers(3))]
    ea, eb, ec = (gen_evaluable(rng, 1, shape, dt) for _ in range(3))
    for op, OP in (('add', 'Add'), ('mul', 'Mul')):
        out += [('commutative', ['ev', op, ea, eb], ['ev', op, eb, ea]), ('commutative', ['ev', OP, ea, eb], ['ev', OP, eb, ea]), ('commutative', ['ev', op, ea, eb], ['ev', OP + 'kw', eb, ea]),
                ('commutative', ['ev', op, ec, ['ev', op, ea, eb]], ['ev', op, ['ev', op, eb, ea], ec]),
                ('commutative', ['ev', 'sum', ['ev', op, ['ev', 'ins', ea, 2], ['ev', 'ins', eb, 2]]], ['ev', 'sum', ['ev', op, ['ev', 'inskw', eb, 2], ['ev', 'ins', ea, 2]]])]
    out.append(('commutative', ['fm', [x, y, x, u]], ['fm', [u, x, x, y]]))
    eqv = ev_equivalents(ea, rng)
    if eqv:
        out.append(('kwpos', ea, eqv[0]))
    # unordered containers: insertion order
    for _ in range(3):
        v = gen_value(rng, pool, 1)
        out.append(('unordered', v, reorder_unordered(v, rng)))
    v = ['d', [[safe_value(rng, pool, 3), gen_value(rng, pool, 2)] for _ in range(4)]]
    out.append(('unordered', v, reorder_unordered(v, rng)))
    out.append(('unordered', ['fd', v[1]], ['fd', v[1][::-1]]))
    out.append(('unordered', ['F', [safe_value(rng, pool, 3) for _ in range(5)]], None))
    out[-1] = ('unordered', out[-1][1], reorder_unordered(out[-1][1], rng))
    return out


STRICT_ROUTES = ('kwpos', 'default', 'npscalar', 'arraydata-intwidth', 'commutative', 'unordered', 'pickle', 'process', 'rebuilt')


def intern_pool(rng, pool):
    """List of entries; an entry is a list of recipes (routes) of ONE interned value; different entries are different values."""
    x, y, z = safe_value(rng, pool), safe_value(rng, pool), safe_value(rng, pool)
    ents = []
    for key in ('a.Sing2', 'a.Sing2b', 'b.Sing2', 'a.Data2', 'a.Data2alt', 'b.Data2'):
        ents.append([['im', key, [x, y], []], ['im', key, [], [['y', y], ['x', x]]], ['im', key, [x], [['y', y]]]])
    ents.append([['im', 'a.Sing2', [y, x], []], ['im', 'a.Sing2', [], [['x', y], ['y', x]]]])
    ents.append([['im', 'a.Data2', [y, x], []], ['im', 'a.Data2', [], [['x', y], ['y', x]]]])
    ents.append([['im', 'a.SingD', [x], []], ['im', 'a.SingD', [x, Ri(3)], []], ['im', 'a.SingD', [], [['y', Ri(3)], ['x', x]]]])
    ents.append([['im', 'a.SingD', [x, y], []]])
    ents.append([['im', 'a.Data3', [x, y], []], ['im', 'a.Data3', [x, y, Ri(3)], []], ['im', 'a.Data3', [], [['z', Ri(3)], ['y', y], ['x', x]]]])
    ents.append([['im', 'a.Data3', [x, y, z], []]])
    ents.append([['im', 'a.SingKw', [x], [['p', y], ['q', z]]], ['im', 'a.SingKw', [], [['q', z], ['p', y], ['x', x]]]])
    ents.append([['im', 'a.Data1', [['im', 'a.Sing2', [x, y], []]], []], ['im', 'a.Data1', [], [['x', ['im', 'a.Sing2', [], [['y', y], ['x', x]]]]]]])
    routes = int_array_routes(rng)
    ents.append([['AD', r] for r in _shuffled(routes, rng)[:5]])
    ents.append([['AD', ['A', '<i8', [1, 3], [1, 2, 3], 'C']], ['AD', ['A', '<i4', [1, 3], [1, 2, 3], 'F']]])
    ents.append([['AD', ['A', '<f8', [3], [fbits(1.), fbits(2.), fbits(3.)], 'C']], ['AD', ['A', '<f4', [3], [fbits(1.), fbits(2.), fbits(3.)], 'C']]])
    i, j = int(rng.integers(0, 3)), int(rng.integers(1, 3))
    ents.append([['call', 'transform.Index', [Ri(j), Ri(i)], []], ['call', 'transform.Index', [], [['index', Ri(i)], ['ndims', Ri(j)]]]])
    ents.append([['call', 'transform.SimplexEdge', [Ri(j), Ri(i)], []], ['call', 'transform.SimplexEdge', [Ri(j), Ri(i), Rb(0)], []]])
    ents.append([['call', 'transform.SimplexEdge', [Ri(j), Ri(i), Rb(1)], []]])
    ents.append([['call', 'transformseq.IndexTransforms', [Ri(j), Ri(i + 1)], []], ['call', 'transformseq.IndexTransforms', [Ri(j), Ri(i + 1), Ri(0)], []]])
    ents.append([['call', 'points.SimplexGaussPoints', [Ri(j), Ri(i + 1)], []], ['call', 'points.SimplexGaussPoints', [], [['degree', Ri(i + 1)], ['ndims', Ri(j)]]]])
    ents.append([['call', 'element.LineReference', [], []]])
    ents.append([['call', 'element.TriangleReference', [], []]])
    shape = [[], [2], [2, 3]][int(rng.integers(3))]
    dt = ('float', 'int')[int(rng.integers(2))]
    ea, eb = gen_evaluable(rng, 1, shape, dt), gen_evaluable(rng, 1, shape, dt)
    ents.append([ea] + ev_equivalents(ea, rng))
    ents.append([['ev', 'add', ea, eb], ['ev', 'add', eb, ea], ['ev', 'Add', eb, ea], ['ev', 'Addkw', ea, eb]])
    ents.append([['ev', 'mul', ea, eb], ['ev', 'mul', eb, ea], ['ev', 'Mulkw', eb, ea]])
    from vlib import c17_nutils
    names = c17_nutils.names()
    for _ in range(3):
        n = names[int(rng.integers(len(names)))]
        ents.append([['nu', n], ['nuf', n]] if '.' in n and n.split('.', 1)[0] in c17_nutils._mesh_makers() else [['nu', n]])
    return ents


# only python bool/int/float look-alikes (the ledger predicate is deliberately this tight; complex, numpy, enum and int-subclass
# arguments are conflated by the same mechanism but are left out of the sweep)
CONFLATION_PAIRS = [(Ri(1), Rb(1)), (Ri(1), Rf(1.)), (Rf(0.), Rf(-0.)), (Ri(0), Rb(0)), (Ri(0), Rf(0.)), (Ri(0), Rf(-0.)), (Rb(1), Rf(1.)), (Ri(2), Rf(2.)), (Ri(-3), Rf(-3.)),
                    (['t', [Ri(1)]], ['t', [Rf(1.)]]), (['t', [Ri(0), Rs('a')]], ['t', [Rb(0), Rs('a')]]), (['t', [['t', [Rf(0.)]], Ri(7)]], ['t', [['t', [Rf(-0.)]], Ri(7)]])]


def conflation_case(rng):
    """(recipe1, recipe2): the same interned class constructed from arguments that are ==-equal but are different values."""
    a, b = CONFLATION_PAIRS[int(rng.integers(len(CONFLATION_PAIRS)))]
    if rng.random() < .5:
        a, b = b, a
    other = Ri(int(rng.integers(2, 50)))
    c = int(rng.integers(6))
    if c == 0:
        return ['im', 'a.Sing2', [a, other], []], ['im', 'a.Sing2', [b, other], []]
    if c == 1:
        return ['im', 'a.Data1', [a], []], ['im', 'a.Data1', [b], []]
    if c == 2:
        return ['im', 'a.Data2', [other, a], []], ['im', 'a.Data2', [], [['y', b], ['x', other]]]
    if c == 3:
        return ['im', 'a.SingD', [a], []], ['im', 'a.SingD', [b, Ri(3)], []]
    if c == 4:
        return ['im', 'a.SingKw', [other], [['k', a]]], ['im', 'a.SingKw', [other], [['k', b]]]
    return ['im', 'a.Data1', [['t', [a, other]]], []], ['im', 'a.Data1', [['t', [b, other]]], []]
