"""C18 instruments: canonical forms, log collector, outcome observation, the
cache-file fault injector (pickle proxy that dies mid-dump), fork helpers and an
address-space guard (a torn pickle can ask the unpickler for a multi-GB memo).

Nothing here reads or models nutils' source: every verdict compares an
execution with caching enabled against an execution of the same callable with
caching disabled.
"""

import os, sys, json, time, hashlib, pickle, signal, select, traceback, types as pytypes, resource
import numpy

CAUGHT_BY_DESIGN = ('EOFError', 'UnpicklingError', 'IndexError')   # what cache.py announces to survive (observed, used for classification only)


# ---------------------------------------------------------------- canonical form

def _h(b):
    return hashlib.sha1(b).hexdigest()[:16]


def canon(v, _memo=None, _depth=0):
    """JSON-able canonical form understanding numpy arrays, nested containers and
    nutils objects.  Equal values <=> equal canonical forms (identity / sharing of
    sub-objects is deliberately ignored)."""
    if _memo is None:
        _memo = {}
    if _depth > 40:
        return ['deep']
    t = type(v)
    if v is None or t is bool or t is int or t is str:
        return [t.__name__, v if t is not int or abs(v) < 2**53 else str(v)]
    if t is float:
        return ['float', v.hex() if v == v else 'nan']
    if t is complex:
        return ['complex', canon(v.real), canon(v.imag)]
    if t in (bytes, bytearray):
        return [t.__name__, len(v), _h(bytes(v))]
    if isinstance(v, numpy.ndarray):
        a = numpy.ascontiguousarray(v)
        if a.dtype.kind == 'O':
            return ['ndarray-object', list(a.shape), [canon(x, _memo, _depth + 1) for x in a.ravel()]]
        return ['ndarray', a.dtype.str, list(v.shape), _h(a.tobytes())]
    if isinstance(v, numpy.generic):
        return ['npscalar', v.dtype.str, _h(v.tobytes())]
    if t in (list, tuple):
        return [t.__name__, [canon(x, _memo, _depth + 1) for x in v]]
    if t is dict:
        items = [[canon(k, _memo, _depth + 1), canon(x, _memo, _depth + 1)] for k, x in v.items()]
        return ['dict', sorted(items, key=lambda kv: json.dumps(kv[0], sort_keys=True))]
    if t in (set, frozenset):
        return [t.__name__, sorted((canon(x, _memo, _depth + 1) for x in v), key=lambda c: json.dumps(c, sort_keys=True))]
    if isinstance(v, (pytypes.FunctionType, pytypes.BuiltinFunctionType, type)):
        return ['global', getattr(v, '__module__', '?'), getattr(v, '__qualname__', repr(v))]
    if isinstance(v, pytypes.MethodType):
        return ['method', canon(v.__self__, _memo, _depth + 1), v.__name__]
    if isinstance(v, BaseException):
        return ['exception', t.__name__, canon(v.args, _memo, _depth + 1)]
    try:
        h = getattr(v, '__nutils_hash__', None)
    except Exception:
        h = None
    if isinstance(h, bytes):
        return ['nutils', t.__module__ + '.' + t.__qualname__, h.hex()]
    if t.__module__.startswith('nutils.matrix'):
        data, colidx, rowptr = v.export('csr')
        return ['matrix', t.__qualname__, list(v.shape), canon(data), canon(numpy.asarray(colidx, dtype='int64')), canon(numpy.asarray(rowptr, dtype='int64'))]
    if isinstance(v, __import__('enum').Enum):
        return ['enum', t.__qualname__, v.name]
    if id(v) in _memo:      # shared sub-object: same form again (sharing is not part of the value); None = cycle
        return _memo[id(v)][1] if _memo[id(v)][1] is not None else ['cycle']
    _memo[id(v)] = (v, None)
    out = _canon_object(v, t, _memo, _depth)
    _memo[id(v)] = (v, out)
    return out


def _canon_object(v, t, _memo, _depth):
    # generic: structural form of what pickle itself would store
    red = v.__reduce_ex__(4)
    if isinstance(red, str):
        return ['global', t.__module__, red]
    out = ['object', t.__module__ + '.' + t.__qualname__, canon(red[0], _memo, _depth + 1), canon(tuple(red[1]), _memo, _depth + 1)]
    if len(red) > 2 and red[2] is not None:
        out.append(canon(_without_declared_caches(t, red[2]), _memo, _depth + 1))
    if len(red) > 3 and red[3] is not None:
        out.append(['listitems', [canon(x, _memo, _depth + 1) for x in red[3]]])
    if len(red) > 4 and red[4] is not None:
        out.append(['dictitems', [[canon(k, _memo, _depth + 1), canon(x, _memo, _depth + 1)] for k, x in red[4]]])
    return out


_MEMO_NAME = __import__('re').compile(r'^_[A-Za-z0-9]+(_[A-Za-z0-9]+)*__cached_\w+$')


def is_declared_cache(t, name):
    """True for instance-state entries that the CLASS declares to be a lazily filled cache of a value derived from the
    rest of the state: functools.cached_property descriptors (they store their result in __dict__[name]) and
    name-mangled private '__cached_*' memos (nutils.function's `_ArrayMeta__cached_lower`, set by the first lower()).
    Whether such an entry is present depends on what the process did with the object before, not on the value: the
    default pickle state carries it along, an object freshly built by another process lacks it."""
    if not isinstance(name, str):
        return False
    if _MEMO_NAME.match(name):
        return True
    import inspect, functools
    try:
        return isinstance(inspect.getattr_static(t, name), functools.cached_property)
    except AttributeError:
        return False


def _without_declared_caches(t, state):
    if isinstance(state, dict):
        return {k: x for k, x in state.items() if not is_declared_cache(t, k)}
    if isinstance(state, tuple) and len(state) == 2 and all(x is None or isinstance(x, dict) for x in state):     # (dict, slots) form
        return tuple(x if x is None else {k: y for k, y in x.items() if not is_declared_cache(t, k)} for x in state)
    return state


def canon_key(c):
    return _h(json.dumps(c, sort_keys=True).encode())


# ---------------------------------------------------------------- log collector

class ListLog:
    """treelog-protocol log that keeps the message sequence: (context path, level, message)."""

    def __init__(self):
        self.stack = []
        self.events = []

    def pushcontext(self, title):
        self.stack.append(str(title))

    def popcontext(self):
        if self.stack:
            self.stack.pop()

    def recontext(self, title):
        if self.stack:
            self.stack[-1] = str(title)
        else:
            self.stack.append(str(title))

    def write(self, msg, level):
        if isinstance(msg, str):
            m = msg
        else:   # treelog.Data
            m = 'DATA:{}:{}:{}'.format(getattr(msg, 'name', '?'), getattr(msg, 'type', None), _h(bytes(getattr(msg, 'data', b''))))
        self.events.append(['/'.join(self.stack), getattr(level, 'name', str(level)), m])


def user_messages(events):
    """drop the cache module's own debug chatter; everything else is the memoised callable's output"""
    return [e for e in events if not (e[1] == 'debug' and e[2].startswith('[cache.'))]


def cache_chatter(events):
    return [e[2].split('] ', 1)[-1] for e in events if e[1] == 'debug' and e[2].startswith('[cache.')]


# ---------------------------------------------------------------- observing one call

class Outcome:
    __slots__ = 'kind', 'value', 'exc', 'logs', 'executed', 'chatter', 'raw', 'tb'

    def brief(self):
        if self.kind == 'value':
            return 'value#' + canon_key(self.value)
        return f'raised {self.exc}'

    def to_json(self):
        return dict(kind=self.kind, value=self.value, exc=self.exc, logs=self.logs, executed=self.executed, chatter=self.chatter, tb=self.tb)

    @staticmethod
    def from_json(d):
        o = Outcome()
        o.kind, o.value, o.exc, o.logs, o.executed, o.chatter, o.tb = d['kind'], d['value'], d['exc'], d['logs'], d['executed'], d.get('chatter', []), d.get('tb')
        o.raw = None
        return o


def observe(call, counter, keep_raw=False):
    """Run call() under a collecting log.  counter() -> number of executions of the
    wrapped callable so far (process local)."""
    import treelog
    L = ListLog()
    n0 = counter()
    o = Outcome()
    o.raw = None
    o.tb = None
    with treelog.set(L):
        try:
            v = call()
        except Exception as e:
            o.kind, o.value, o.exc = 'raise', canon(e.args) if _safe(e) else None, type(e).__name__
            o.tb = traceback.format_exc()[-1200:]
        else:
            o.kind, o.exc = 'value', None
            o.value = canon(v)
            if keep_raw:
                o.raw = v
    o.executed = counter() - n0
    o.logs = user_messages(L.events)
    o.chatter = cache_chatter(L.events)
    return o


def _safe(e):
    try:
        canon(e.args)
        return True
    except Exception:
        return False


def _last(tb):
    lines = [l for l in (tb or '').strip().splitlines() if l.strip()]
    where = [l.strip() for l in lines if l.strip().startswith('File ')][-1:] or ['']
    return (lines[-1] if lines else '') + ' @ ' + where[0]


def compare(obs, model, what):
    """-> list of problem strings (empty = transparent)."""
    probs = []
    if obs.kind != model.kind:
        probs.append(f'{what}: {obs.brief()} but uncached call {model.brief()}' + ((' | ' + _last(obs.tb)) if obs.tb else ''))
        return probs
    if obs.kind == 'raise':
        if obs.exc != model.exc:
            probs.append(f'{what}: raised {obs.exc}, uncached call raised {model.exc} | {_last(obs.tb)}')
    elif obs.value != model.value:
        probs.append(f'{what}: value {json.dumps(obs.value)[:300]} != uncached value {json.dumps(model.value)[:300]}')
    if obs.logs != model.logs:
        probs.append(f'{what}: log sequence differs: {len(obs.logs)} messages {obs.logs[:4]} vs uncached {len(model.logs)} messages {model.logs[:4]}')
    return probs


# ---------------------------------------------------------------- fault injector: die in the middle of pickle.dump

class KillingPickle:
    """Stand-in for the name ``pickle`` inside nutils.cache (attached by rebinding the
    module attribute in a CHILD process only).  ``dump`` serialises with the real
    pickler, writes the first k bytes with a single os.write at the position where
    the real dump would have started, and dies without unwinding (os._exit(137) or
    SIGKILL); all other attributes are the real module's."""

    def __init__(self, k, how='exit', match=None, frac=None):
        self.k, self.how, self.match, self.frac = k, how, match, frac
        self.dumps_seen = 0

    def __getattr__(self, name):
        return getattr(pickle, name)

    def dump(self, obj, f, *args, **kwargs):
        self.dumps_seen += 1
        if self.match is not None and os.path.basename(getattr(f, 'name', '')) != self.match:
            return pickle.dump(obj, f, *args, **kwargs)
        data = pickle.dumps(obj, *args, **kwargs)
        k = self.k if self.frac is None else int(self.frac * len(data))
        k = max(0, min(k, len(data)))
        f.flush()
        pos = f.tell()
        fd = f.fileno()
        os.lseek(fd, pos, os.SEEK_SET)
        if k:
            os.write(fd, data[:k])
        if self.how == 'sigkill':
            os.kill(os.getpid(), signal.SIGKILL)
            time.sleep(5)
        os._exit(137)


def install_killer(k, how='exit', match=None, frac=None):
    from nutils import cache
    cache.pickle = KillingPickle(k, how, match, frac)


# ---------------------------------------------------------------- fork helpers (real processes, real deaths)

def fork_call(fn, timeout=30.):
    """Run fn() in a forked child.  -> (status, result) with status 'exit:N' | 'signal:N' | 'timeout';
    result is the JSON-able return value of fn (None if the child died before reporting)."""
    r, w = os.pipe()
    sys.stdout.flush()
    sys.stderr.flush()
    pid = os.fork()
    if pid == 0:
        code = 99
        try:
            os.close(r)
            out = fn()
            data = json.dumps(out, default=str).encode()
            with os.fdopen(w, 'wb') as f:
                f.write(data)
            code = 0
        except BaseException:
            try:
                sys.stderr.write(traceback.format_exc())
                sys.stderr.flush()
            except Exception:
                pass
        finally:
            os._exit(code)
    os.close(w)
    return _collect(pid, r, timeout)


def _collect(pid, r, timeout):
    chunks = []
    deadline = time.time() + timeout
    timed_out = False
    while True:
        left = deadline - time.time()
        if left <= 0:
            timed_out = True
            break
        ready, _, _ = select.select([r], [], [], left)
        if not ready:
            timed_out = True
            break
        b = os.read(r, 1 << 16)
        if not b:
            break
        chunks.append(b)
    os.close(r)
    if timed_out:
        try:
            os.kill(pid, signal.SIGKILL)
        except ProcessLookupError:
            pass
        os.waitpid(pid, 0)
        return 'timeout', None
    _, st = os.waitpid(pid, 0)
    status = f'signal:{os.WTERMSIG(st)}' if os.WIFSIGNALED(st) else f'exit:{os.WEXITSTATUS(st)}'
    data = b''.join(chunks)
    try:
        return status, json.loads(data) if data else None
    except ValueError:
        return status, None


# ---------------------------------------------------------------- address-space guard

_guard = {'set': False}


def guard_address_space(extra_mb=768):
    """A torn entry can contain a LONG_BINPUT / huge length; the unpickler then tries to
    allocate gigabytes.  Cap the address space of THIS worker so that such a request
    fails with MemoryError instead of eating the shared machine."""
    if _guard['set']:
        return
    _guard['set'] = True
    try:
        with open('/proc/self/status') as f:
            vm = int(f.read().split('VmSize:')[1].split()[0]) * 1024
        soft, hard = resource.getrlimit(resource.RLIMIT_AS)
        lim = vm + (extra_mb << 20)
        if hard != resource.RLIM_INFINITY:
            lim = min(lim, hard)
        resource.setrlimit(resource.RLIMIT_AS, (lim, hard))
    except Exception:
        pass


def independent_load(content):
    """What does the standard unpickler make of these bytes?  -> ('loads', structure) | (exception type name, message)"""
    try:
        data = pickle.loads(content)
    except Exception as e:
        return type(e).__name__, str(e)[:120]
    try:
        n = len(data)
    except Exception:
        return 'loads', 'no-len'
    return 'loads', f'len{n}'


def write_file(path, content):
    fd = os.open(path, os.O_WRONLY | os.O_CREAT | os.O_TRUNC, 0o644)
    try:
        if content:
            os.write(fd, content)
    finally:
        os.close(fd)


def read_file(path):
    with open(path, 'rb') as f:
        return f.read()
