"""G-topo: topology operation-sequence ("history") generator shared by C08-C12, C16.

A *history* is a JSON-serialisable dict::

    {'version': 1, 'ndims': d,
     'mesh': {'kind': 'line'|'rect'|'tensor'|'unitsquare'|'simplex'|'multipatch', ...},
     'geom': {'kind': 'identity'|'affine'|'quad', ...},        # map applied to the mesh's own geometry
     'ops':  [{'op': 'refine'|'refined_by'|'take'|'slice'|'group'|'subset'|'minus'|'union'|'inter'|
                     'hinter'|'mul'|'trim'|'boundary'|'interfaces', ...}, ...]}

Public API
----------
``gen_history(rng, tier, ndims=None, mesh_kinds=None, ops=None, maxops=None) -> dict``  (of the unrestricted draws 8 % are
    ``gen_periodic_slice_history`` scenarios: periodic mesh, slice along the periodic axis, refinement at the cut; 12 % are
    ``gen_mismatch_trim_history`` scenarios: small mesh trimmed by a per-element (discontinuous) or partially vanishing level set so that
    neighbours keep different parts of their shared face; key ``scenario``)
    Draw a random history from a ``numpy.random.Generator``.  ``tier`` is ``'quick'`` or
    ``'thorough'`` (thorough: larger meshes, longer histories, maxrefine up to 3 in 2-D).
    ``ndims`` fixes the mesh dimension (1, 2 or 3; default: random 1-2, callers sample 3-D
    sparsely because it is slow), ``mesh_kinds`` / ``ops`` restrict the kinds drawn from.
    No nutils object is touched: element subsets are stored as ``{'frac', 'seed'}`` and
    expanded deterministically against the actual number of elements by ``build``, so that a
    history stays valid when operations are dropped from it (shrinking).

``build(history, maxelems=600) -> (topology, geometry, steps)``
    Apply the history to real nutils objects.  ``steps`` is a list of :class:`Step`, one for
    the base mesh (``steps[0]``, ``op == {'op': 'mesh'}``) and one per operation, in order:

    ``step.op``      the operation spec (dict)
    ``step.status``  ``'applied'`` | ``'rejected'`` (nutils refused: NotImplementedError, ValueError,
                     KeyError for a missing group, TypeError "supports only ..." -- never a violation,
                     never applied) | ``'error'`` (nutils raised something else while applying the
                     operation; not applied; the caller decides what that means) | ``'skipped'``
                     (generator-side guard: too many elements, empty selection, not applicable)
    ``step.reason``  exception signature / guard reason for non-applied steps
    ``step.prev``    topology before the operation,  ``step.topo`` topology after it (``prev`` when
                     the operation was not applied)
    ``step.geom`` / ``step.geom0``  mapped geometry / the mesh's own ("root") geometry valid for
                     ``step.topo`` (they only change at a ``mul`` operation, which appends a coordinate)
    ``step.info``    operation specific objects, e.g. ``indices`` (refined_by/take/subset/minus),
                     ``a``, ``b``, ``ia``, ``ib`` (union/inter/hinter operands and their index sets),
                     ``base``, ``pos``, ``levelset``, ``name``, ``maxrefine``, ``ndivisions``, ``side`` (trim),
                     ``slices`` (slice), ``other`` (mul)
    The first two return values are the topology and geometry of the last step.

``make_mesh(spec) -> (topology, geom0)``, ``make_geometry(spec, geom0) -> geom``,
``make_levelset(spec, geom0, root=None) -> function.Array`` (``root``: base-mesh topology, needed by 'piecewise' level sets), ``select(n, sel) -> sorted int array``,
``is_refusal(exc) -> bool``, ``signature(exc) -> str``, ``quiet()`` (context manager silencing
treelog), ``history_hash(history)``, ``history_kinds(history)``, ``cut_elements(topo)``,
``gauss_degree(history)`` (degree that integrates J, n J and x.n J exactly for this geometry).

Notes for re-users (facts about the pinned nutils tree that shaped the generator)
* periodic axes are generated with >= 3 elements: with 1 element a trimmed/subset topology omits the periodic self-interface, with 2
  elements ``SubsetTopology.interfaces`` raises "repeating an element is not allowed";
* 1-D ``mesh.simplex`` meshes are not generated (``SimplexTopology.boundary`` asserts "duplicate nodes" for 0-D simplices);
* a trim with ``maxrefine=0`` leaves ``MosaicReference`` elements that cannot be refined (``refine``/``refined_by``/``trim(maxrefine>0)``
  then raise AttributeError 'MosaicReference' object has no attribute 'child_refs': ``status == 'error'``);
* plain ``TransformChainsTopology`` / ``UnionTopology`` / ``HierarchicalTopology`` have no ``connectivity``: ``.boundary`` of a ``take``
  result raises AttributeError; use ``subset`` / ``minus`` / ``slice`` / ``group`` to keep a boundary;
* ``_Mul`` (``mul`` op, ``tensor`` meshes) has no ``transforms``; it supports refine/boundary/interfaces/take/slice only;
* quadratic geometry maps are never combined with periodic or multipatch meshes; ``gauss_degree(history)`` is exact for J, n J, x.n J, x J;
* ``product`` level sets never pass exactly through mesh vertices (degenerate: zero on a whole element edge while changing sign inside).

Level sets are functions of the *root* geometry ``geom0`` (piecewise affine: integer grid for
line/rect/tensor, [0,1]^2 with vertices k/n for unitsquare, perturbed Kuhn triangulation of [0,n]^d
for simplex, patch vertices for multipatch) so that "through a vertex / along a grid line / nearly
tangent / missing the mesh" can be arranged from the spec alone.
"""

import contextlib, hashlib, itertools, json, re
import numpy

VERSION = 1
OP_KINDS = ('refine', 'refined_by', 'take', 'slice', 'group', 'subset', 'minus', 'union', 'inter', 'hinter', 'mul', 'trim',
            'boundary', 'interfaces')
MESH_KINDS = ('line', 'rect', 'tensor', 'unitsquare', 'simplex', 'multipatch')
MAXELEMS = 600


# ------------------------------------------------------------------ helpers

@contextlib.contextmanager
def quiet():
    import treelog
    with treelog.set(treelog.NullLog()):
        yield


def _f(x):
    return float(x)


def _fl(a):
    return numpy.asarray(a, dtype=float).tolist()


def signature(exc):
    """Exception signature with numbers and addresses stripped (for counting distinct refusals)."""
    msg = re.sub(r'0x[0-9a-f]+', '0x', str(exc))
    msg = re.sub(r'[-+]?\d+\.?\d*(e[-+]?\d+)?', '#', msg)
    return f'{type(exc).__name__}: {msg[:90]}'


def is_refusal(exc):
    """Documented refusals: counted, never violations, never applied."""
    if isinstance(exc, NotImplementedError):
        return True
    if isinstance(exc, (ValueError, KeyError)):
        return True
    if isinstance(exc, TypeError) and ('supports only' in str(exc) or 'unsupported operand type' in str(exc)):
        return True  # python's spelling of a binary operator returning NotImplemented
    try:
        from unittest import SkipTest
        if isinstance(exc, SkipTest):
            return True
    except Exception:
        pass
    return False


def history_hash(history):
    return hashlib.sha1(json.dumps(history, sort_keys=True).encode()).hexdigest()[:16]


def history_kinds(history):
    return [op['op'] for op in history['ops']]


def select(n, sel, pool=None):
    """Deterministic element subset of range(n) (or of ``pool``) from {'frac', 'seed'}: never empty for n > 0."""
    pool = numpy.arange(n) if pool is None else numpy.asarray(pool, dtype=int)
    if len(pool) == 0:
        return pool
    rng = numpy.random.default_rng(int(sel['seed']))
    mask = rng.random(len(pool)) < float(sel['frac'])
    if not mask.any():
        mask[int(rng.integers(len(pool)))] = True
    if sel.get('proper') and mask.all() and len(pool) > 1:
        mask[int(rng.integers(len(pool)))] = False
    return numpy.sort(pool[mask])


def cut_elements(topo):
    """Indices of elements whose reference is not a plain simplex/tensor reference (trimmed elements)."""
    from nutils import element
    try:
        refs = topo.references
    except Exception:
        return numpy.zeros(0, dtype=int)
    return numpy.array([i for i, r in enumerate(refs) if isinstance(r, (element.MosaicReference, element.WithChildrenReference))], dtype=int)


def gauss_degree(history):
    g = history['geom']['kind']
    mp = history['mesh']['kind'] == 'multipatch' or (history['mesh']['kind'] == 'unitsquare' and history['mesh']['etype'] == 'multipatch')
    # element-affine root geometry: J, n J, x.n J, x J have total degree <= 1 (affine map) / <= 4 (quadratic map) also on the
    # sub-simplices of trimmed elements; bilinear multipatch geometry (never combined with the quadratic map): <= 4
    return 4 if (g == 'quad' or mp) else 2


# ------------------------------------------------------------------ meshes

def kuhn(n, nd, seed, amp):
    """Conforming simplex mesh of [0,n]^nd (Kuhn subdivision of every cube), interior vertices perturbed."""
    idx = numpy.arange((n + 1)**nd).reshape((n + 1,) * nd)
    coords = numpy.stack(numpy.meshgrid(*[numpy.arange(n + 1.)] * nd, indexing='ij'), -1).reshape(-1, nd)
    simplices = []
    for cell in itertools.product(range(n), repeat=nd):
        for perm in itertools.permutations(range(nd)):
            v = numpy.array(cell)
            s = [idx[tuple(v)]]
            for k in perm:
                v = v.copy()
                v[k] += 1
                s.append(idx[tuple(v)])
            simplices.append(sorted(int(i) for i in s))
    simplices = numpy.array(sorted(simplices))
    interior = ((coords > 0) & (coords < n)).all(1)
    rng = numpy.random.default_rng(int(seed))
    coords = coords + amp * interior[:, None] * rng.uniform(-1, 1, coords.shape)
    return simplices, coords


MULTIPATCH_LIB = {
    # 2-D, bilinear (non-affine) patches
    'L': dict(patches=[[0, 1, 3, 4], [1, 2, 4, 5], [3, 4, 6, 7]],
              patchverts=[[0, 0], [0, 1], [0, 2], [1, 0], [1, 1], [1, 2], [2, 0], [2, 1]]),
    'two': dict(patches=[[0, 1, 2, 3], [2, 3, 4, 5]],
                patchverts=[[0, 0], [0, 1], [1, 0], [1.2, 1.1], [2.5, .2], [2, 1.4]]),
    'three': dict(patches=[[0, 1, 2, 3], [2, 3, 4, 5], [4, 5, 6, 7]],
                  patchverts=[[0, 0], [0, 1], [1, -.2], [1, 1.2], [2, 0], [2, 1], [3, .3], [3.2, 1]]),
    # 3-D: two cubes
    'two3': dict(patches=[[0, 1, 2, 3, 4, 5, 6, 7], [4, 5, 6, 7, 8, 9, 10, 11]],
                 patchverts=[list(map(float, v)) for v in itertools.product([0, 1, 2], [0, 1], [0, 1])]),
}


def make_mesh(spec):
    """Build the base mesh: returns (topology, geom0) with geom0 a vector-valued function.Array."""
    from nutils import mesh
    kind = spec['kind']
    if kind == 'line':
        nodes = spec['nodes'] if spec.get('nodes') else int(spec['n'])
        topo, x = mesh.line(nodes, periodic=bool(spec.get('periodic')), bnames=('left', 'right'))
        return topo, numpy.stack([x])
    if kind == 'rect':
        shape = [v if isinstance(v, int) else numpy.array(v, dtype=float) for v in spec['shape']]
        return mesh.rectilinear(shape, periodic=tuple(spec.get('periodic', ())))
    if kind == 'tensor':
        nodes = [v if isinstance(v, int) else [float(x) for x in v] for v in spec['shape']]
        return mesh.newrectilinear(nodes, periodic=list(spec.get('periodic', ())))
    if kind == 'unitsquare':
        return mesh.unitsquare(int(spec['n']), spec['etype'])
    if kind == 'simplex':
        simplices, coords = kuhn(int(spec['n']), int(spec['ndims']), spec['seed'], float(spec['amp']))
        half = len(simplices) // 2
        tags = {'a': numpy.arange(half), 'b': numpy.arange(half, len(simplices))}
        return mesh.simplex(simplices, simplices, coords, tags, {}, {})
    if kind == 'multipatch':
        lib = MULTIPATCH_LIB[spec['name']]
        return mesh.multipatch(patches=lib['patches'], patchverts=lib['patchverts'], nelems=int(spec['n']))
    raise ValueError(f'unknown mesh kind {kind!r}')


def mesh_ticks(spec):
    """Per-axis sorted vertex coordinates of the root geometry (used to aim level sets)."""
    kind = spec['kind']
    if kind == 'line':
        return [list(map(float, spec['nodes'])) if spec.get('nodes') else [float(i) for i in range(int(spec['n']) + 1)]]
    if kind in ('rect', 'tensor'):
        return [[float(i) for i in range(v + 1)] if isinstance(v, int) else list(map(float, v)) for v in spec['shape']]
    if kind == 'unitsquare':
        n = int(spec['n']) * (3 if spec['etype'] == 'multipatch' else 1)
        return [[i / n for i in range(n + 1)]] * 2
    if kind == 'simplex':
        return [[float(i) for i in range(int(spec['n']) + 1)]] * int(spec['ndims'])
    if kind == 'multipatch':
        verts = numpy.array(MULTIPATCH_LIB[spec['name']]['patchverts'], dtype=float)
        n = int(spec['n'])
        return [sorted(set(numpy.linspace(verts[:, k].min(), verts[:, k].max(), 2 * n + 1).tolist())) for k in range(verts.shape[1])]
    raise ValueError(kind)


def gen_mesh(rng, ndims, tier, kinds=None):
    big = tier == 'thorough'
    if ndims == 1:
        pool = [('line', 3.), ('rect', 1.)]
    elif ndims == 2:
        pool = [('rect', 3.), ('unitsquare', 4.), ('simplex', 1.5), ('multipatch', 1.), ('tensor', .7)]
    else:
        pool = [('rect', 3.), ('simplex', 1.5), ('multipatch', .6), ('tensor', .6)]
    if kinds:
        pool = [(k, w) for k, w in pool if k in kinds] or pool
    names, w = zip(*pool)
    kind = str(rng.choice(names, p=numpy.array(w) / sum(w)))

    def axis(nmax, nmin=1):
        n = int(rng.integers(nmin, nmax + 1))
        if rng.random() < .25:
            steps = rng.choice([.5, 1., 1.5, 2.], size=n)
            return [0.] + numpy.cumsum(steps).tolist()
        return n

    def alen(v):
        return v if isinstance(v, int) else len(v) - 1

    if kind == 'line':
        v = axis(7 if big else 6, 2)
        spec = dict(kind='line', ndims=1, periodic=bool(rng.random() < .2 and alen(v) >= 3))
        if isinstance(v, int):
            spec['n'] = v
        else:
            spec['nodes'] = v
            spec['n'] = alen(v)
        return spec
    if kind in ('rect', 'tensor'):
        nmax = {1: 6, 2: 4 if big else 3, 3: 2}[ndims]
        shape = [axis(nmax, 2 if ndims == 1 else 1) for _ in range(ndims)]
        if ndims == 3 and all(alen(v) == 2 for v in shape):
            shape[int(rng.integers(3))] = 1
        if kind == 'tensor' and ndims == 1:
            kind = 'rect'
        periodic = [k for k in range(ndims) if alen(shape[k]) >= 3 and rng.random() < .2]
        return dict(kind=kind, ndims=ndims, shape=shape, periodic=periodic)
    if kind == 'unitsquare':
        etype = str(rng.choice(['square', 'triangle', 'mixed', 'multipatch'], p=[.2, .35, .3, .15]))
        n = int(rng.integers(1, 3)) if etype == 'multipatch' else int(rng.integers(2, 5 if big else 4))
        return dict(kind='unitsquare', ndims=2, etype=etype, n=n)
    if kind == 'simplex':
        n = int(rng.integers(1, 4)) if ndims == 2 else int(rng.integers(1, 3 if big else 2)) if ndims == 3 else 3
        if ndims == 3 and not big and rng.random() < .3:
            n = 2
        return dict(kind='simplex', ndims=ndims, n=n, seed=int(rng.integers(2**31)), amp=_f(rng.choice([0., .1, .25])))
    if kind == 'multipatch':
        name = 'two3' if ndims == 3 else str(rng.choice(['L', 'two', 'three']))
        return dict(kind='multipatch', ndims=ndims, name=name, n=1 if ndims == 3 else int(rng.integers(1, 3)))
    raise ValueError(kind)


def mesh_label(spec):
    k = spec['kind']
    if k == 'unitsquare':
        return 'unitsquare-' + spec['etype']
    if k in ('rect', 'tensor', 'line') and spec.get('periodic'):
        return k + '-periodic'
    return k


def mesh_size(spec):
    k = spec['kind']
    if k == 'line':
        return int(spec['n'])
    if k in ('rect', 'tensor'):
        return int(numpy.prod([v if isinstance(v, int) else len(v) - 1 for v in spec['shape']]))
    if k == 'unitsquare':
        n = spec['n']
        nsq = sum(1 for i in range(n) for j in range(n) if i % 2 == j % 3)   # squares of the 'mixed' mesh replace two triangles each
        return {'square': n * n, 'triangle': 2 * n * n, 'mixed': 2 * n * n - nsq, 'multipatch': 5 * n * n}[spec['etype']]
    if k == 'simplex':
        d = spec['ndims']
        return spec['n']**d * {1: 1, 2: 2, 3: 6}[d]
    if k == 'multipatch':
        return len(MULTIPATCH_LIB[spec['name']]['patches']) * spec['n']**spec['ndims']
    return 10


# ------------------------------------------------------------------ geometry maps

def gen_geometry(rng, ndims, tier):
    r = rng.random()
    if r < .15:
        return dict(kind='identity')
    for _ in range(50):
        A = rng.normal(size=(ndims, ndims)) + numpy.eye(ndims) * rng.choice([-1.5, 1.5, 2.])
        det = numpy.linalg.det(A)
        if .3 < abs(det) < 6 and numpy.linalg.cond(A) < 12:
            break
    else:
        A = numpy.eye(ndims)
    b = rng.uniform(-2, 2, ndims)
    if r < .9 or ndims == 3:
        return dict(kind='affine', A=_fl(A), b=_fl(b))
    Q = rng.uniform(-1, 1, (ndims, ndims, ndims))
    return dict(kind='quad', A=_fl(A), b=_fl(b), eps=_f(rng.choice([.004, .01])), Q=_fl(Q))


def make_geometry(spec, geom0):
    """x = A (g + eps * g.Q.g) + b for the first len(A) coordinates of geom0; further coordinates are kept."""
    kind = spec['kind']
    if kind == 'identity':
        return geom0
    A = numpy.array(spec['A'], dtype=float)
    b = numpy.array(spec['b'], dtype=float)
    d = len(A)
    g = geom0[:d] if geom0.shape[0] > d else geom0
    if kind == 'quad':
        Q = numpy.array(spec['Q'], dtype=float)
        g = g + float(spec['eps']) * numpy.einsum('kij,i,j->k', Q, g, g)
    x = A @ g + b
    if geom0.shape[0] > d:
        x = numpy.concatenate([x, geom0[d:]])
    return x


# ------------------------------------------------------------------ level sets

def gen_levelset(rng, ticks):
    """Random plane / sphere / polynomial level set aimed at the mesh described by per-axis ``ticks``."""
    d = len(ticks)
    lo = numpy.array([t[0] for t in ticks])
    hi = numpy.array([t[-1] for t in ticks])
    size = hi - lo

    def special_coord(k):
        t = ticks[k]
        how = rng.choice(['vertex', 'mid', 'near', 'near2', 'quarter', 'generic'], p=[.22, .13, .1, .1, .1, .35])
        i = int(rng.integers(len(t)))
        if how == 'vertex':
            return t[i], 'through-vertex'
        if how == 'near':
            return t[i] + float(rng.choice([-1, 1])) * 1e-9, 'near-vertex'
        if how == 'near2':
            return t[i] + float(rng.choice([-1, 1])) * float(rng.choice([1e-5, 2e-3])), 'near-vertex'
        j = min(i + 1, len(t) - 1)
        if how == 'mid':
            return .5 * (t[i] + t[j]), 'through-subvertex'
        if how == 'quarter':
            return t[i] + .25 * (t[j] - t[i]), 'through-subvertex'
        return float(rng.uniform(lo[k] - .05 * size[k], hi[k] + .05 * size[k])), 'generic'

    def plane(allow_special=True):
        r = rng.random()
        if r < .4 or d == 1:
            k = int(rng.integers(d))
            c, tag = special_coord(k) if allow_special else (float(rng.uniform(lo[k], hi[k])), 'generic')
            n = numpy.zeros(d)
            n[k] = float(rng.choice([-1., 1.]))
            return dict(kind='plane', normal=_fl(n), offset=_f(n[k] * c)), 'axis-' + tag
        if r < .6 and allow_special:
            # diagonal through vertices
            n = numpy.zeros(d)
            ks = rng.choice(d, size=2, replace=False)
            n[ks[0]], n[ks[1]] = 1., float(rng.choice([-1., 1., .5, -2.]))
            v = numpy.array([t[int(rng.integers(len(t)))] for t in ticks])
            return dict(kind='plane', normal=_fl(n), offset=_f(n @ v)), 'diagonal-through-vertex'
        n = rng.normal(size=d)
        n /= numpy.linalg.norm(n)
        if r < .72 and allow_special:
            v = numpy.array([t[int(rng.integers(len(t)))] for t in ticks])
            return dict(kind='plane', normal=_fl(n), offset=_f(n @ v)), 'oblique-through-vertex'
        p = rng.uniform(lo, hi)
        return dict(kind='plane', normal=_fl(n), offset=_f(n @ p)), 'oblique-generic'

    r = rng.random()
    if r < .07:
        # misses the mesh entirely (all positive / all negative)
        n = numpy.zeros(d)
        n[int(rng.integers(d))] = 1.
        off = float(n @ lo - 1.) if rng.random() < .5 else float(n @ hi + 1.)
        s = float(rng.choice([-1., 1.]))
        return dict(kind='plane', normal=_fl(s * n), offset=_f(s * off), tag='missing')
    if r < .55:
        spec, tag = plane()
        spec['tag'] = tag
        return spec
    if r < .8:
        c = rng.uniform(lo - .2 * size, hi + .2 * size)
        rad = float(rng.uniform(.15, .8) * size.max())
        tag = 'sphere'
        if rng.random() < .3:
            # (nearly) tangent to a grid line / plane
            k = int(rng.integers(d))
            t = ticks[k][int(rng.integers(len(ticks[k])))]
            if abs(c[k] - t) > 1e-3:
                rad = abs(c[k] - t) + float(rng.choice([0., 1e-9, -1e-9, 1e-4, -1e-4]))
                tag = 'sphere-tangent'
        return dict(kind='sphere', center=_fl(c), radius=_f(rad), sign=_f(rng.choice([-1., 1.])), tag=tag)
    if r < .92:
        # product of two planes.  Neither factor passes EXACTLY through mesh vertices: a level set that vanishes identically on a
        # whole element edge/face while changing sign inside the adjacent element is degenerate (nutils keeps the zero edge on both
        # sides, so trim(f) and trim(-f) overlap); "nearly through" is kept.
        p1, tag = plane()
        if 'through' in tag:
            p1['offset'] = _f(p1['offset'] + float(rng.choice([-1., 1.])) * float(rng.choice([1e-9, 1e-6, 2e-3])))
            tag = tag.replace('through', 'near')
        p2, _ = plane(allow_special=False)
        return dict(kind='product', planes=[p1, p2], tag='product-' + tag)
    # general quadric
    H = rng.normal(size=(d, d))
    H = H + H.T
    c = rng.uniform(lo, hi)
    return dict(kind='quadric', H=_fl(H), center=_fl(c), level=_f(rng.uniform(-1, 1) * size.max()**2 * .2), tag='quadric')


def make_levelset(spec, geom0, root=None):
    d = None
    kind = spec['kind']
    if kind == 'plane':
        n = numpy.array(spec['normal'], dtype=float)
        d = len(n)
        return sum(n[i] * geom0[i] for i in range(d)) - float(spec['offset'])
    if kind == 'sphere':
        c = numpy.array(spec['center'], dtype=float)
        d = len(c)
        return float(spec['sign']) * (float(spec['radius'])**2 - sum((geom0[i] - c[i])**2 for i in range(d)))
    if kind == 'product':
        p1, p2 = (make_levelset(p, geom0, root) for p in spec['planes'])
        return p1 * p2
    if kind == 'quadric':
        H = numpy.array(spec['H'], dtype=float)
        c = numpy.array(spec['center'], dtype=float)
        d = len(c)
        y = [geom0[i] - c[i] for i in range(d)]
        return sum(H[i, j] * y[i] * y[j] for i in range(d) for j in range(d)) - float(spec['level'])
    if kind == 'piecewise':
        # n.g - offsets[element of the root mesh]: DISCONTINUOUS across element faces, so two neighbours cut their shared face at different places
        from nutils import function
        if root is None:
            raise ValueError('piecewise level set needs the root topology')
        n = numpy.array(spec['normal'], dtype=float)
        offsets = numpy.array(spec['offsets'], dtype=float)
        if len(offsets) != len(root):
            raise ValueError('piecewise level set does not fit the root mesh')
        return sum(n[i] * geom0[i] for i in range(len(n))) - function.get(offsets, 0, root.f_index)
    if kind == 'partial':
        # sign * [(g_a - t) + kappa (g_b - s0)(g_b - s1)]: continuous, but VANISHES at two (sub)vertices of the grid line g_a = t: with
        # maxrefine >= 1 one element is cut along (part of) an element edge while its neighbour keeps that face whole (tests/test_finitecell partialtrim)
        a, b = int(spec['a']), int(spec['b'])
        return float(spec['sign']) * ((geom0[a] - float(spec['t'])) + float(spec['kappa']) * (geom0[b] - float(spec['s0'])) * (geom0[b] - float(spec['s1'])))
    raise ValueError(kind)


# ------------------------------------------------------------------ history generation

def gen_history(rng, tier='quick', ndims=None, mesh_kinds=None, ops=None, maxops=None):
    """Random history (see module docstring)."""
    big = tier == 'thorough'
    if ndims is None:
        ndims = int(rng.choice([1, 2], p=[.3, .7]))
    if not mesh_kinds and not ops:
        r = rng.random()
        if r < .08:
            return gen_periodic_slice_history(rng, tier, ndims)
        if r < .20:
            return gen_mismatch_trim_history(rng, tier, ndims)
    mesh_spec = gen_mesh(rng, ndims, tier, mesh_kinds)
    geom_spec = gen_geometry(rng, ndims, tier)
    if geom_spec['kind'] == 'quad' and (mesh_spec['kind'] == 'multipatch' or mesh_spec.get('etype') == 'multipatch' or mesh_spec.get('periodic')):
        # multipatch: keeps the quadrature degree low; periodic: a non-affine map does not respect the periodicity (seam faces stop cancelling)
        geom_spec = dict(kind='affine', A=geom_spec['A'], b=geom_spec['b'])
    ticks = mesh_ticks(mesh_spec)
    nops = int(rng.choice([1, 2, 3, 4, 5, 6], p=[.1, .22, .26, .2, .12, .1]))
    if maxops:
        nops = min(nops, maxops)
    cap = MAXELEMS if not big else 2 * MAXELEMS

    # coarse prediction of the state, only used to bias the choice of operations
    st = dict(d=ndims, D=ndims, n=mesh_size(mesh_spec), structured=mesh_spec['kind'] in ('line', 'rect', 'tensor'),
              mul=mesh_spec['kind'] == 'tensor', plain=False, trimmed=False, hier=False, manifold=False, ntrim=0, nsub=0,
              groups=_mesh_groups(mesh_spec), spaces=1 if mesh_spec['kind'] != 'tensor' else ndims)
    oplist = []
    for iop in range(nops):
        w = dict(refine=1.2 if st['n'] * 2**st['d'] <= cap else 0., refined_by=2.2, take=.6, slice=.8 if st['structured'] else .05,
                 group=.5 if st['groups'] else .03, subset=.7, minus=.7, union=.6, inter=.4, hinter=.7,
                 mul=.35 if st['D'] < 3 and not st['manifold'] and st['n'] <= 40 else 0., trim=2.8, boundary=.25 if st['d'] >= 2 else .05, interfaces=.08)
        if st['mul']:
            w.update(refined_by=.15, trim=.15, subset=.1, minus=.1, hinter=.1, union=.2, inter=.2, slice=1.2, take=1., boundary=.5)
        if st['plain']:
            w.update(subset=.2, minus=.2, slice=.05, group=.05, hinter=.3, boundary=.02, interfaces=.02)
        if st['manifold']:
            w.update(mul=0., boundary=.05, interfaces=.05)
        if st['d'] == 3:
            w.update(refine=.5 if st['n'] * 8 <= 200 else 0.)
        if ops:
            w = {k: v for k, v in w.items() if k in ops}
        names = [k for k, v in w.items() if v > 0]
        if not names:
            break
        p = numpy.array([w[k] for k in names])
        kind = str(rng.choice(names, p=p / p.sum()))
        seed = int(rng.integers(2**31))
        frac = _f(rng.choice([.1, .25, .5, .75, 1.], p=[.25, .3, .25, .15, .05]))
        if kind == 'refine':
            op = dict(op='refine')
            st['n'] *= 2**st['d']
        elif kind == 'refined_by':
            op = dict(op='refined_by', frac=frac, seed=seed, prefer='cut' if st['trimmed'] and rng.random() < .65 else 'any')
            st['n'] += int(st['n'] * frac * (2**st['d'] - 1))
            st['hier'] = True
            st['structured'] = False
        elif kind == 'take':
            op = dict(op='take', frac=frac, seed=seed, how=str(rng.choice(['getitem', 'take', 'compress'])))
            st.update(plain=True, structured=False)
            st['n'] = max(1, int(st['n'] * frac))
        elif kind == 'slice':
            op = dict(op='slice', ranges=[[_f(a), _f(b)] for a, b in (sorted(rng.choice([0., .25, .34, .5, .67, .75, 1.], size=2, replace=False)) for _ in range(st['d']))])
            st['n'] = max(1, st['n'] // 2)
        elif kind == 'group':
            name = str(rng.choice(st['groups'])) if st['groups'] and rng.random() < .9 else 'nonexistent'
            op = dict(op='group', name=name)
            st['n'] = max(1, st['n'] // 2)
        elif kind in ('subset', 'minus'):
            st['nsub'] += 1
            op = dict(op=kind, frac=_f(min(frac, .75)), seed=seed, name=f'sub{st["nsub"]}' if rng.random() < .8 else None)
            st['trimmed'] = True
            st['structured'] = False
            st['n'] = max(1, int(st['n'] * (frac if kind == 'subset' else 1 - min(frac, .75))))
        elif kind in ('union', 'inter', 'hinter'):
            fb = _f(rng.choice([.1, .25, .5, .75]))
            op = dict(op=kind, a=dict(frac=min(frac, .75), seed=seed), b=dict(frac=fb, seed=int(rng.integers(2**31))))
            if kind == 'hinter':
                st['n'] += int(st['n'] * min(1., frac + fb) * (2**st['d'] - 1))
                st.update(hier=True, structured=False)
            else:
                st.update(plain=True, structured=False)
        elif kind == 'mul':
            n = int(rng.integers(1, 4))
            op = dict(op='mul', n=n, periodic=bool(n >= 3 and rng.random() < .2), space='YZW'[st['spaces'] - 1] if st['spaces'] <= 3 else 'W')
            st['n'] *= n
            st['d'] += 1
            st['D'] += 1
            st['spaces'] += 1
            st['mul'] = True
            ticks = ticks + [[float(i) for i in range(n + 1)]]
        elif kind == 'trim':
            st['ntrim'] += 1
            mrmax = 3 if (big and st['d'] <= 2 and st['n'] <= 40) or st['d'] == 1 else 2 if st['d'] <= 2 else 1
            if st['d'] == 3 and big and st['n'] <= 8:
                mrmax = 2
            mr = int(rng.integers(0, mrmax + 1))
            if st['n'] > 150:
                mr = min(mr, 1)
            op = dict(op='trim', levelset=gen_levelset(rng, ticks[:st['D']]), maxrefine=mr, ndivisions=int(rng.choice([8, 8, 8, 4, 16])),
                      name=f'trim{st["ntrim"]}', side=str(rng.choice(['+', '-'], p=[.7, .3])))
            st['trimmed'] = True
            st['structured'] = False
        elif kind == 'boundary':
            g = None
            if rng.random() < .5:
                g = str(rng.choice(['left', 'right', 'bottom', 'top', 'front', 'back'][:2 * min(st['d'], 3)]))
            op = dict(op='boundary', group=g)
            st['d'] -= 1
            st['manifold'] = True
            st['structured'] = st['structured'] and g is not None
            st['n'] = max(1, st['n'] // 2)
            if st['d'] == 0:
                oplist.append(op)
                break
        elif kind == 'interfaces':
            op = dict(op='interfaces')
            st['d'] -= 1
            st.update(manifold=True, plain=True, structured=False)
            if st['d'] == 0:
                oplist.append(op)
                break
        oplist.append(op)
    return dict(version=VERSION, ndims=ndims, mesh=mesh_spec, geom=geom_spec, ops=oplist)


def gen_periodic_slice_history(rng, tier='quick', ndims=2):
    """Scenario histories: a periodic structured mesh (>= 3 elements along the periodic axis), SLICED along the periodic direction so that the
    cut no longer wraps, then refined near the cut in one of the ways that re-derive boundary indices on a finer level:
    refined_by (all / random elements), hinter, boundary -> refine, refine -> boundary, refine -> refined_by; optionally one more random
    operation.  (A fine boundary element placed at an index wrapped with the coarse period is only visible in the x.n flux / first moments.)"""
    n = int(rng.integers(3, 7))
    kind = 'line' if ndims == 1 else str(rng.choice(['rect', 'tensor'], p=[.8, .2]))
    if kind == 'line':
        mesh = dict(kind='line', ndims=1, n=n, periodic=True)
        paxis = 0
    else:
        shape = [int(rng.integers(1, 3)) for _ in range(ndims)]
        paxis = int(rng.integers(ndims))
        shape[paxis] = n
        if ndims == 3:
            shape = [min(v, 2) if k != paxis else min(n, 4) for k, v in enumerate(shape)]
            n = shape[paxis]
        if rng.random() < .3:
            k = int(rng.integers(ndims))
            shape[k] = [0.] + numpy.cumsum(rng.choice([.5, 1., 1.5], size=shape[k])).tolist()
        mesh = dict(kind=kind, ndims=ndims, shape=shape, periodic=[paxis])
    geom = gen_geometry(rng, ndims, tier)
    if geom['kind'] == 'quad':
        geom = dict(kind='affine', A=geom['A'], b=geom['b'])
    ops = []
    pre_refine = rng.random() < .25 and ndims < 3
    if pre_refine:
        ops.append(dict(op='refine'))
    # a proper sub-range of the periodic axis, biased towards cuts in the upper half of the period
    i = int(rng.integers(0, n - 1))
    j = int(rng.integers(max(i + 1, (n + 1) // 2), n + 1))
    if (i, j) == (0, n):
        i = 1
    ranges = [[0., 1.] for _ in range(ndims)]
    ranges[paxis] = [i / n, j / n]
    ops.append(dict(op='slice', ranges=ranges))
    how = str(rng.choice(['refined_by', 'refined_by_all', 'hinter', 'boundary-refine', 'refine-boundary', 'refine-refined_by']))
    if kind == 'tensor' and how in ('refined_by', 'refined_by_all', 'hinter', 'refine-refined_by'):
        how = str(rng.choice(['boundary-refine', 'refine-boundary']))
    seed = lambda: int(rng.integers(2**31))
    if how == 'refined_by':
        ops.append(dict(op='refined_by', frac=_f(rng.choice([.25, .5, .75])), seed=seed(), prefer='any'))
    elif how == 'refined_by_all':
        ops.append(dict(op='refined_by', frac=1., seed=seed(), prefer='any'))
    elif how == 'hinter':
        ops.append(dict(op='hinter', a=dict(frac=.5, seed=seed()), b=dict(frac=.5, seed=seed())))
    elif how == 'boundary-refine':
        ops += [dict(op='boundary', group=None), dict(op='refine')]
    elif how == 'refine-boundary':
        ops += [dict(op='refine'), dict(op='boundary', group=None)]
    else:
        ops += [dict(op='refine'), dict(op='refined_by', frac=_f(rng.choice([.25, .5])), seed=seed(), prefer='any')]
    if rng.random() < .4 and not how.endswith('boundary') and how != 'boundary-refine':
        ops.append(dict(op='refined_by', frac=.25, seed=seed(), prefer='any') if kind != 'tensor' else dict(op='refine'))
    return dict(version=VERSION, ndims=ndims, mesh=mesh, geom=geom, ops=ops, scenario='periodic-slice-' + how)


def gen_mismatch_trim_history(rng, tier='quick', ndims=2):
    """Scenario histories: a SMALL mesh (mostly two elements, so that there is exactly one interior face) trimmed such that the two
    neighbours keep DIFFERENT parts of their shared face, in both element orders:
    'piecewise': plane level set with a per-element offset (discontinuous across faces), maxrefine 0-2;
    'partial'  : continuous level set vanishing at two (sub)vertices of a grid line (maxrefine 1-2): one element is cut along the element
                 edge, the neighbour keeps the face whole;
    optionally followed by refine / refined_by / subset / minus / take / boundary / interfaces.  (TransformChainsTopology.interfaces must
    intersect the two edge references; whether it does is order dependent and hidden as soon as any other face 'touches'.)"""
    if ndims == 1:
        ndims = 2
    how = str(rng.choice(['piecewise', 'partial'], p=[.7, .3]))
    r = rng.random()
    if ndims == 3:
        axis = int(rng.integers(3))
        shape = [1, 1, 1]
        shape[axis] = 2
        mesh = dict(kind='rect', ndims=3, shape=shape, periodic=[]) if r < .8 else dict(kind='simplex', ndims=3, n=1, seed=int(rng.integers(2**31)), amp=0.)
    elif how == 'partial' or r < .45:
        shape = [[2, 1], [1, 2], [2, 2], [3, 1], [1, 3], [3, 2]][int(rng.choice(6, p=[.3, .3, .15, .1, .1, .05]))]
        mesh = dict(kind='rect', ndims=2, shape=shape, periodic=[])
    elif r < .7:
        mesh = dict(kind='unitsquare', ndims=2, etype='triangle', n=1)
    elif r < .85:
        mesh = dict(kind='unitsquare', ndims=2, etype=str(rng.choice(['mixed', 'square'])), n=2)
    else:
        mesh = dict(kind='simplex', ndims=2, n=int(rng.integers(1, 3)), seed=int(rng.integers(2**31)), amp=_f(rng.choice([0., .1])))
    if how == 'partial' and mesh['kind'] != 'rect':
        how = 'piecewise'
    ticks = mesh_ticks(mesh)
    lo = numpy.array([t[0] for t in ticks])
    hi = numpy.array([t[-1] for t in ticks])
    geom = gen_geometry(rng, ndims, tier)
    if geom['kind'] == 'quad':
        geom = dict(kind='affine', A=geom['A'], b=geom['b'])
    nel = mesh_size(mesh)
    if how == 'piecewise':
        if mesh['kind'] == 'rect' and rng.random() < .6:
            # plane (nearly) transverse to a shared face: normal along an axis in which the mesh has one element
            ones = [k for k, v in enumerate(mesh['shape']) if v == 1] or list(range(ndims))
            n = numpy.zeros(ndims)
            n[int(rng.choice(ones))] = float(rng.choice([-1., 1.]))
            n += rng.normal(size=ndims) * float(rng.choice([0., .05, .3]))
        else:
            n = rng.normal(size=ndims)
        n /= numpy.linalg.norm(n)
        centre = .5 * (lo + hi)
        h = float((hi - lo).min()) / max(1, max(len(t) - 1 for t in ticks))
        base = float(n @ centre)
        offsets = (base + rng.uniform(-.35, .35, nel) * h).tolist()
        if rng.random() < .3:   # only one element differs
            k = int(rng.integers(nel))
            offsets = [offsets[k] if e == k else offsets[(k + 1) % nel] for e in range(nel)]
        ls = dict(kind='piecewise', normal=_fl(n), offsets=[_f(o) for o in offsets], tag='piecewise')
        mr = int(rng.integers(0, 3))
    else:
        a = int(rng.integers(ndims))
        b = int(rng.choice([k for k in range(ndims) if k != a]))
        inner = ticks[a][1:-1] or ticks[a]
        t = float(inner[int(rng.integers(len(inner)))])
        tb = ticks[b]
        k = int(rng.integers(len(tb) - 1))
        cand = [tb[k], .5 * (tb[k] + tb[k + 1]), tb[k + 1]]
        i0 = int(rng.integers(0, 2))
        s0, s1 = cand[i0], cand[i0 + 1]
        ls = dict(kind='partial', a=a, b=b, t=_f(t), s0=_f(s0), s1=_f(s1), kappa=_f(rng.choice([1., -1., .5, 2.])), sign=_f(rng.choice([-1., 1.])), tag='partial')
        mr = int(rng.integers(1, 3))
    if ndims == 3:
        mr = min(mr, 1)
    ops = [dict(op='trim', levelset=ls, maxrefine=mr, ndivisions=int(rng.choice([8, 8, 16])), name='trim1', side=str(rng.choice(['+', '-'])))]
    seed = lambda: int(rng.integers(2**31))
    follow = str(rng.choice(['none', 'refine', 'refined_by', 'subset', 'minus', 'take', 'boundary', 'interfaces'], p=[.35, .12, .12, .1, .1, .07, .08, .06]))
    if follow == 'refine':
        ops.append(dict(op='refine'))
    elif follow == 'refined_by':
        ops.append(dict(op='refined_by', frac=.5, seed=seed(), prefer='cut'))
    elif follow in ('subset', 'minus'):
        ops.append(dict(op=follow, frac=.5, seed=seed(), name='sub1'))
    elif follow == 'take':
        ops.append(dict(op='take', frac=.75, seed=seed(), how='getitem'))
    elif follow in ('boundary', 'interfaces'):
        ops.append(dict(op=follow, group=None) if follow == 'boundary' else dict(op='interfaces'))
    return dict(version=VERSION, ndims=ndims, mesh=mesh, geom=geom, ops=ops, scenario='mismatch-trim-' + how)


def _mesh_groups(spec):
    k = spec['kind']
    if k == 'simplex':
        return ['a', 'b']
    if k == 'multipatch':
        return [f'patch{i}' for i in range(len(MULTIPATCH_LIB[spec['name']]['patches']))]
    if k == 'unitsquare' and spec['etype'] == 'multipatch':
        return [f'patch{i}' for i in range(5)]
    return []


# ------------------------------------------------------------------ building

class Step:
    __slots__ = 'index', 'op', 'status', 'reason', 'prev', 'topo', 'geom', 'geom0', 'info'

    def __init__(self, index, op, prev, geom, geom0):
        self.index, self.op, self.prev, self.topo, self.geom, self.geom0 = index, op, prev, prev, geom, geom0
        self.status, self.reason, self.info = 'applied', '', {}

    def __repr__(self):
        return f'Step({self.index}, {self.op.get("op")}, {self.status}{": " + self.reason if self.reason else ""}, {type(self.topo).__name__}#{_len(self.topo)})'


def _len(topo):
    try:
        return len(topo)
    except Exception:
        return -1


class Skip(Exception):
    pass


def _structured_shape(topo):
    shape = getattr(topo, 'shape', None)
    if shape is not None and len(shape) == topo.ndims:
        return tuple(int(n) for n in shape)
    t1, t2 = getattr(topo, 'topo1', None), getattr(topo, 'topo2', None)
    if t1 is not None and t2 is not None and type(topo).__name__ == '_Mul':
        s1, s2 = _structured_shape(t1), _structured_shape(t2)
        if s1 is not None and s2 is not None:
            return s1 + s2
    return None


def apply_op(op, topo, geom, geom0, geomspec, maxelems, root=None):
    """Apply one operation; returns (newtopo, newgeom, newgeom0, info).  Raises what nutils raises."""
    from nutils import mesh, function
    kind = op['op']
    n = len(topo)
    info = {}
    if kind == 'refine':
        if n * 2**topo.ndims > maxelems:
            raise Skip('too many elements')
        return topo.refined, geom, geom0, info
    if kind == 'refined_by':
        pool = None
        if op.get('prefer') == 'cut':
            cut = cut_elements(topo)
            if len(cut):
                pool = cut
        idx = select(n, op, pool)
        if n + len(idx) * (2**topo.ndims - 1) > maxelems:
            raise Skip('too many elements')
        info['indices'] = idx
        return topo.refined_by(idx), geom, geom0, info
    if kind == 'take':
        idx = select(n, op)
        info['indices'] = idx
        how = op.get('how', 'getitem')
        if how == 'take':
            new = topo.take(idx[::-1].tolist() + idx[:1].tolist())  # unordered with a duplicate: treated as a set
        elif how == 'compress':
            mask = numpy.zeros(n, dtype=bool)
            mask[idx] = True
            new = topo.compress(mask)
        else:
            new = topo[idx]
        return new, geom, geom0, info
    if kind == 'slice':
        shape = _structured_shape(topo)
        slices = []
        for k, (a, b) in enumerate(op['ranges'][:topo.ndims]):
            m = shape[k] if shape else 4
            i, j = int(round(a * m)), int(round(b * m))
            if j <= i:
                j = i + 1
            if i >= m:
                i, j = m - 1, m
            slices.append(slice(i, j))
        info['slices'] = slices
        info['shape'] = shape
        new = topo[tuple(slices)] if len(slices) > 1 else topo[slices[0]]
        return new, geom, geom0, info
    if kind == 'group':
        return topo[op['name']], geom, geom0, info
    if kind in ('subset', 'minus'):
        idx = select(n, dict(op, proper=True))
        if len(idx) == n:
            raise Skip('selection is everything')
        info['indices'] = idx
        sub = topo[idx]
        info['a'] = sub
        if kind == 'subset':
            new = topo.subset(sub, newboundary=op.get('name'))
        else:
            if op.get('name'):
                new = topo - topo.subset(sub, newboundary=op['name'])
            else:
                new = topo - sub
        return new, geom, geom0, info
    if kind in ('union', 'inter'):
        ia, ib = select(n, op['a']), select(n, op['b'])
        a, b = topo[ia], topo[ib]
        info.update(ia=ia, ib=ib, a=a, b=b)
        new = (a | b) if kind == 'union' else (a & b)
        return new, geom, geom0, info
    if kind == 'hinter':
        ia, ib = select(n, op['a']), select(n, op['b'])
        if n + (len(ia) + len(ib)) * (2**topo.ndims - 1) > maxelems:
            raise Skip('too many elements')
        a, b = topo.refined_by(ia), topo.refined_by(ib)
        info.update(ia=ia, ib=ib, a=a, b=b)
        return a & b, geom, geom0, info
    if kind == 'mul':
        if n * op['n'] > maxelems:
            raise Skip('too many elements')
        if op['space'] in topo.spaces:
            raise Skip('space in use')
        other, y = mesh.line(int(op['n']), periodic=bool(op.get('periodic')), bnames=('low', 'high'), space=op['space'])
        info['other'] = other
        y = numpy.stack([y])
        return topo * other, numpy.concatenate([geom, y]), numpy.concatenate([geom0, y]), info
    if kind == 'trim':
        ls = make_levelset(op['levelset'], geom0, root)
        if n * (2**topo.ndims)**min(op['maxrefine'], 2) > 40 * maxelems:
            raise Skip('too many elements')
        pos = topo.trim(ls, maxrefine=int(op['maxrefine']), ndivisions=int(op.get('ndivisions', 8)), name=op.get('name', 'trimmed'))
        info.update(base=topo, pos=pos, levelset=ls, name=op.get('name', 'trimmed'), maxrefine=int(op['maxrefine']),
                    ndivisions=int(op.get('ndivisions', 8)), side=op.get('side', '+'))
        new = pos if op.get('side', '+') == '+' else topo - pos
        return new, geom, geom0, info
    if kind == 'boundary':
        b = topo.boundary
        if op.get('group'):
            b = b[op['group']]
        if not len(b):
            raise Skip('empty boundary')
        return b, geom, geom0, info
    if kind == 'interfaces':
        i = topo.interfaces
        if not len(i):
            raise Skip('no interfaces')
        return i, geom, geom0, info
    raise ValueError(f'unknown operation {kind!r}')


def build(history, maxelems=MAXELEMS):
    """Apply ``history`` to real nutils objects: returns (topology, geometry, steps). See module docstring."""
    with quiet():
        topo, geom0 = make_mesh(history['mesh'])
        geom = make_geometry(history['geom'], geom0)
        first = Step(0, dict(op='mesh'), topo, geom, geom0)
        steps = [first]
        for i, op in enumerate(history['ops'], start=1):
            step = Step(i, op, topo, geom, geom0)
            try:
                new, g, g0, info = apply_op(op, topo, geom, geom0, history['geom'], maxelems, root=first.topo)
                n = len(new)
                step.info = info
                if n == 0 and 'pos' in info:
                    step.reason = 'result empty: not adopted'  # the operation ran (monitors apply), its empty result is not carried on
                    info['result_empty'] = True
                elif n == 0:
                    step.status, step.reason = 'skipped', 'empty result'
                    info['result'] = new
                elif n > maxelems:
                    step.status, step.reason = 'skipped', 'too many elements'
                else:
                    step.topo, step.geom, step.geom0 = new, g, g0
                    topo, geom, geom0 = new, g, g0
            except Skip as e:
                step.status, step.reason = 'skipped', str(e)
            except Exception as e:
                step.status = 'rejected' if is_refusal(e) else 'error'
                step.reason = signature(e)
            steps.append(step)
    return topo, geom, steps
