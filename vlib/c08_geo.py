"""Geometry maps, random polynomial fields and their nutils counterparts for C08.

The *oracle side* (Poly objects, numpy) and the *nutils side* (function arrays
built from the mesh's own geometry with ``+ * **``) are generated from the same
JSON description, but share no code path beyond that description.
"""

import numpy
from vlib.c08_poly import Poly, parray, peval, pgrad, pdet, ptojson, pfromjson


# ---------------------------------------------------------------- generation (oracle side only)

def random_matrix(rng, m, mode=None):
    'well conditioned m x m matrix, singular values in [.6, 1.8]; returns (A, tag)'
    mode = mode or str(rng.choice(['general', 'general', 'general', 'identity', 'diagonal', 'permutation']))
    if mode == 'identity':
        A = numpy.eye(m)
    elif mode == 'diagonal':
        A = numpy.diag(rng.uniform(.6, 1.8, m) * rng.choice([-1., 1.], m))
    elif mode == 'permutation':
        A = numpy.eye(m)[rng.permutation(m)] * rng.choice([-1., 1.], m)
    else:
        Q1, _ = numpy.linalg.qr(rng.normal(size=(m, m)))
        Q2, _ = numpy.linalg.qr(rng.normal(size=(m, m)))
        A = Q1 @ numpy.diag(rng.uniform(.6, 1.8, m)) @ Q2
        if rng.random() < .5:
            A[:, 0] = -A[:, 0]
    return numpy.round(A, 6), mode


def random_perturbation(rng, n, degree, L=.5):
    """n polynomials in n variables with terms of total degree 2..degree and
    sum_alpha |c_alpha| |alpha| <= L per component: on the box [-1,1]^n the map
    id + r then has an inf-norm Lipschitz perturbation <= L < 1 (injective,
    det(I+Dr) >= (1-L)^n)."""
    comps = []
    for i in range(n):
        terms = {}
        if degree >= 2:
            k = int(rng.integers(1, 4))
            w = rng.dirichlet(numpy.ones(k)) * L * rng.uniform(.5, 1.)
            for j in range(k):
                d = int(rng.integers(2, degree + 1)) if j else degree
                e = numpy.zeros(n, dtype=int)
                for _ in range(d):
                    e[rng.integers(0, n)] += 1
                c = float(rng.choice([-1., 1.]) * w[j] / d)
                terms[tuple(e)] = terms.get(tuple(e), 0.) + round(c, 6)
        comps.append(Poly(n, terms))
    return comps


def gen_geometry(rng, lo, hi, degree, emb=0, flat=False, amode=None):
    """JSON description of x = A [xh + r(xh); height(xh)] + b with xh = (xi - c)/h the
    domain box normalised to [-1,1]^n."""
    lo, hi = numpy.asarray(lo, float), numpy.asarray(hi, float)
    n = len(lo)
    m = n + emb
    A, mode = random_matrix(rng, m, amode)
    b = numpy.round(rng.uniform(-1, 1, m), 6) if mode != 'identity' or rng.random() < .5 else numpy.zeros(m)
    r = random_perturbation(rng, n, degree)
    height = None
    if emb:
        terms = {}
        if not flat:
            for _ in range(int(rng.integers(1, 4))):
                d = int(rng.integers(1, max(2, degree) + 1))
                e = numpy.zeros(n, dtype=int)
                for _ in range(d):
                    e[rng.integers(0, n)] += 1
                terms[tuple(e)] = round(float(rng.uniform(-.6, .6)), 6)
        height = Poly(n, terms)
    return dict(n=n, m=m, A=A.tolist(), b=b.tolist(), c=((lo + hi) / 2).tolist(), h=((hi - lo) / 2).tolist(),
                r=[p.tojson() for p in r], height=None if height is None else height.tojson(), amode=mode,
                degree=int(degree), flat=bool(flat))


def geometry_is_identity(gj):
    n, m = gj['n'], gj['m']
    return n == m and numpy.array_equal(numpy.asarray(gj['A']), numpy.eye(m)) and not any(gj['b']) and not any(gj['r'][i] for i in range(n))


def geometry_polys(gj):
    'oracle: list of m Poly in the n root-geometry variables'
    n, m = gj['n'], gj['m']
    if geometry_is_identity(gj):
        arr = numpy.empty(m, dtype=object)
        arr[:] = [Poly.var(n, i) for i in range(n)]
        return arr
    c, h = gj['c'], gj['h']
    xh = [(Poly.var(n, i) - c[i]) * (1. / h[i]) for i in range(n)]
    inner = [Poly.var(n, i) + Poly.fromjson(n, gj['r'][i]) for i in range(n)]
    if m > n:
        inner.append(Poly.fromjson(n, gj['height']))
    inner = [p.compose(xh) for p in inner]
    A, b = numpy.asarray(gj['A']), gj['b']
    out = []
    for i in range(m):
        p = Poly.const(n, b[i])
        for j in range(m):
            if A[i, j]:
                p = p + inner[j] * float(A[i, j])
        out.append(p)
    arr = numpy.empty(m, dtype=object)
    arr[:] = out
    return arr


def random_field(rng, nvars, shape, degree, nterms=(1, 3), mindeg=0):
    'object array of sparse random polynomials of total degree <= degree; at least one component reaches `degree`'
    def one(idx):
        terms = {}
        for j in range(int(rng.integers(nterms[0], nterms[1] + 1))):
            d = int(rng.integers(mindeg, degree + 1))
            e = numpy.zeros(nvars, dtype=int)
            for _ in range(d):
                e[rng.integers(0, nvars)] += 1
            terms[tuple(e)] = round(float(rng.choice([-1., 1.]) * rng.uniform(.3, 1.5)), 6)
        return Poly(nvars, terms)
    P = parray(nvars, tuple(shape), one)
    # force the degree
    idx = tuple(int(rng.integers(0, s)) for s in shape)
    e = numpy.zeros(nvars, dtype=int)
    for _ in range(degree):
        e[rng.integers(0, nvars)] += 1
    P[idx] = P[idx] + Poly(nvars, {tuple(e): round(float(rng.uniform(.5, 1.5)), 6)})
    return P


# ---------------------------------------------------------------- nutils side

def nutils_poly(p, xs, style='power'):
    'nutils scalar function for the polynomial p evaluated in the scalar nutils arrays xs'
    from nutils import function
    if not p.terms:
        return function.zeros((), float)
    tot = None
    for e, c in sorted(p.terms.items()):
        term = None
        for i, k in enumerate(e):
            if not k:
                continue
            if style == 'power':
                f = xs[i]**k if k > 1 else xs[i]
            else:
                f = xs[i]
                for _ in range(k - 1):
                    f = f * xs[i]
            term = f if term is None else term * f
        term = function.Array.cast(float(c)) if term is None else term * float(c)
        tot = term if tot is None else tot + term
    return tot


def nutils_parray(P, xs, style='power'):
    from nutils import function
    P = numpy.asarray(P, dtype=object)
    comps = [nutils_poly(p, xs, style) for p in P.flat]
    if P.shape == ():
        return comps[0]
    return numpy.reshape(numpy.stack(comps), P.shape)


def nutils_geometry(gj, geom, style='power'):
    """The nutils geometry x = Phi(geom), built *structurally* the way the JSON reads
    (normalise, perturb, affine map), not from the expanded oracle polynomials."""
    from nutils import function
    n, m = gj['n'], gj['m']
    if geometry_is_identity(gj):
        return geom
    xh = [(geom[i] - gj['c'][i]) / gj['h'][i] for i in range(n)]
    inner = []
    for i in range(n):
        r = Poly.fromjson(n, gj['r'][i])
        inner.append(xh[i] + nutils_poly(r, xh, style) if r.terms else xh[i])
    if m > n:
        inner.append(nutils_poly(Poly.fromjson(n, gj['height']), xh, style))
    inner = numpy.stack(inner)
    A = numpy.asarray(gj['A'], dtype=float)
    b = numpy.asarray(gj['b'], dtype=float)
    if style == 'power':
        return A @ inner + b
    return numpy.stack([sum(float(A[i, j]) * inner[j] for j in range(m) if A[i, j]) + float(b[i]) for i in range(m)])
