"""C19 helpers: namespace specifications, their realisation as real nutils
namespaces (expression_v1 / expression_v2), the numpy "meaning" of every leaf,
the index-rule analyser and the einsum evaluator of syntax trees.

Syntax trees are JSON-able nested lists:

    ['num', text]
    ['var', name, idx]                 idx: string of index letters / numerals
    ['call', fname, genidx, expr]      single-argument call, generated axes
    ['scope', '(' | '[' | '{', expr]
    ['pow', base, ['int', n] | expr]
    ['prod', [factor, ...]]
    ['frac', prod, prod]
    ['sum', [[sign, term], ...]]       sign '+' | '-', first sign = leading minus
  v1 only:
    ['grad', node, idx, ',' | ';']     node_,idx  (node: var with its own idx, or scope)
    ['eye', symbol, idx]               δ_ij / $_ij
    ['normal', idx]                    n_i
    ['stack', [expr, ...], letter]     <a, b>_i
    ['calln', fname, genidx, consumes, [expr, ...]]

All numpy values carry a leading *point* axis (length 1 for constant
namespaces); gradients carry a trailing axis of the geometry dimension.
"""

import numpy

INDEX_LETTERS = 'ijklmpqrst'
PT, GR = 'Z', 'Y'            # einsum labels of the point axis and the gradient axis
VAR_NAMES = ['a', 'b', 'c', 'e', 'u', 'v', 'w', 'A', 'B', 'C', 'T', 'U', 'ab', 'a2', 'Bc']
BUILTIN_FUNCS = {  # name -> (numpy function, derivative, domain test)
    'sin': (numpy.sin, numpy.cos, None),
    'cos': (numpy.cos, lambda u: -numpy.sin(u), None),
    'exp': (numpy.exp, numpy.exp, lambda u: numpy.abs(u) < 8),
    'tanh': (numpy.tanh, lambda u: 1 - numpy.tanh(u)**2, None),
    'abs': (numpy.abs, numpy.sign, lambda u: numpy.abs(u) > 1e-3),
    'sqrt': (numpy.sqrt, lambda u: .5 / numpy.sqrt(u), lambda u: u > .05),
    'tan': (numpy.tan, None, lambda u: numpy.abs(numpy.cos(u)) > .05),
    'sinh': (numpy.sinh, None, lambda u: numpy.abs(u) < 8),
    'cosh': (numpy.cosh, None, lambda u: numpy.abs(u) < 8),
    'arcsin': (numpy.arcsin, None, lambda u: numpy.abs(u) < .95),
    'arccos': (numpy.arccos, None, lambda u: numpy.abs(u) < .95),
    'arctan': (numpy.arctan, None, None),
    'arctanh': (numpy.arctanh, None, lambda u: numpy.abs(u) < .95),
    'ln': (numpy.log, None, lambda u: u > .05),
    'log': (numpy.log, None, lambda u: u > .05),
    'log2': (numpy.log2, None, lambda u: u > .05),
    'log10': (numpy.log10, None, lambda u: u > .05),
    'sign': (numpy.sign, None, lambda u: numpy.abs(u) > 1e-3),
    'conj': (numpy.conj, None, None),
    'real': (numpy.real, None, None),
    'imag': (numpy.imag, None, None),
}
V1_ONLY_MISSING = ('conj', 'real', 'imag')   # not among the v1 default functions


class Invalid(Exception):
    """the string / tree violates a documented rule"""


class Unclassified(Exception):
    """the documentation does not decide validity or meaning"""


def values(shape, seed):
    rng = numpy.random.default_rng(int(seed))
    mag = numpy.round(rng.uniform(.5, 2., size=tuple(shape)), 3)
    sgn = rng.choice([-1., 1.], size=tuple(shape), p=[.35, .65])
    return mag * sgn


# ---------------------------------------------------------------- user functions

def make_func(f, version=2):
    """Python callable for a function spec; works on numpy arrays and on nutils arrays alike."""
    kind = f['kind']
    if kind == 'sq':
        fn = lambda u: u * u + 1.
    elif kind == 'aff':
        fn = lambda u: 2. * u - .5
    elif kind == 'lin1':
        c = values(f['gen'], f['seed'])
        fn = lambda u: u[..., numpy.newaxis] * c
    elif kind == 'lin2':
        c = values(f['gen'], f['seed'])
        e = values(f['gen'], f['seed'] + 1)
        fn = lambda u: u[..., numpy.newaxis, numpy.newaxis] * c + e
    else:
        raise ValueError(kind)
    if version == 2:
        return fn
    ngen = len(f['gen'])
    if ngen:
        def fn1(u, generates=0):
            if generates != ngen:
                raise ValueError('function generates {} axes, not {}'.format(ngen, generates))
            return fn(u)
        return fn1
    return lambda u: fn(u)


def func_deriv(f):
    kind = f['kind']
    if kind == 'sq':
        return lambda u, du: 2. * u[..., None] * du
    if kind == 'aff':
        return lambda u, du: 2. * du
    if kind == 'lin1':
        c = values(f['gen'], f['seed'])
        return lambda u, du: du[..., None, :] * c[:, None]
    if kind == 'lin2':
        c = values(f['gen'], f['seed'])
        return lambda u, du: du[..., None, None, :] * c[:, :, None]


def mul_v1(*args):
    """v1 multi-argument function: outer product of its arguments (shape = sum of shapes)."""
    r = args[0]
    for b in args[1:]:
        r = r[(...,) + (None,) * b.ndim] * b[(None,) * r.ndim]
    return r


# ---------------------------------------------------------------- namespace specs

def gen_nsspec(rng, geom_mode=None, version=2):
    """Random namespace: 3-8 variables of ndim 0-3 with axis lengths 2-4, functions with 0-2 generated axes."""
    nlen = int(rng.choice([1, 2, 3], p=[.2, .55, .25]))
    lengths = sorted(int(l) for l in rng.choice([2, 3, 4], size=nlen, replace=False))
    geom = None
    if geom_mode:
        D = int(rng.choice([1, 2, 3], p=[.08, .8, .12]))
        if D not in lengths and D >= 2:
            lengths = sorted(set(lengths[:2] + [D]))
        geom = dict(mode=geom_mode, dim=D, seed=int(rng.integers(1 << 30)), fields={}, disc={})
    names = [str(n) for n in rng.permutation(VAR_NAMES[:12])] + VAR_NAMES[12:]
    if version == 1:
        names = [n for n in names if n not in ('n', 'x')]
    shapes = [[]]
    for l in lengths:
        shapes.append([l])
    if rng.random() < .5:
        shapes.append([])
    npairs = int(rng.integers(1, 4))
    for _ in range(npairs):
        a, b = (int(v) for v in rng.choice(lengths, size=2))
        if rng.random() < .4:
            b = a
        shapes.append([a, b])
    for _ in range(int(rng.integers(0, 3))):
        a, b, c = (int(v) for v in rng.choice(lengths, size=3))
        if rng.random() < .5:
            c = a
        shapes.append([a, b, c])
    shapes = shapes[:8]
    if len(shapes) < 3:
        shapes.append([lengths[0], lengths[0]])
    variables = {}
    if rng.random() < .25:
        names.insert(int(rng.integers(0, 4)), names.pop(names.index('ab')))
    if rng.random() < .25:
        names.insert(int(rng.integers(0, 4)), names.pop(names.index('a2')))
    for name, shape in zip(names, shapes):
        variables[name] = dict(shape=shape, seed=int(rng.integers(1 << 30)))
    funcs = {'f': dict(kind=str(rng.choice(['sq', 'aff'])), gen=[], seed=0)}
    if rng.random() < .85:
        funcs['g'] = dict(kind='lin1', gen=[int(rng.choice(lengths))], seed=int(rng.integers(1 << 30)))
    if rng.random() < .6:
        funcs['h'] = dict(kind='lin2', gen=[int(v) for v in rng.choice(lengths, size=2)], seed=int(rng.integers(1 << 30)))
    if geom:
        D = geom['dim']
        # fields living on the geometry: reuse some variable names as polynomial fields
        cand = [n for n, v in variables.items() if len(v['shape']) <= 1]
        for n in cand[:int(rng.integers(1, 3))]:
            geom['fields'][n] = dict(shape=variables.pop(n)['shape'], seed=int(rng.integers(1 << 30)))
        if geom_mode == 'interfaces':
            for n in [n for n, v in variables.items() if len(v['shape']) <= 1][:int(rng.integers(1, 3))]:
                geom['disc'][n] = dict(shape=variables.pop(n)['shape'], seed=int(rng.integers(1 << 30)))
    return dict(vars=variables, funcs=funcs, geom=geom, lengths=lengths)


def _affine(g):
    D = g['dim']
    rng = numpy.random.default_rng(g['seed'])
    M = numpy.eye(D) * rng.uniform(.8, 1.6, size=D) + numpy.round(rng.uniform(-.3, .3, size=(D, D)), 2)
    t = numpy.round(rng.uniform(.2, 1., size=D), 2)
    return M, t


def _field_coeffs(f, D):
    s = tuple(f['shape'])
    return values(s, f['seed']), values(s + (D,), f['seed'] + 1), .5 * values(s + (D, D), f['seed'] + 2)


class Realised:
    """A namespace spec realised both as a real nutils namespace and as numpy leaf values."""

    def __init__(self, spec, version=2):
        from nutils import function
        self.spec, self.version = spec, version
        g = spec.get('geom')
        self.D = g['dim'] if g else None
        self.sample = None
        self.leaf = {}       # name -> [(val, grad|None) for side in 0, 1]; val has a leading point axis
        self.funcs = {}      # name -> dict(kind, gen, fn, dfn, domain)
        self.gradnames = set()
        self.no_opposite = bool(g) and g['mode'] == 'boundary'   # jump / mean / opposite cannot be evaluated on a boundary sample
        self.opaque = {}     # names that exist in the namespace but whose value is not modelled here -> Unclassified
        self.nonsmooth = set()
        if version == 2:
            from nutils import expression_v2
            ns = expression_v2.Namespace()
            self.err = expression_v2.ExpressionSyntaxError
        else:
            from nutils import expression_v1
            fns = {n: make_func(f, 1) for n, f in spec['funcs'].items()}
            fns['mul'] = mul_v1
            ns = expression_v1.Namespace(functions=fns)
            self.err = expression_v1.ExpressionSyntaxError
        self.ns = ns
        P = 1
        if g:
            from nutils import mesh
            D = self.D
            topo, x0 = mesh.rectilinear([numpy.linspace(0, 1, 3)] * D)
            M, t = _affine(g)
            x = (M * x0).sum(-1) + t
            ns.x = x
            if g['mode'] == 'interior':
                smpl = topo.sample('gauss', 2)
            elif g['mode'] == 'boundary':
                smpl = topo.boundary.sample('gauss', 1)
            else:
                smpl = topo.interfaces.sample('gauss', 1)
            self.sample = smpl
            if version == 2:
                ns.define_for('x', gradient='∇', normal='n', jacobians=('dV', 'dS'))
                ns.define_for('x', gradient='d')
                self.gradnames = {'∇', 'd'}
                extra = dict(n=ns.n, dV=ns.dV, dS=ns.dS)
            else:
                extra = dict(n=function.normal(x))
            for name, f in g['disc'].items():
                basis = topo.basis('discont', degree=0)
                co = values((len(basis),) + tuple(f['shape']), f['seed'])
                arr = (basis[(slice(None),) + (numpy.newaxis,) * len(f['shape'])] * co).sum(0)
                setattr(ns, name, arr)
                extra[name] = arr
            # one batched evaluation of everything whose per-point value is taken from nutils itself (homomorphism oracle)
            want = [('x', x, 0)]
            for name, arr in extra.items():
                if g['mode'] == 'interior':
                    if name == 'dV' and version == 2:
                        want.append((name, arr, 0))
                elif name != 'dV':
                    want.append((name, arr, 0))
                    if g['mode'] == 'interfaces':
                        want.append((name, function.opposite(arr), 1))
            got = smpl.eval([arr for name, arr, side in want])
            vals = {(name, side): numpy.asarray(v) for (name, arr, side), v in zip(want, got)}
            X = vals['x', 0]
            P = len(X)
            self.leaf['x'] = [(X, numpy.broadcast_to(numpy.eye(D), (P, D, D)))] * 2
            for name, f in g['fields'].items():
                c0, c1, c2 = _field_coeffs(f, D)
                arr = c0 + (c1 * x).sum(-1) + ((c2 * x[:, numpy.newaxis]) * x).sum(-1).sum(-1)
                setattr(ns, name, arr)
                val = c0 + numpy.einsum('...d,pd->p...', c1, X) + numpy.einsum('...de,pd,pe->p...', c2, X, X)
                grad = c1 + numpy.einsum('...de,pe->p...d', c2, X) + numpy.einsum('...de,pd->p...e', c2, X)
                self.leaf[name] = [(val, grad)] * 2
            for name, arr in extra.items():
                if (name, 0) not in vals:
                    self.opaque[name] = tuple(arr.shape)
                    continue
                here = vals[name, 0]
                there = vals.get((name, 1), here)
                zero = numpy.zeros(numpy.shape(here) + (D,)) if name in g['disc'] else None
                self.leaf[name] = [(here, zero), (there, zero)]
                self.nonsmooth.add(name)
        self.P = P
        for name, v in spec['vars'].items():
            val = values(v['shape'], v['seed'])
            setattr(ns, name, val)
            bval = numpy.broadcast_to(val, (P,) + val.shape)
            zero = numpy.zeros(bval.shape + (self.D,)) if g else None
            self.leaf[name] = [(bval, zero)] * 2
        for name, f in spec['funcs'].items():
            if version == 2:
                setattr(ns, name, make_func(f, 2))
            self.funcs[name] = dict(gen=list(f['gen']), fn=make_func(f, 2), dfn=func_deriv(f), domain=None)
        for name, (fn, dfn, dom) in BUILTIN_FUNCS.items():
            if version == 1 and name in V1_ONLY_MISSING:
                continue
            self.funcs[name] = dict(gen=[], fn=fn, dfn=(None if dfn is None else (lambda u, du, dfn=dfn: dfn(u)[..., None] * du)), domain=dom)
        self.funcs['opposite'] = dict(gen=[], fn=None, dfn=None, domain=None, opposite=True)
        for name in self.gradnames:
            self.funcs[name] = dict(gen=[self.D], fn=None, dfn=None, domain=None, gradient=True)

    def shape(self, name):
        return self.leaf[name][0][0].shape[1:]

    def evaluate_nutils(self, arrays):
        """Evaluate nutils arrays to numpy with a leading point axis."""
        from nutils import function
        if self.sample is None:
            return [numpy.asarray(v)[numpy.newaxis] for v in function.eval(tuple(arrays))]
        return [numpy.asarray(v) for v in self.sample.eval(list(arrays))]


# ---------------------------------------------------------------- index rules (the documented reading)

def _apply_idx(prefix, shape, idx, summed, what):
    """prefix: letters already labelling shape[:len(prefix)]; idx labels the rest. Returns (letters, shape, summed)."""
    letters, lens = list(prefix), list(shape[:len(prefix)])
    for ch, n in zip(idx, shape[len(prefix):]):
        if '0' <= ch <= '9':
            if int(ch) >= n:
                raise Invalid('numeral {} out of range for axis of length {} in {}'.format(ch, n, what))
        elif 'a' <= ch <= 'z':
            letters.append(ch)
            lens.append(n)
        elif 'A' <= ch <= 'Z':
            raise Unclassified('upper case index {!r} in {}'.format(ch, what))
        else:
            raise Invalid('symbol {!r} used as index in {}'.format(ch, what))
    summed = set(summed)
    out, outlen = [], []
    for ch in dict.fromkeys(letters):
        pos = [i for i, c in enumerate(letters) if c == ch]
        if len(pos) > 2 or ch in summed:
            raise Invalid('index {} occurs more than twice in {}'.format(ch, what))
        if len(pos) == 2:
            if lens[pos[0]] != lens[pos[1]]:
                raise Invalid('index {} labels axes of different lengths in {}'.format(ch, what))
            summed.add(ch)
    for ch, n in zip(letters, lens):
        if letters.count(ch) == 1:
            out.append(ch)
            outlen.append(n)
    return ''.join(out), tuple(outlen), frozenset(summed)


def analyse(node, R):
    """Return (letters, shape, summed) of a tree under the documented index rules, or raise Invalid / Unclassified."""
    kind = node[0]
    if kind == 'num':
        return '', (), frozenset()
    if kind == 'var':
        name, idx = node[1], node[2]
        if name in R.opaque:
            raise Unclassified('{} exists in the namespace but cannot be evaluated on this sample'.format(name))
        if name not in R.leaf:
            raise Invalid('unknown variable {!r}'.format(name))
        shape = R.shape(name)
        if len(idx) != len(shape):
            raise Invalid('variable {} has {} axes but {} indices'.format(name, len(shape), len(idx)))
        if len(node) > 3:
            raise Unclassified('underscore without indices after a scalar')
        return _apply_idx('', shape, idx, (), name + '_' + idx)
    if kind == 'call':
        fname, genidx, arg = node[1], node[2], node[3]
        l, sh, sm = analyse(arg, R)
        if fname not in R.funcs:
            raise Invalid('unknown function {!r}'.format(fname))
        f = R.funcs[fname]
        if len(genidx) != len(f['gen']):
            raise Invalid('function {} generates {} axes but got {} indices'.format(fname, len(f['gen']), len(genidx)))
        if len(node) > 4:
            raise Unclassified('underscore without indices after a function name')
        return _apply_idx(l, tuple(sh) + tuple(f['gen']), genidx, sm, fname + '_' + genidx + '(..)')
    if kind == 'scope':
        return analyse(node[2], R)
    if kind == 'pow':
        l, sh, sm = analyse(node[1], R)
        if node[2][0] == 'int':
            return l, sh, sm
        le, she, sme = analyse(node[2], R)
        if le:
            raise Invalid('exponent is not a scalar')
        if sm & sme or set(l) & sme:
            raise Invalid('index occurs more than twice (base and exponent)')
        return l, sh, sm | sme
    if kind == 'prod':
        letters, shape, merged = '', (), set()
        for f in node[1]:
            l, sh, sm = analyse(f, R)
            if merged & sm:
                raise Invalid('index occurs more than twice (summed in two factors)')
            merged |= sm
            letters += l
            shape += tuple(sh)
        return _apply_idx(letters, shape, '', merged, 'product')
    if kind == 'frac':
        l, sh, sm = analyse(node[1], R)
        ld, shd, smd = analyse(node[2], R)
        if ld:
            raise Invalid('denominator is not a scalar')
        if sm & smd or set(l) & (sm | smd):
            raise Invalid('index occurs more than twice (fraction)')
        return l, sh, sm | smd
    if kind == 'sum':
        l0, sh0, sm0 = analyse(node[1][0][1], R)
        summed = set(sm0)
        for sign, term in node[1][1:]:
            l, sh, sm = analyse(term, R)
            if set(l) != set(l0) or len(l) != len(l0):
                raise Invalid('terms have different index sets: {!r} and {!r}'.format(l0, l))
            for ch, n in zip(l, sh):
                if sh0[l0.index(ch)] != n:
                    raise Invalid('index {} has different lengths in two terms'.format(ch))
            summed |= sm
        return l0, sh0, frozenset(summed)
    raise ValueError('unknown node kind {!r}'.format(kind))


# ---------------------------------------------------------------- einsum evaluator

class Domain:
    """Tracks whether the numpy evaluation stayed in the comparison domain."""

    def __init__(self):
        self.ok = True
        self.scale = 1.
        self.why = ''

    def see(self, a):
        a = numpy.asarray(a)
        if a.size:
            if not numpy.isfinite(a).all():
                self.bad('non-finite intermediate')
            else:
                m = float(numpy.max(numpy.abs(a)))
                self.scale = max(self.scale, m)
                if m > 1e6:
                    self.bad('intermediate magnitude > 1e6')
        return a

    def bad(self, why):
        if self.ok:
            self.ok, self.why = False, why


def _ein(ops, out):
    """einsum over labelled operands [(array, letters)] with leading point axis."""
    spec = ','.join(PT + l for a, l in ops) + '->' + PT + out
    return numpy.einsum(spec, *[a for a, l in ops])


def _idx_take(val, prefix, idx, extra=0):
    """Apply numerals (take) and repeated letters (diagonal sum) of `prefix+idx` to val (point axis first, `extra` trailing axes)."""
    nfix = len(prefix)
    letters = list(prefix)
    sel = [slice(None)] * (1 + nfix)
    for ch in idx:
        if '0' <= ch <= '9':
            sel.append(int(ch))
        else:
            sel.append(slice(None))
            letters.append(ch)
    val = val[tuple(sel) + (slice(None),) * extra]
    letters = ''.join(letters)
    out = ''.join(ch for ch in letters if letters.count(ch) == 1)
    tail = GR[:extra]
    return numpy.einsum(PT + letters + tail + '->' + PT + out + tail, val), out


def evaluate(node, R, dom, side=0, want_grad=False):
    """Return (val, letters, grad|None); val has the point axis first, grad the gradient axis last."""
    kind = node[0]
    if kind == 'num':
        text = node[1]
        v = float(text) if any(c in text for c in '.eE') else int(text)
        val = numpy.full((R.P,), v)
        return val, '', (numpy.zeros((R.P, R.D)) if want_grad else None)
    if kind == 'var':
        val, grad = R.leaf[node[1]][side]
        v, out = _idx_take(val, '', node[2])
        g = None
        if want_grad:
            if grad is None:
                raise Unclassified('gradient of {} not modelled'.format(node[1]))
            g, _ = _idx_take(grad, '', node[2], extra=1)
        return dom.see(v), out, g
    if kind == 'call':
        fname, genidx, arg = node[1], node[2], node[3]
        f = R.funcs[fname]
        if f.get('opposite'):
            if R.no_opposite:
                raise Unclassified('opposite side on a boundary sample')
            return evaluate(arg, R, dom, 1 - side, want_grad)
        if f.get('gradient'):
            if want_grad:
                raise Unclassified('second derivatives not modelled')
            v, l, g = evaluate(arg, R, dom, side, True)
            val, out = _idx_take(g, l, genidx)
            return dom.see(val), out, None
        v, l, g = evaluate(arg, R, dom, side, want_grad)
        if f['domain'] is not None and not numpy.all(f['domain'](v)):
            dom.bad('argument of {} outside comparison domain'.format(fname))
        with numpy.errstate(all='ignore'):
            fv = f['fn'](v)
            val, out = _idx_take(fv, l, genidx)
            gg = None
            if want_grad:
                if f['dfn'] is None:
                    raise Unclassified('derivative of {} not modelled'.format(fname))
                gg, _ = _idx_take(f['dfn'](v, g), l, genidx, extra=1)
                dom.see(gg)
        return dom.see(val), out, gg
    if kind == 'scope':
        v, l, g = evaluate(node[2], R, dom, side, want_grad)
        if node[1] == '(':
            return v, l, g
        if R.no_opposite:
            raise Unclassified('jump / mean on a boundary sample')
        vo, lo, go = evaluate(node[2], R, dom, 1 - side, want_grad)
        assert lo == l
        if node[1] == '[':
            return dom.see(vo - v), l, (go - g if want_grad else None)
        return dom.see(.5 * (v + vo)), l, (.5 * (g + go) if want_grad else None)
    if kind == 'pow':
        v, l, g = evaluate(node[1], R, dom, side, want_grad)
        ex = lambda a, k=0: a[(slice(None),) + (None,) * (v.ndim - 1 + k)]
        with numpy.errstate(all='ignore'):
            if node[2][0] == 'int':
                n = int(node[2][1])
                if n < 0:
                    if numpy.min(numpy.abs(v), initial=1.) < .05:
                        dom.bad('base of negative power near zero')
                    if v.dtype.kind in 'iu':
                        raise Unclassified('integer to a negative integer power')
                val = v ** n if n >= 0 or v.dtype.kind == 'f' else v.astype(float) ** n
                gg = None
                if want_grad:
                    gg = (n * v.astype(float) ** (n - 1))[..., None] * g if n != 0 else numpy.zeros_like(g)
                return dom.see(val), l, gg
            e, le, ge = evaluate(node[2], R, dom, side, want_grad)
            isint = e.dtype.kind in 'iu'
            if not isint or numpy.min(e) < 0:
                if isint and v.dtype.kind in 'iu':
                    raise Unclassified('integer to a negative integer power')
                if not isint and numpy.min(v, initial=1.) < .05:
                    dom.bad('non-positive base of a non-integer power')
                if numpy.min(numpy.abs(v), initial=1.) < .05:
                    dom.bad('base of negative power near zero')
            val = numpy.power(v.astype(float) if not isint or numpy.min(e) < 0 else v, ex(e))
            gg = None
            if want_grad:
                # d(b^e) = b^e (e' ln b + e b'/b); the first term only when the exponent varies
                vf = v.astype(float)
                geb = ge.reshape((ge.shape[0],) + (1,) * (v.ndim - 1) + (ge.shape[-1],))
                if numpy.any(ge != 0):
                    if numpy.min(vf, initial=1.) < .05:
                        dom.bad('gradient of a power with varying exponent and non-positive base')
                    term1 = numpy.log(numpy.abs(vf))[..., None] * geb
                else:
                    term1 = 0.
                if numpy.min(numpy.abs(vf), initial=1.) < .05:
                    dom.bad('gradient of a power with base near zero')
                gg = val[..., None] * (term1 + (ex(e) / vf)[..., None] * g)
                dom.see(gg)
            return dom.see(val), l, gg
    if kind == 'prod':
        parts = [evaluate(f, R, dom, side, want_grad) for f in node[1]]
        letters = ''.join(l for v, l, g in parts)
        out = ''.join(ch for ch in letters if letters.count(ch) == 1)
        ops = [(v.astype(float), l) for v, l, g in parts]
        allint = all(v.dtype.kind in 'iu' for v, l, g in parts)
        val = _ein([(v, l) for v, l, g in parts] if allint else ops, out)
        gg = None
        if want_grad:
            gg = 0.
            for k, (v, l, g) in enumerate(parts):
                ops_k = [(g, l + GR) if j == k else o for j, o in enumerate(ops)]
                gg = gg + _ein(ops_k, out + GR)
            dom.see(gg)
        return dom.see(val), out, gg
    if kind == 'frac':
        v, l, g = evaluate(node[1], R, dom, side, want_grad)
        d, ld, gd = evaluate(node[2], R, dom, side, want_grad)
        if numpy.min(numpy.abs(d), initial=1.) < .05:
            dom.bad('denominator near zero')
        dd = d[(slice(None),) + (None,) * (v.ndim - 1)].astype(float)
        with numpy.errstate(all='ignore'):
            val = v / dd
            gg = None
            if want_grad:
                gd_ = gd.reshape((gd.shape[0],) + (1,) * (v.ndim - 1) + (gd.shape[-1],))
                gg = g / dd[..., None] - (v / dd**2)[..., None] * gd_
                dom.see(gg)
        return dom.see(val), l, gg
    if kind == 'sum':
        first = True
        for sign, term in node[1]:
            v, l, g = evaluate(term, R, dom, side, want_grad)
            if first:
                l0 = l
                val = -v if sign == '-' else v
                gg = (-g if sign == '-' else g) if want_grad else None
                first = False
                continue
            if l != l0:
                v = numpy.einsum(PT + l + '->' + PT + l0, v)
                if want_grad:
                    g = numpy.einsum(PT + l + GR + '->' + PT + l0 + GR, g)
            if v.shape != val.shape:
                raise Invalid('shape mismatch between terms')
            val = val - v if sign == '-' else val + v
            if want_grad:
                gg = gg - g if sign == '-' else gg + g
        return dom.see(val), l0, gg
    if kind in EXTRA_EVAL:
        return EXTRA_EVAL[kind](node, R, dom, side, want_grad)
    raise ValueError('unknown node kind {!r}'.format(kind))


EXTRA_EVAL = {}   # v1-only node kinds, registered by vlib.c19_v1


def reference(tree, R, out_letters=None):
    """Numpy meaning of a (valid) tree aligned to out_letters (default alphabetical). Returns (array, letters, Domain)."""
    dom = Domain()
    with numpy.errstate(all='ignore'):
        val, l, _ = evaluate(tree, R, dom)
    target = ''.join(sorted(l)) if out_letters is None else out_letters
    val = numpy.einsum(PT + l + '->' + PT + target, val)
    return val, target, dom
