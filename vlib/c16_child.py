"""Short-lived subprocess that actually forks nutils workers for C16.

usage: python -m vlib.c16_child <job.json> <out.json>

job = {mode: 'batch', cases: [spec...], ns: [...], pseeds: [...], deadline: t, seed: s}
    | {mode: 'fault', case: spec, n: n, pseed: p, fault: {kind, at}}
The result file holds a vlib.runner.Result in JSON form (batch) or one outcome dict (fault).
"""

import os, sys, json, time, hashlib, tempfile, traceback, warnings
import numpy


def flatten(v):
    out = []
    stack = [v]
    while stack:
        x = stack.pop()
        if isinstance(x, (tuple, list)):
            stack.extend(reversed(x))
        else:
            out.append(numpy.array(x, copy=True))
    return out


class EvCase:

    def __init__(self, spec):
        from vlib import c16_programs as P
        self.spec = spec
        self.outs = P.build(spec)
        self.args0 = P.arguments(spec, 0)
        self.args1 = P.arguments(spec, 1)
        self.mode = spec.get('mode', 'once')
        self.exact_exception = False

    def call(self, n):
        from nutils import evaluable as ev, parallel
        if self.mode == 'compile2':
            with parallel.maxprocs(n):
                fn = ev.compile(self.outs)
                v1 = flatten(fn(self.args0))
                v2 = flatten(fn(self.args1))
            return v1 + v2
        if self.mode == 'compile_par_call_ser':
            with parallel.maxprocs(n):
                fn = ev.compile(self.outs)
            with parallel.maxprocs(1):
                return flatten(fn(self.args0))
        with parallel.maxprocs(n):
            return flatten(ev.eval_once(self.outs, arguments=self.args0))


class TopoCaseRunner:

    def __init__(self, spec):
        from vlib import c16_programs as P
        self.spec = spec
        self.case = P.TopoCase(spec)
        self.mode = 'api'
        self.exact_exception = spec['op'].startswith('locate')

    def call(self, n):
        from nutils import parallel
        with parallel.maxprocs(n):
            return flatten(self.case.call())


def make_case(spec):
    return TopoCaseRunner(spec) if spec.get('kind') == 'topo' else EvCase(spec)


def script_features(scripts):
    f = set()
    for s in scripts:
        n = s.count('parallel.ctxrange(')
        if n:
            f.add(f'ctxrange x{min(n, 3)}')
        if 'with lock' in s:
            f.add('with lock')
        for key, name in (('numpy.add.at(', 'add.at'), ('out=', 'ufunc out='), ('numpy.copyto(', 'copyto'), ("numpy.einsum('...ii->...i'", 'diag view'),
                          ('numpy.transpose(', 'transpose view'), ('.fill(0)', 'fill'), ('if first_run', 'first_run'), ('treelog.iter.percentage', 'serial inner loop'),
                          ('parallel.shempty(', 'shempty'), ('= bool(', 'locked condition')):
            if key in s:
                f.add(name)
    return f


def run_one(case, n, pseed, logdir, fault=None, parent_delay_us=0, barrier_ms=1500):
    """One traced parallel evaluation. Returns dict(outcome, value|exc, analysis, info)."""
    from vlib import c16_trace as T, c16_checkers as C
    logpath = os.path.join(logdir, 'events.log')
    flag = os.path.join(logdir, 'victim.flag')
    if os.path.exists(flag):
        os.unlink(flag)
    if fault:
        fault = dict(fault, flag=flag)
    T.begin_run(logpath, pseed=pseed, perturb=True, fault=fault, parent_delay_us=parent_delay_us, barrier_ms=barrier_ms)
    value = exc = tb = None
    outcome = 'raised'
    try:
        value = case.call(n)
        outcome = 'returned'
    except Exception as e:
        exc = e
        tb = traceback.format_exc()
    finally:
        info = T.end_run(outcome == 'returned')
    events = T.read_events(logpath)
    an = C.analyse(events, info, os.getpid(), outcome == 'returned')
    return dict(outcome=outcome, value=value, exc=exc, tb=tb, analysis=an, info=info, nevents=len(events))


def compare(value, ref):
    """-> (verdict, detail) over flattened lists of arrays."""
    from vlib import tolerance
    if len(value) != len(ref):
        return tolerance.VIOLATION, f'{len(value)} outputs instead of {len(ref)}'
    worst = tolerance.PASS
    details = []
    for k, (o, r) in enumerate(zip(value, ref)):
        v, d = tolerance.compare(o, r)
        if v == tolerance.VIOLATION:
            return v, f'output {k}: {d}; parallel={numpy.asarray(o).ravel()[:6].tolist()} serial={numpy.asarray(r).ravel()[:6].tolist()}'
        if v == tolerance.MARGINAL:
            worst = v
            details.append(f'output {k}: {d}')
    return worst, '; '.join(details)


def reference(case):
    """Serial (maxprocs(1)) value, untraced. -> (value|None, exception|None)"""
    try:
        return case.call(1), None
    except Exception as e:
        return None, e


def batch(job, res):
    from vlib import tolerance
    logdir = tempfile.mkdtemp(prefix='c16-', dir='/dev/shm' if os.path.isdir('/dev/shm') else None)
    progress = job.get('progress')
    last_run_s = 0.
    try:
        for spec in job['cases']:
            if time.time() > job['deadline']:
                res.count('cases_skipped_deadline')
                continue
            kind = spec.get('kind', 'ev')
            try:
                case = make_case(spec)
                ref, refexc = reference(case)
            except Exception as e:
                res.count('discarded/build:' + type(e).__name__)
                continue
            if refexc is not None and not (case.exact_exception and type(refexc).__name__ == 'LocateError'):
                res.count('discarded/serial:' + type(refexc).__name__)
                res.note(f'serial evaluation raised {type(refexc).__name__}: {str(refexc)[:200]} for {json.dumps(spec)[:200]}')
                continue
            res.count('programs/' + kind)
            if kind == 'topo':
                res.count('topo_op/' + spec['op'])
                if refexc is not None:
                    res.count('serial_locate_errors')
            for f in spec.get('features', ()):
                res.count('feature/' + f)
            res.count('mode/' + case.mode)
            prog_hash = None
            prog_concurrent = False
            prog_locked = False
            example = None
            for n in spec.get('ns') or job['ns']:
                for pseed in spec.get('pseeds') or job['pseeds']:
                    if time.time() + 1.2 * last_run_s > job['deadline']:
                        res.count('runs_skipped_deadline')
                        continue
                    if progress:
                        with open(progress, 'w') as f:
                            json.dump(dict(spec=spec, n=n, pseed=pseed), f)
                    t_run = time.time()
                    r = run_one(case, n, pseed, logdir)
                    last_run_s = time.time() - t_run
                    an, info = r['analysis'], r['info']
                    runcase = dict(spec={k: v for k, v in spec.items() if k not in ('ns', 'pseeds')}, n=n, pseed=pseed)
                    res.count('evaluations')
                    res.count(f'runs/n={n}')
                    res.count('events', r['nevents'])
                    for k, v in an['stats'].items():
                        if k not in ('pids_claiming', 'pids_writing'):
                            res.count('ev/' + k, v)
                    res.maximum('max_pids_writing', an['stats'].get('pids_writing', 0))
                    res.maximum('max_pids_claiming', an['stats'].get('pids_claiming', 0))
                    if prog_hash is None:
                        scripts = info['scripts']
                        prog_hash = hashlib.sha1('\n'.join(scripts).encode() if scripts else json.dumps(spec, sort_keys=True).encode()).hexdigest()[:16]
                        feats = script_features(scripts)
                        for f in feats:
                            res.add('script_features', f)
                        prog_locked = ('with lock' in feats) or kind == 'topo' and spec['op'].startswith('locate')
                    # --- monitors
                    for monitor, detail in an['problems']:
                        res.violation(monitor, runcase, detail)
                    if refexc is not None:
                        # serial raised LocateError: parallel must raise the same type
                        if r['outcome'] == 'raised' and type(r['exc']).__name__ == type(refexc).__name__:
                            res.count('locate_error_matched')
                            if str(r['exc']) != str(refexc):
                                res.count('locate_error_message_differs')
                        elif r['outcome'] == 'raised':
                            res.violation('result', runcase, f'serial raises {type(refexc).__name__}({refexc}) but parallel raises {type(r["exc"]).__name__}({r["exc"]})')
                        else:
                            res.violation('result', runcase, f'serial raises {type(refexc).__name__}({refexc}) but parallel returned a value')
                    elif r['outcome'] == 'raised':
                        res.violation('result', runcase, f'parallel evaluation (n={n}) raised where serial returned: {r["tb"][-1200:]}')
                    else:
                        v, d = compare(r['value'], ref)
                        res.count('compare/' + v)
                        res.count('arrays_compared', len(ref))
                        for a in ref:
                            res.count('compared_kind/' + tolerance.kind(a))
                        if v == tolerance.VIOLATION:
                            res.violation('result', runcase, f'maxprocs({n}) differs from maxprocs(1): {d}')
                    if an['concurrent']:
                        if example is None:
                            example = dict(n=n, pseed=pseed, claim_sequences=an['claim_sequence'], write_interleaving_per_array=an['signature'][:400], events=r['nevents'])
                        res.count('runs_concurrent')
                        res.count(f'runs_concurrent/n={n}')
                        res.add('interleavings', hashlib.sha1(f'{prog_hash} {n} {an["signature"]}'.encode()).hexdigest()[:12])
                        prog_concurrent = True
                    else:
                        res.count('runs_no_concurrency_observed')
                    if an['stats'].get('array_modified_without_logged_write'):
                        res.note(f'array modified without logged write: {json.dumps(runcase)[:300]}')
            if prog_hash is not None:
                res.add('programs_all', prog_hash)
                if prog_concurrent and prog_locked:
                    res.add('distinct', prog_hash)
                if len(res.samples) < 2 and prog_concurrent and example is not None:
                    res.sample(dict(spec={k: v for k, v in spec.items() if k not in ('ns', 'pseeds')}, program_hash=prog_hash, example_run=example))
    finally:
        import shutil
        shutil.rmtree(logdir, ignore_errors=True)


def fault_run(job):
    """Exactly one fault experiment; returns an outcome dict (JSON)."""
    from vlib import tolerance
    logdir = tempfile.mkdtemp(prefix='c16f-', dir='/dev/shm' if os.path.isdir('/dev/shm') else None)
    try:
        spec = dict(job['case'])
        if spec.get('kind', 'ev') == 'ev':
            spec['mode'] = 'once'
        try:
            case = make_case(spec)
            ref, refexc = reference(case)
        except Exception as e:
            return dict(status='discarded', why='build:' + type(e).__name__)
        if refexc is not None:
            return dict(status='discarded', why='serial:' + type(refexc).__name__)
        r = run_one(case, job['n'], job['pseed'], logdir, fault=job['fault'], parent_delay_us=job.get('parent_delay_us', 3000), barrier_ms=2000)
        an = r['analysis']
        out = dict(status='done', outcome=r['outcome'], injected=bool(an['faults']), faults=an['faults'], stats=an['stats'],
                   problems=[p for p in an['problems'] if p[0] != 'join'], claim_sequence=an['claim_sequence'], unreaped=len(r['info']['unreaped']))
        if r['outcome'] == 'raised':
            out['exception'] = f'{type(r["exc"]).__name__}: {str(r["exc"])[:200]}'
        else:
            v, d = compare(r['value'], ref)
            out['value_vs_serial'] = v
            out['detail'] = d
        return out
    finally:
        import shutil
        shutil.rmtree(logdir, ignore_errors=True)


def main(argv):
    from vlib.runner import setup_paths, Result
    setup_paths()
    warnings.simplefilter('ignore')
    import treelog
    with open(argv[0]) as f:
        job = json.load(f)
    with treelog.set(treelog.NullLog()):
        # silence the "[parallel.fork] exception in child process" prints of injected faults
        devnull = os.open(os.devnull, os.O_WRONLY)
        os.dup2(devnull, 1)
        if job['mode'] == 'batch':
            res = Result()
            batch(job, res)
            out = res.to_json()
        else:
            out = fault_run(job)
    tmp = argv[1] + '.tmp'
    with open(tmp, 'w') as f:
        json.dump(out, f, default=str)
    os.replace(tmp, argv[1])


if __name__ == '__main__':
    main(sys.argv[1:])
