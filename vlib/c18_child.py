"""C18 fresh-interpreter helper: ``python -m vlib.c18_child <job.json> <out.json>``.

job = {mode: 'read', spec, cachedir, form}            -> Outcome of one memoised call in a new process
      {mode: 'write_kill', spec, cachedir, k, how}    -> never reports: dies inside pickle.dump after k bytes
      {mode: 'rec_run', spec, cachedir, n}            -> one Recursion run
"""
import sys, os, json


def main(argv):
    from vlib import runner
    runner.setup_paths()
    with open(argv[0]) as f:
        job = json.load(f)
    from nutils import cache
    from vlib import c18_lib as L
    L.guard_address_space()
    if job['mode'] in ('read', 'write_kill'):
        from vlib import c18_payloads as P
        P.set_variant(job.get('variant', 'short'))
        pl = P.Payload(job['spec'])
        if job['mode'] == 'write_kill':
            L.install_killer(job['k'], how=job.get('how', 'exit'))
        with cache.enable(job['cachedir']):
            out = L.observe(lambda: pl.call(job.get('form', 0)), pl.counter).to_json()
    elif job['mode'] == 'rec_run':
        from vlib import c18_rec as R
        out = R.run(job['spec'], job['n'], job['cachedir'])
    else:
        raise SystemExit('bad mode')
    tmp = argv[1] + '.tmp'
    with open(tmp, 'w') as f:
        json.dump(out, f)
    os.replace(tmp, argv[1])


if __name__ == '__main__':
    main(sys.argv[1:])
