"""C14 workload generators: small dense matrices with prescribed pathology, and System models whose
residual is written ONCE as a python closure over array-likes and evaluated twice: through nutils
(function.Argument -> evaluable -> compiled code) and directly with numpy arrays (the oracle)."""

import numpy


# ------------------------------------------------------------------ matrices

MKINDS = ['spd', 'nonsym', 'diagdom', 'illcond', 'singular', 'singfree', 'zerorc', 'identity']
MKIND_P = [.18, .18, .14, .14, .10, .08, .12, .06]


def rand_orth(rng, n, cplx):
    B = rng.normal(size=(n, n))
    if cplx:
        B = B + 1j * rng.normal(size=(n, n))
    Q, R = numpy.linalg.qr(B)
    return Q


def gen_matrix(rng, n, kind, cplx):
    """returns (A, info) with A a dense n x n array"""
    info = {}
    def noise(shape):
        B = rng.normal(size=shape)
        if cplx:
            B = B + 1j * rng.normal(size=shape)
        return B
    if kind == 'spd':
        B = noise((n, n))
        shift = float(rng.choice([1e-3, 1., float(n)]))
        A = B @ B.conj().T + shift * numpy.eye(n)
    elif kind == 'nonsym':
        A = noise((n, n)) + float(rng.choice([0., 2., float(n)])) * numpy.eye(n)
    elif kind == 'diagdom':
        A = numpy.where(rng.random((n, n)) < .4, noise((n, n)), 0.)
        numpy.fill_diagonal(A, 0.)
        A = A + numpy.diag(numpy.abs(A).sum(1) + 1.)
    elif kind == 'illcond':
        k = int(rng.choice([4, 8, 11, 14]))
        s = numpy.logspace(0, -k, n) if n > 1 else numpy.array([10. ** -k])
        A = (rand_orth(rng, n, cplx) * s) @ rand_orth(rng, n, cplx).conj().T
        A = A * 10. ** int(rng.integers(-3, 4))
        info['logcond'] = k
    elif kind == 'singular':
        A = rng.integers(-3, 4, size=(n, n)).astype(complex if cplx else float)
        if n == 1:
            A[:] = 0.
        elif rng.random() < .5:
            i, j = rng.choice(n, size=2, replace=False)
            A[j] = A[i]          # exactly repeated row
        else:
            A[int(rng.integers(n))] = 0.   # zero row
    elif kind == 'singfree':
        A = noise((n, n)) + 2. * numpy.eye(n)
    elif kind == 'zerorc':
        if rng.random() < .5:
            B = noise((n, n))
            A = B @ B.conj().T + numpy.eye(n)
        else:
            A = noise((n, n)) + float(n) * numpy.eye(n)
        Z = rng.random(n) < .35
        if not Z.any():
            Z[int(rng.integers(n))] = True
        A[Z, :] = 0.
        A[:, Z] = 0.
        info['Z'] = Z
    elif kind == 'identity':
        A = numpy.eye(n, dtype=complex if cplx else float) * float(rng.choice([1., 1e-6, 1e6, -2., 1e-150]))
    else:
        raise ValueError(kind)
    return numpy.array(A, dtype=complex if cplx else float), info


def assemble(A):
    """dense -> nutils matrix in the CURRENT backend (via COO of the nonzero pattern)"""
    from nutils import matrix
    r, c = numpy.nonzero(A)
    return matrix.assemble_coo(A[r, c], r, A.shape[0], c, A.shape[1])


SOLVER_PAIRS = {
    'numpy': [('direct', 'direct'), ('direct', 'diag'), ('arnoldi', 'direct'), ('arnoldi', 'diag'), ('arnoldi', None), ('direct', None)],
    'scipy': [(s, p) for s in ('direct', 'arnoldi') for p in ('direct', 'diag', 'splu', 'spilu', 'spilu0', None)]
             + [(s, p) for s in ('bicg', 'bicgstab', 'cg', 'cgs', 'gmres', 'lgmres') for p in (None, 'direct', 'diag', 'splu', 'spilu', 'spilu0')],
}
EXACT_PRECON = (None, 'direct', 'splu')   # None = the default of direct/arnoldi = 'direct'


def exact_config(solver, precon, truncate):
    """solver configurations that claim an exact solve when atol = rtol = 0"""
    if solver == 'direct':
        return precon in EXACT_PRECON
    if solver == 'arnoldi':
        return precon in EXACT_PRECON or truncate is None
    return True   # scipy iterative solvers only return on status 0


def tolist(a):
    a = numpy.asarray(a)
    if a.dtype.kind == 'c':
        return [tolist(a.real), tolist(a.imag)]
    if a.dtype == bool:
        return a.astype(int).tolist()
    return a.tolist()


# ------------------------------------------------------------------ System models

def mv(A, u):
    """matrix-vector product usable for numpy arrays and nutils function arrays alike"""
    return (A * u[None, :]).sum(1)


class Model:
    """trials: tuple of names; shapes: dict; F(a) -> list of per-trial residual vectors (a: dict name -> array-like);
    V(a) -> scalar functional or None; G(a) -> numpy gradient of V (hand-derived) ; extra: dict of non-trial argument shapes;
    coef: magnitude of coefficients; deg: growth degree for the rounding-slack estimate"""

    def __init__(self, kind, trials, shapes, F=None, V=None, G=None, extra=None, coef=1., deg=1, linear=None, root=None):
        self.kind, self.trials, self.shapes, self.F, self.V, self.G = kind, tuple(trials), shapes, F, V, G
        self.extra = extra or {}
        self.coef, self.deg, self.linear, self.root = coef, deg, linear, root

    def symbols(self):
        from nutils import function
        a = {t: function.Argument(t, self.shapes[t]) for t in self.trials}
        for k, shp in self.extra.items():
            a[k] = function.Argument(k, shp)
        return a

    def system(self):
        from nutils import solver
        a = self.symbols()
        if self.V is not None:
            return solver.System(self.V(a), trial=','.join(self.trials))
        return solver.System(self.F(a), trial=','.join(self.trials))

    def residual(self, args):
        """oracle: (concatenated residual vector, magnitude estimate for rounding slack)"""
        a = {k: numpy.asarray(v, dtype=float) for k, v in args.items() if k in self.shapes or k in self.extra}
        with numpy.errstate(all='ignore'):
            parts = self.G(a) if self.V is not None else self.F(a)
            r = numpy.concatenate([numpy.asarray(p, dtype=float).ravel() for p in parts])
            xm = max([1.] + [float(numpy.max(numpy.abs(v))) for v in a.values() if numpy.size(v) and numpy.isfinite(v).all()])
            n = sum(int(numpy.prod(self.shapes[t])) for t in self.trials)
        return r, n * self.coef * xm ** self.deg

    def oracle(self):
        o = dict(trials=self.trials, residual=self.residual)
        if self.linear is not None:
            o['linear'] = self.linear
        return o


def diagdom(rng, n, density=.6):
    A = numpy.where(rng.random((n, n)) < density, rng.normal(size=(n, n)), 0.)
    numpy.fill_diagonal(A, 0.)
    return A + numpy.diag(numpy.abs(A).sum(1) + rng.uniform(.5, 2., size=n))


NONLINEAR_KINDS = ['cubic', 'cubic_arg', 'polyroots', 'log', 'recip', 'sqrt', 'noroot', 'arctan', 'exp', 'signsqrt', 'coupled2',
                   'quartic', 'doublewell', 'logbarrier']
NONLINEAR_P = [.14, .06, .08, .12, .07, .07, .05, .06, .05, .04, .08, .08, .05, .05]


def nonlinear_model(rng, kind):
    n = int(rng.integers(1, 5))
    if kind in ('cubic', 'cubic_arg'):
        A = diagdom(rng, n)
        c = rng.uniform(0., 2., size=n)
        root = rng.normal(size=n)
        b = A @ root + c * root ** 3
        if kind == 'cubic':
            return Model(kind, ['u'], {'u': (n,)}, F=lambda a: [mv(A, a['u']) + c * a['u'] ** 3 - b], coef=float(numpy.abs(A).max() + 2 + numpy.abs(b).max()), deg=3, root={'u': root})
        m = Model(kind, ['u'], {'u': (n,)}, F=lambda a: [mv(A, a['u']) + c * a['u'] ** 3 - a['f']], extra={'f': (n,)}, coef=float(numpy.abs(A).max() + 2 + numpy.abs(b).max()), deg=3, root={'u': root})
        m.extra_values = {'f': b}
        return m
    if kind == 'polyroots':
        r0 = numpy.sort(rng.normal(size=(3, n)) * 2, axis=0)
        s = rng.uniform(.5, 2., size=n)
        return Model(kind, ['u'], {'u': (n,)}, F=lambda a: [s * (a['u'] - r0[0]) * (a['u'] - r0[1]) * (a['u'] - r0[2])], coef=float(2 * (1 + numpy.abs(r0).max()) ** 3), deg=3, root={'u': r0[1]})
    if kind == 'log':
        c = rng.uniform(-3., 3., size=n)
        return Model(kind, ['u'], {'u': (n,)}, F=lambda a: [numpy.log(a['u']) - c], coef=8., deg=1, root={'u': numpy.exp(c)})
    if kind == 'recip':
        c = rng.uniform(.2, 3., size=n)
        return Model(kind, ['u'], {'u': (n,)}, F=lambda a: [1 / a['u'] - c], coef=8., deg=1, root={'u': 1 / c})
    if kind == 'sqrt':
        c = rng.uniform(.2, 3., size=n)
        return Model(kind, ['u'], {'u': (n,)}, F=lambda a: [numpy.sqrt(a['u']) - c], coef=8., deg=1, root={'u': c ** 2})
    if kind == 'noroot':
        c = rng.uniform(.1, 2., size=n)
        return Model(kind, ['u'], {'u': (n,)}, F=lambda a: [a['u'] ** 2 + c], coef=4., deg=2)
    if kind == 'arctan':
        return Model(kind, ['u'], {'u': (n,)}, F=lambda a: [numpy.arctan(a['u'])], coef=4., deg=1, root={'u': numpy.zeros(n)})
    if kind == 'exp':
        c = rng.uniform(.1, 5., size=n)
        return Model(kind, ['u'], {'u': (n,)}, F=lambda a: [numpy.exp(a['u']) - c], coef=8., deg=3, root={'u': numpy.log(c)})
    if kind == 'signsqrt':
        return Model(kind, ['u'], {'u': (n,)}, F=lambda a: [numpy.sign(a['u']) * numpy.sqrt(numpy.abs(a['u']))], coef=4., deg=1, root={'u': numpy.zeros(n)})
    if kind == 'coupled2':
        n2 = int(rng.integers(1, 4))
        A = diagdom(rng, n + n2)
        A11, A12, A21, A22 = A[:n, :n], A[:n, n:], A[n:, :n], A[n:, n:]
        ru, rv = rng.normal(size=n), rng.normal(size=n2)
        b1 = A11 @ ru + A12 @ rv + ru ** 3
        b2 = A21 @ ru + A22 @ rv
        return Model(kind, ['u', 'v'], {'u': (n,), 'v': (n2,)},
                     F=lambda a: [mv(A11, a['u']) + mv(A12, a['v']) + a['u'] ** 3 - b1, mv(A21, a['u']) + mv(A22, a['v']) - b2],
                     coef=float(numpy.abs(A).max() + 2 + max(numpy.abs(b1).max(), numpy.abs(b2).max())), deg=3, root={'u': ru, 'v': rv})
    if kind == 'quartic':
        B = rng.normal(size=(n, n))
        A = B @ B.T + numpy.eye(n)
        c = rng.uniform(0., 2., size=n)
        root = rng.normal(size=n)
        b = A @ root + c * root ** 3
        return Model(kind, ['u'], {'u': (n,)}, V=lambda a: .5 * (a['u'] * mv(A, a['u'])).sum() + (c * a['u'] ** 4).sum() / 4 - (b * a['u']).sum(),
                     G=lambda a: [A @ a['u'] + c * a['u'] ** 3 - b], coef=float(numpy.abs(A).max() + 2 + numpy.abs(b).max()), deg=3, root={'u': root})
    if kind == 'doublewell':
        B = rng.normal(size=(n, n))
        A = .1 * (B + B.T)
        return Model(kind, ['u'], {'u': (n,)}, V=lambda a: ((a['u'] ** 2 - 1) ** 2).sum() / 4 + .5 * (a['u'] * mv(A, a['u'])).sum(),
                     G=lambda a: [a['u'] ** 3 - a['u'] + A @ a['u']], coef=float(2 + numpy.abs(A).max()), deg=3)
    if kind == 'logbarrier':
        c = rng.uniform(.2, 3., size=n)
        return Model(kind, ['u'], {'u': (n,)}, V=lambda a: .5 * (a['u'] * a['u']).sum() - (c * numpy.log(a['u'])).sum(),
                     G=lambda a: [a['u'] - c / a['u']], coef=8., deg=1, root={'u': numpy.sqrt(c)})
    raise ValueError(kind)


def initial_guess(rng, model):
    """dict trial -> array or absent; chosen to reach the failure branches: NaN/inf at the start, after a step, divergence"""
    kind = model.kind
    out = {}
    for t in model.trials:
        n = model.shapes[t][0]
        root = None if model.root is None else model.root.get(t)
        mode = str(rng.choice(['none', 'near', 'far', 'random', 'root']))
        if kind == 'log':
            mode = str(rng.choice(['neg', 'zero', 'one', 'near', 'mixed']))
            u = {'neg': -numpy.ones(n) * rng.uniform(.5, 2.), 'zero': numpy.zeros(n), 'one': numpy.ones(n),
                 'near': root * rng.uniform(.7, 1.3, size=n), 'mixed': numpy.where(rng.random(n) < .5, -1., 2.)}[mode]
        elif kind in ('recip', 'sqrt', 'logbarrier'):
            mode = str(rng.choice(['zero', 'near', 'big', 'neg', 'none']))
            u = {'zero': numpy.zeros(n), 'near': root * rng.uniform(.7, 1.3, size=n), 'big': root * rng.uniform(2.5, 30.), 'neg': -numpy.ones(n), 'none': None}[mode]
        elif kind == 'arctan':
            mode = str(rng.choice(['small', 'cycle', 'diverge']))
            u = {'small': rng.uniform(-1, 1, size=n), 'cycle': numpy.full(n, 1.3917452002707), 'diverge': rng.uniform(1.5, 4., size=n)}[mode]
        elif kind == 'signsqrt':
            u = rng.uniform(.1, 2., size=n) * rng.choice([-1., 1.], size=n)
            mode = 'cycle'
        elif kind == 'exp':
            mode = str(rng.choice(['near', 'lowneg', 'none']))
            u = {'near': root + rng.normal(size=n) * .3, 'lowneg': numpy.full(n, -float(rng.choice([5., 40., 800.]))), 'none': None}[mode]
        elif mode == 'none' or (root is None and mode in ('near', 'root')):
            u, mode = (None, 'none') if rng.random() < .6 else (rng.normal(size=n), 'random')
        elif mode == 'near':
            u = root + rng.normal(size=n) * .05
        elif mode == 'far':
            u = (root if root is not None else numpy.zeros(n)) + rng.normal(size=n) * 20.
        elif mode == 'root':
            u = root.copy()
        else:
            u = rng.normal(size=n) * 2.
        if u is not None:
            out[t] = numpy.array(u, dtype=float)
        model.guess_mode = mode
    return out


def gen_constrain(rng, shapes, trials, arguments, p=.5):
    """random constraints per trial: None, bool, NaN-float"""
    cons = {}
    kinds = {}
    for t in trials:
        n = shapes[t][0]
        k = str(rng.choice(['none', 'bool', 'float'], p=[1 - p, p / 2, p / 2]))
        kinds[t] = k
        if k == 'bool':
            cons[t] = rng.random(n) < .4
        elif k == 'float':
            c = numpy.full(n, numpy.nan)
            m = rng.random(n) < .4
            c[m] = rng.normal(size=int(m.sum()))
            cons[t] = c
    return cons, kinds


LINSYS_KINDS = ['spd', 'nonsym', 'diagdom', 'singular', 'zerocols', 'illcond']


def linear_model(rng, symmetric_form, with_param, kind):
    """A(y) U = b(y) over one or two trials; symmetric_form: given as scalar functional (A symmetric)"""
    two = rng.random() < .35
    n1 = int(rng.integers(1, 6))
    n2 = int(rng.integers(1, 4)) if two else 0
    N = n1 + n2
    def mk(kind):
        if kind == 'spd' or (symmetric_form and kind in ('nonsym', 'diagdom')):
            B = rng.normal(size=(N, N))
            return B @ B.T + numpy.eye(N) * float(rng.choice([.1, 1., N]))
        if kind == 'nonsym':
            return rng.normal(size=(N, N)) + 2 * numpy.eye(N)
        if kind == 'diagdom':
            return diagdom(rng, N)
        if kind == 'illcond':
            k = int(rng.choice([4, 8, 12]))
            Q = rand_orth(rng, N, False)
            s = numpy.logspace(0, -k, N) if N > 1 else numpy.array([10. ** -k])
            return (Q * s) @ (Q.T if symmetric_form else rand_orth(rng, N, False).T)
        if kind == 'singular':
            A = rng.integers(-2, 3, size=(N, N)).astype(float)
            A = A + A.T if symmetric_form else A
            if N > 1:
                i, j = rng.choice(N, size=2, replace=False)
                A[j] = A[i]
                if symmetric_form:
                    A[:, j] = A[:, i]
                    A[j, j] = A[i, i] = A[i, j]
            else:
                A[:] = 0
            return A
        if kind == 'zerocols':
            B = rng.normal(size=(N, N))
            A = B @ B.T + numpy.eye(N)
            K = rng.random(N) < .5          # participating dofs
            if not K.any():
                K[int(rng.integers(N))] = True
            A[~K, :] = 0.
            A[:, ~K] = 0.
            tiny = float(rng.choice([0., 1e-15, 1e-9]))
            if tiny:
                E = rng.normal(size=(N, N)) * tiny
                A = A + (E + E.T if symmetric_form else E)
            return A
        raise ValueError(kind)
    A0 = mk(kind)
    if symmetric_form:
        A0 = .5 * (A0 + A0.T)
    b0 = rng.normal(size=N) if rng.random() < .85 else numpy.zeros(N)
    if kind == 'zerocols':
        b0 = numpy.where(numpy.abs(A0).max(1) > 1e-6, b0, 0.)
    A1 = b1 = None
    if with_param:
        A1 = rng.normal(size=(N, N)) * .05
        if symmetric_form:
            A1 = .5 * (A1 + A1.T)
        b1 = rng.normal(size=N)
    trials = ['u', 'v'] if two else ['u']
    shapes = {'u': (n1,)} if not two else {'u': (n1,), 'v': (n2,)}
    sl = {'u': slice(0, n1), 'v': slice(n1, N)}

    def AB(a):
        if with_param:
            return A0 + a['y'] * A1, b0 + a['y'] * b1
        return A0, b0

    def F(a):
        A, b = AB(a)
        return [sum(mv(A[sl[ti], sl[tj]], a[tj]) for tj in trials) - b[sl[ti]] for ti in trials]

    def V(a):
        A, b = AB(a)
        return sum(.5 * (a[ti] * sum(mv(A[sl[ti], sl[tj]], a[tj]) for tj in trials)).sum() - (b[sl[ti]] * a[ti]).sum() for ti in trials)

    def G(a):
        A, b = AB(a)
        U = numpy.concatenate([a[t] for t in trials])
        r = A @ U - b
        return [r[sl[t]] for t in trials]

    m = Model('lin-' + kind, trials, shapes, F=None if symmetric_form else F, V=V if symmetric_form else None, G=G if symmetric_form else None,
              extra={'y': ()} if with_param else {}, coef=float(numpy.abs(A0).max() + numpy.abs(b0).max() + 2), deg=1)
    m.A0, m.b0, m.A1, m.b1, m.N = A0, b0, A1, b1, N
    m.dense = lambda y=0.: (A0 + y * A1, b0 + y * b1) if with_param else (A0, b0)
    return m
