"""Basis-parameter generator and the documented-interface model of the spline parameters (checks/c12.py)."""

import numpy
from vlib.c12_oracle import Spline1D, Refused

DEG_W = [.07, .2, .3, .26, .17]


def _deg(rng, lo=0, hi=4):
    w = numpy.array(DEG_W[lo:hi + 1])
    return int(rng.choice(numpy.arange(lo, hi + 1), p=w / w.sum()))


def _knots(rng, n):
    return [float(v) for v in numpy.round(numpy.cumsum(rng.uniform(.3, 2., n + 1)) - 1., 6)]


def _coarse_sizes(n):
    out = [n]
    while out[-1] % 2 == 0:
        out.append(out[-1] // 2)
    return out


def gen_spline_kwargs(rng, shape, topo_periodic, hier=False, std=False, maxdeg=4, invalid_rate=.05):
    """kwargs (JSON-able) for basis('spline'|'std') on a structured topology of `shape`"""
    nd = len(shape)
    hi = maxdeg if nd < 3 else min(maxdeg, 3)
    lo = 1 if std and rng.random() > invalid_rate else 0
    if rng.random() < .55:
        degree = _deg(rng, lo, hi)
        degs = [degree] * nd
    else:
        degs = [_deg(rng, lo, hi) for _ in range(nd)]
        degree = list(degs)
    kw = dict(degree=degree)
    # continuity
    conts = [-1] * nd
    if not std:
        r = rng.random()
        if r < .35:
            pass
        elif r < .75:
            pmin = min(degs)
            if rng.random() < invalid_rate:
                c = int(rng.choice([pmin, -pmin - 2, max(degs)]))
            else:
                c = int(rng.integers(-pmin - 1, pmin)) if pmin > 0 else -1
            kw['continuity'] = c
            conts = [c] * nd
        else:
            conts = [(int(rng.integers(-p - 1, p)) if p > 0 else -1) for p in degs]
            kw['continuity'] = list(conts)
    else:
        conts = [0] * nd
    # explicit periodic argument
    periodic = list(topo_periodic)
    if rng.random() < .12 and not hier:
        periodic = [d for d in range(nd) if rng.random() < .4]
        kw['periodic'] = list(periodic)
    # knot values
    if rng.random() < .5:
        kv = []
        for d, n in enumerate(shape):
            if rng.random() < .3:
                kv.append(None)
            else:
                m = int(rng.choice(_coarse_sizes(n))) if rng.random() < .3 else n
                if rng.random() < invalid_rate / 2:
                    m = n + 1
                kv.append(_knots(rng, m))
        if any(k is not None for k in kv):
            if nd > 1 and all(k == kv[0] for k in kv) or (nd == 1 and rng.random() < .3):
                kw['knotvalues'] = kv[0]
            else:
                kw['knotvalues'] = kv
    # knot multiplicities
    if rng.random() < .5:
        km = []
        for d, (n, p) in enumerate(zip(shape, degs)):
            if rng.random() < .3:
                km.append(None)
                continue
            m = int(rng.choice(_coarse_sizes(n))) if rng.random() < .3 else n
            hi_m = p + 1 if rng.random() < .25 else max(p, 1)
            mult = [int(rng.integers(1, hi_m + 1)) for _ in range(m + 1)]
            if rng.random() < invalid_rate / 2:
                mult[int(rng.integers(0, m + 1))] = int(rng.choice([0, p + 2]))
            if d in periodic and rng.random() < .9:
                mult[-1] = mult[0]
                if mult[0] == p + 1 and rng.random() < .7:
                    mult[0] = mult[-1] = max(1, p)
            km.append(mult)
        if any(k is not None for k in km):
            if nd == 1 and rng.random() < .3:
                kw['knotmultiplicities'] = km[0]
            else:
                kw['knotmultiplicities'] = km
    # removedofs
    if not hier and rng.random() < .2:
        try:
            models = spline_model(kw, shape, topo_periodic, std=std)
        except Refused:
            models = None
        if models:
            rd = []
            for S in models:
                if rng.random() < .4 or S.nd < 2:
                    rd.append(None)
                else:
                    k = int(rng.integers(1, min(3, S.nd)))
                    rd.append(sorted(set(int(v) for v in rng.integers(-S.nd, S.nd, size=k))))
                    if len(set(v % S.nd for v in rd[-1])) >= S.nd:
                        rd[-1] = [0]
            if any(r is not None for r in rd):
                kw['removedofs'] = rd[0] if (nd == 1 and rng.random() < .3) else rd
    return kw


def _per_dim(val, nd, scalar_types):
    if val is None or isinstance(val[0], scalar_types):
        return [val] * nd
    if len(val) != nd:
        raise Refused('sequence length does not match the number of dimensions')
    return list(val)


def spline_model(kw, shape, topo_periodic, std=False):
    """Per-dimension Spline1D models for basis('spline', **kw) on a structured topology (documented reading of
    the arguments); raises Refused when the arguments are outside the documented domain."""
    nd = len(shape)
    degree = kw['degree']
    degs = [degree] * nd if isinstance(degree, int) else list(degree)
    if len(degs) != nd:
        raise Refused('degree length')
    if any(p < 0 for p in degs):
        raise Refused('negative degree')
    cont = 0 if std else kw.get('continuity', -1)
    conts = [cont] * nd if isinstance(cont, int) else list(cont)
    if len(conts) != nd:
        raise Refused('continuity length')
    kv = _per_dim(kw.get('knotvalues'), nd, (int, float))
    km = _per_dim(kw.get('knotmultiplicities'), nd, int)
    periodic = kw.get('periodic')
    if periodic is None:
        periodic = topo_periodic
    return [Spline1D(n, p, c, k, m, d in periodic) for d, (n, p, c, k, m) in enumerate(zip(shape, degs, conts, kv, km))]


def removed_mask(kw, models):
    """boolean keep-mask over the tensor dofs implied by removedofs (None when nothing is removed)"""
    rd = kw.get('removedofs')
    if rd is None:
        return None
    nd = len(models)
    rd = _per_dim(rd, nd, int)
    if not any(rd):
        return None
    mask = numpy.ones([S.nd for S in models], dtype=bool)
    for d, (idofs, S) in enumerate(zip(rd, models)):
        if idofs:
            for i in idofs:
                if not -S.nd <= i < S.nd:
                    raise Refused('removedofs out of range')
                sl = [slice(None)] * nd
                sl[d] = i % S.nd
                mask[tuple(sl)] = False
    return mask.ravel()


# ---------------------------------------------------------------- basis menus

def gen_basis(rng, T, tier):
    """Returns dict(btype, kwargs, expect_refusal)."""
    k = T.kind
    if T.factors:
        shape = [n for f in T.factors for n in (f.struct['shape'] if f.struct else [])]
        bt = str(rng.choice(['spline', 'std', 'discont'], p=[.5, .25, .25]))
        allstruct = all(f.struct for f in T.factors)
        if not allstruct:
            bt = str(rng.choice(['std', 'discont']))
            deg = _deg(rng, 1 if bt == 'std' else 0, 3)
            return dict(btype=bt, kwargs=dict(degree=deg if bt != 'spline' else 1))
        if rng.random() < .5 or bt == 'discont':
            degree = _deg(rng, 1 if bt == 'std' else 0, 3)
        else:
            degree = [_deg(rng, 1 if bt == 'std' else 0, 3) for _ in range(T.nd)]
        kw = dict(degree=degree)
        if bt == 'spline' and rng.random() < .4:
            nd = T.nd
            kw['knotvalues'] = [(_knots(rng, n) if rng.random() < .6 else None) for n in shape]
        return dict(btype=bt, kwargs=kw)
    if T.mp is not None:
        return gen_multipatch_basis(rng, T)
    if T.struct is not None:
        shape, periodic = T.struct['shape'], T.struct['periodic']
        if T.hier:
            bt = str(rng.choice(['th-spline', 'h-spline', 'th-std', 'h-std', 'discont', 'h-discont', 'th-discont'], p=[.32, .25, .16, .15, .04, .04, .04]))
            core = bt.split('-')[-1]
            if core == 'discont':
                return dict(btype=bt, kwargs=dict(degree=_deg(rng, 0, 3)))
            kw = gen_spline_kwargs(rng, shape, periodic, hier=True, std=(core == 'std'), maxdeg=3 if T.nd < 3 else 2, invalid_rate=.02)
            if bt.startswith('th-') and rng.random() < .15:
                kw['truncation_tolerance'] = float(rng.choice([0., 1e-14]))
            return dict(btype=bt, kwargs=kw)
        if 'boundary' in T.kind:
            bt = str(rng.choice(['spline', 'std', 'discont', 'legendre', 'lagrange', 'bernstein'], p=[.45, .25, .1, .04, .08, .08]))
        else:
            bt = str(rng.choice(['spline', 'std', 'discont', 'legendre', 'lagrange', 'bernstein'], p=[.56, .12, .08, .06, .09, .09]))
        if bt in ('spline', 'std'):
            return dict(btype=bt, kwargs=gen_spline_kwargs(rng, shape, periodic, std=(bt == 'std'), maxdeg=4 if not T.trimmed else 3))
        if bt == 'legendre':
            return dict(btype=bt, kwargs=dict(degree=_deg(rng, 0, 4)), expect_refusal=(T.nd != 1))
        if bt == 'discont':
            return dict(btype=bt, kwargs=dict(degree=_deg(rng, 0, 4 if T.nd < 3 else 3)))
        deg = _deg(rng, 0 if rng.random() < .05 else 1, 4 if T.nd < 3 else 2)
        return dict(btype=bt, kwargs=dict(degree=deg), expect_refusal=(deg == 0))
    # unstructured: simplex / mixed, possibly hierarchical
    maxdeg = 4 if T.nd < 3 else 3
    if T.hier:
        bt = str(rng.choice(['th-std', 'h-std', 'th-lagrange', 'h-lagrange', 'th-bernstein', 'h-bernstein', 'discont', 'h-discont', 'th-discont'],
                            p=[.3, .25, .08, .08, .08, .08, .05, .04, .04]))
        lo = 0 if 'discont' in bt else 1
        return dict(btype=bt, kwargs=dict(degree=_deg(rng, lo, 3 if T.nd < 3 else 2)))
    if T.kind.endswith('boundary-all'):
        # union of the sides of a structured mesh: only element-local constructors are reachable
        bt = str(rng.choice(['discont', 'std'], p=[.7, .3]))
        return dict(btype=bt, kwargs=dict(degree=_deg(rng, 0 if bt == 'discont' else 1, 3)), expect_refusal=(bt == 'std'))
    simplex = T.simplices is not None
    names = ['std', 'lagrange', 'bernstein', 'discont', 'bubble', 'spline']
    bt = str(rng.choice(names, p=[.3, .15, .15, .15, .15, .1]))
    if bt == 'bubble':
        return dict(btype=bt, kwargs={}, expect_refusal=not simplex)
    if bt == 'spline':
        deg = int(rng.choice([1, 1, 1, 2]))
        return dict(btype=bt, kwargs=dict(degree=deg), expect_refusal=(deg != 1))
    if bt == 'discont':
        return dict(btype=bt, kwargs=dict(degree=_deg(rng, 0, maxdeg)))
    deg = _deg(rng, 0 if rng.random() < .05 else 1, maxdeg)
    return dict(btype=bt, kwargs=dict(degree=deg), expect_refusal=(deg == 0))


# ---------------------------------------------------------------- multipatch

def mp_edge_classes(mp):
    """Union-find over patch edges: edges that must carry the same knot vector.  Returns
    (class_of[(l,r)] -> (cid, reversed), per patch per dim cid, nelems per class is filled by the caller)."""
    patches = mp['patches']
    nd = patches.ndim - 1
    parent = {}

    def find(a):
        while parent[a] != a:
            parent[a] = parent[parent[a]]
            a = parent[a]
        return a

    def union(a, b):
        ra, rb = find(a), find(b)
        if ra != rb:
            parent[max(ra, rb)] = min(ra, rb)

    edges_per = []
    for q, verts in enumerate(patches):
        per_dim = []
        for d in range(nd):
            left = tuple(0 if j == d else slice(None) for j in range(nd))
            right = tuple(1 if j == d else slice(None) for j in range(nd))
            es = [(int(l), int(r)) for l, r in zip(verts[left].flat, verts[right].flat)]
            for e in es:
                parent.setdefault(e, e)
                # the same geometric edge seen in the opposite direction
                if (e[1], e[0]) in parent:
                    raise NotImplementedError('reversed edge orientation not modelled')
            for e in es[1:]:
                union(es[0], e)
            per_dim.append(es)
        edges_per.append(per_dim)
    classes = {}
    for e in parent:
        classes.setdefault(find(e), []).append(e)
    return edges_per, {e: find(e) for e in parent}, classes


def gen_multipatch_basis(rng, T):
    mp = T.mp
    bt = str(rng.choice(['spline', 'std', 'discont', 'patch'], p=[.55, .25, .12, .08]))
    if bt == 'patch':
        return dict(btype=bt, kwargs={})
    if bt == 'discont':
        return dict(btype=bt, kwargs=dict(degree=_deg(rng, 0, 3)))
    p = _deg(rng, 1, 4 if T.nd < 3 else 3)
    kw = dict(degree=p)
    if rng.random() < .5:
        kw['patchcontinuous'] = bool(rng.random() < .5)
    if bt == 'spline' and rng.random() < .5:
        kw['continuity'] = int(rng.integers(-p - 1, p))
    c = kw.get('continuity', -1) if bt == 'spline' else 0
    c = c + p if c < 0 else c
    if bt == 'spline' and rng.random() < .4:
        edges_per, cls, classes = mp_edge_classes(mp)
        nelems = {}
        for q, per_dim in enumerate(edges_per):
            for d, es in enumerate(per_dim):
                nelems[cls[es[0]]] = mp['shapes'][q][d]
        kv, km = [], []
        for cid, es in sorted(classes.items()):
            n = nelems[cid]
            if rng.random() < .6:
                vals = _knots(rng, n)
                kv += [[list(e), vals] for e in es]
            if rng.random() < .6:
                mult = [p + 1] + [int(rng.integers(1, max(p, 1) + 1)) for _ in range(n - 1)] + [p + 1]
                km += [[list(e), mult] for e in es]
        if kv:
            kw['knotvalues'] = [[None, None]] + kv
        if km:
            kw['knotmultiplicities'] = [[None, None]] + km
    return dict(btype=bt, kwargs=kw)


def mp_kwargs_to_nutils(kw):
    out = dict(kw)
    for name in 'knotvalues', 'knotmultiplicities':
        if name in out:
            out[name] = {(tuple(k) if k is not None else None): v for k, v in out[name]}
    return out


def mp_models(kw, mp, std=False):
    """per patch, per dim Spline1D models of a multipatch spline"""
    p = kw['degree']
    c = 0 if std else kw.get('continuity', -1)
    edges_per, cls, classes = mp_edge_classes(mp)
    kv = {(tuple(k) if k is not None else None): v for k, v in kw.get('knotvalues', [[None, None]])}
    km = {(tuple(k) if k is not None else None): v for k, v in kw.get('knotmultiplicities', [[None, None]])}
    models = []
    for q, per_dim in enumerate(edges_per):
        row = []
        for d, es in enumerate(per_dim):
            n = mp['shapes'][q][d]
            k = kv.get(es[0], kv.get(None))
            m = km.get(es[0], km.get(None))
            if m is None:
                cc = c + p if c < 0 else c
                if not -1 <= cc < p:
                    raise Refused('continuity out of range')
                m = [p + 1] + [p - cc] * (n - 1) + [p + 1]
            row.append(Spline1D(n, p, c, k, m, False))
        models.append(row)
    return models
