"""C18 Recursion subjects: parameterised ``cache.Recursion`` subclasses of length
1, 2 and 3 (Fibonacci-like, finite with StopIteration, raising at item j), runs
that consume a bounded number of items, and history operations (partial run,
real kill while writing item m, truncation of an item file / the stop marker).
The uncached iteration (cache.disable()) is the executable model.
"""

import os, json
import numpy, treelog
from nutils import cache
from vlib import c18_lib as L

STATE = dict(computed=0)


class RecError(Exception):
    pass


def computed():
    return STATE['computed']


class _Mixin:
    """x_i = (sum_j c_j x_{i-j} + d) mod M, seeds init[i] for i < length.

    mode 'history'      : items are (i, x); the index is derived from the history
    mode 'resume_index' : items are x; the index comes from resume_index(history, index)
    mode 'fib'          : items are x; like the documented Fibonacci example the seeding looks at len(history); infinite
    """

    def _setup(self, mode, coeffs, init, d, nstop, raise_at, nlog, valkind, tag):
        self.mode, self.coeffs, self.init, self.d = mode, tuple(coeffs), tuple(init), d
        self.nstop, self.raise_at, self.nlog, self.valkind, self.tag = nstop, raise_at, nlog, valkind, tag

    def _wrap(self, i, x):
        if self.valkind == 'array':
            v = numpy.array([x, x + 1, x * .5])
        elif self.valkind == 'tuple':
            v = (x, str(x), [x] * (x % 3))
        else:
            v = x
        return (i, v) if self.mode == 'history' else v

    def _unwrap(self, item):
        v = item[1] if self.mode == 'history' else item
        if self.valkind == 'array':
            return int(v[0])
        if self.valkind == 'tuple':
            return v[0]
        return v

    def _gen(self, history, index):
        length = type(self).length
        xs = [self._unwrap(h) for h in history]
        if self.mode == 'history':
            i = history[-1][0] + 1 if len(history) else 0
        elif self.mode == 'resume_index':
            i = index
        else:
            i = None
        while True:
            if i is not None:
                if self.nstop is not None and i >= self.nstop:
                    return
                if self.raise_at is not None and i == self.raise_at:
                    raise RecError('item %d' % i)
            if self.mode == 'fib':
                if len(xs) < length:
                    x = self.init[len(xs)]
                else:
                    x = (sum(c * xs[-1 - j] for j, c in enumerate(self.coeffs)) + self.d) % 9973
                if self.nstop is not None and x > self.nstop:     # value-based end of a finite 'fib' sequence
                    return
            elif i < length:
                x = self.init[i] + sum(xs[-1 - j] for j in range(i)) * 0      # touches the i previous items
            else:
                x = (sum(c * xs[-1 - j] for j, c in enumerate(self.coeffs)) + self.d) % 9973
            STATE['computed'] += 1
            for r in range(self.nlog):
                with treelog.context('rec %d' % self.tag):
                    (treelog.info if r == 0 else treelog.warning)('item {} = {} ({})'.format(len(xs) if i is None else i, x, r))
            yield self._wrap(i, x)
            xs = (xs + [x])[-length:]
            if i is not None:
                i += 1

    def resume(self, history):
        if self.mode == 'resume_index':
            raise AssertionError('resume called directly')
        return self._gen(list(history), None)


def _make(length):
    class Rec(_Mixin, cache.Recursion, length=length):
        def __init__(self, mode, coeffs, init, d, nstop, raise_at, nlog, valkind, tag):
            self._setup(mode, coeffs, init, d, nstop, raise_at, nlog, valkind, tag)

        def resume_index(self, history, index):
            if self.mode == 'resume_index':
                return self._gen(list(history), index)
            return self.resume(history)
    Rec.__name__ = Rec.__qualname__ = 'Rec%d' % length
    return Rec


Rec1, Rec2, Rec3 = _make(1), _make(2), _make(3)
CLASSES = {1: Rec1, 2: Rec2, 3: Rec3}


def build(spec):
    return CLASSES[spec['length']](spec['mode'], tuple(spec['coeffs']), tuple(spec['init']), spec['d'], spec['nstop'], spec['raise_at'],
                                   spec['nlog'], spec['valkind'], spec['tag'])


def gen_spec(rng, tag):
    length = int(rng.integers(1, 4))
    mode = ['history', 'resume_index', 'fib'][int(rng.integers(0, 3))]
    shape = ['infinite', 'finite', 'raising'][int(rng.integers(0, 3))]
    nstop = raise_at = None
    if shape == 'finite':
        nstop = int(rng.integers(0, 8)) if mode != 'fib' else int(rng.integers(5, 400))
    elif shape == 'raising' and mode != 'fib':
        raise_at = int(rng.integers(0, 7))
    return dict(length=length, mode=mode, coeffs=[int(c) for c in rng.integers(1, 4, length)], init=[int(c) for c in rng.integers(1, 6, length)],
                d=int(rng.integers(0, 3)), nstop=nstop, raise_at=raise_at, nlog=int(rng.integers(0, 3)),
                valkind=['int', 'array', 'tuple'][int(rng.integers(0, 3))], tag=int(tag))


def run(spec, n, cachedir):
    """iterate at most n items -> dict(items, end, logs, computed)"""
    rec = build(spec)
    log = L.ListLog()
    items = []
    c0 = computed()
    with treelog.set(log), (cache.enable(cachedir) if cachedir else cache.disable()):
        it = iter(rec)
        tb = None
        try:
            for _ in range(n):
                items.append(L.canon(next(it)))
            end = 'consumed'
        except StopIteration:
            end = 'stopped'
        except Exception as e:
            import traceback
            end = 'raised:' + type(e).__name__
            tb = traceback.format_exc()[-1200:]
        finally:
            it.close()
    return dict(items=items, end=end, logs=L.user_messages(log.events), computed=computed() - c0, tb=tb)


def diff(obs, model, what):
    probs = []
    if obs['items'] != model['items'] or obs['end'] != model['end']:
        probs.append(f"{what}: sequence {json.dumps(obs['items'])[:300]} end={obs['end']} != uncached {json.dumps(model['items'])[:300]} end={model['end']}"
                     + ((' | ' + L._last(obs['tb'])) if obs.get('tb') and obs['end'] != model['end'] else ''))
    elif obs['logs'] != model['logs']:
        probs.append(f"{what}: log sequence differs: {obs['logs'][:5]} vs uncached {model['logs'][:5]}")
    return probs


def rec_dir(cachedir):
    subs = [d for d in os.listdir(cachedir) if os.path.isdir(os.path.join(cachedir, d))]
    return os.path.join(cachedir, subs[0]) if len(subs) == 1 else None


def item_files(cachedir):
    d = rec_dir(cachedir)
    if d is None:
        return []
    return [os.path.join(d, f) for f in sorted(os.listdir(d))]


def gen_history(rng, nfull):
    ops = []
    for _ in range(int(rng.integers(1, 6))):
        r = int(rng.integers(0, 10))
        if r < 4:
            ops.append(['consume', int(rng.integers(0, nfull + 2))])
        elif r < 6:
            ops.append(['kill', int(rng.integers(0, nfull)), float(rng.random()), 'sigkill' if rng.random() < .3 else 'exit'])
        elif r < 8:
            ops.append(['truncate', int(rng.integers(0, nfull + 1)), float(rng.random())])
        elif r < 9:
            ops.append(['truncstop', float(rng.random())])
        else:
            ops.append(['zero', int(rng.integers(0, nfull + 1))])
    return ops


def apply_op(spec, op, cachedir, res, timeout=30):
    """apply one history operation; partial runs are themselves compared with the model.  -> list of problems"""
    probs = []
    kind = op[0]
    res.count('rec_ops/' + kind)
    if kind == 'consume':
        n = op[1]
        obs = run(spec, n, cachedir)
        probs += diff(obs, run(spec, n, None), f'partial run consuming {n} items')
    elif kind == 'kill':
        m, frac, how = op[1], op[2], op[3]

        def child():
            L.install_killer(0, how=how, match='%04d' % m, frac=frac)
            return run(spec, m + 2, cachedir)
        status, out = L.fork_call(child, timeout=timeout)
        if status in ('exit:137', 'signal:9'):
            res.count('rec_real_kills')
        elif status == 'exit:0' and out is not None:
            res.count('rec_kill_not_reached')      # item m came from the cache (or the sequence ended earlier): a complete partial run
            probs += diff(out, run(spec, m + 2, None), f'partial run (kill point not reached) consuming {m + 2} items')
        else:
            res.count('rec_kill_child_other_status')
            res.note(f'recursion kill child ended with {status}')
    elif kind in ('truncate', 'zero', 'truncstop'):
        files = item_files(cachedir)
        if files:
            if kind == 'truncstop':
                path, frac = files[-1], op[1]
            else:
                path, frac = files[min(op[1], len(files) - 1)], (op[2] if kind == 'truncate' else 0.)
            b = L.read_file(path)
            L.write_file(path, b[:int(frac * len(b))])
            res.count('rec_files_truncated')
    return probs
