"""Delta-debugging of G-ev cases: replace subtrees by fresh arguments, bypass nodes, drop outputs."""
import copy
from vlib import evgen


def _variants(case):
    nodes = case['nodes']
    # single outputs
    if len(case['outputs']) > 1:
        for o in case['outputs']:
            yield evgen.prune(dict(nodes=copy.deepcopy(nodes), outputs=[o]))
    order = sorted(range(len(nodes)), key=lambda i: -nodes[i].get('depth', i))
    for i in sorted(range(len(nodes)), reverse=True):
        d = nodes[i]
        if not d['args'] or d['op'] == 'loopindex':
            continue
        # bypass: replace by a child of identical type
        for a in d['args']:
            c = nodes[a]
            if c['shape'] == d['shape'] and c['kind'] == d['kind'] and set(c.get('loops', ())) == set(d.get('loops', ())):
                new = copy.deepcopy(nodes)
                for e in new:
                    e['args'] = [a if x == i else x for x in e['args']]
                outs = [a if o == i else o for o in case['outputs']]
                yield evgen.prune(dict(nodes=new, outputs=outs))
        # replace by a fresh argument (only loop-free nodes)
        if not d.get('loops') and d['op'] not in ('loop_sum', 'loop_concat') or (d['op'] in ('loop_sum', 'loop_concat') and not d.get('loops')):
            new = copy.deepcopy(nodes)
            new[i] = dict(op='arg', args=[], p=dict(name=f's{i}'), shape=d['shape'], kind=d['kind'], loops=[], depth=0)
            yield evgen.prune(dict(nodes=new, outputs=list(case['outputs'])))
    # shorten loops
    for i, d in enumerate(nodes):
        if d['op'] == 'loopindex' and d['p']['length'] > 2:
            pass


def shrink(case, pred, maxrounds=200):
    """pred(case) -> True if the case still fails in the same way."""
    cur = case
    for _ in range(maxrounds):
        for cand in _variants(cur):
            if len(cand['nodes']) >= len(cur['nodes']) and len(cand['outputs']) >= len(cur['outputs']):
                continue
            try:
                ok = pred(cand)
            except Exception:
                ok = False
            if ok:
                cur = cand
                break
        else:
            return cur
    return cur
