"""C07 helper: programs (cases), their execution against nutils and against numpy per point, and the monitors.

A *program* is a JSON document::

    {'env': 'prod2', 'mode': 'valid' | 'reject',
     'nodes': [ {'id': 0, 'leaf': 'const'|'raw'|'arg'|'topo', ...},
                {'id': 3, 'op': 'add', 'form': 'ufunc', 'args': [0, 2], 'params': {...}}, ... ]}

Every node carries two things: a nutils function array (built by calling the NumPy API on the operands' function
arrays) and the per-point numpy reference (built by calling THE SAME NumPy-API expression on the operands' per-point
values, point by point).  Leaves: constants (value known), Arguments (value supplied), topology leaves (value from a
separate evaluation of the leaf alone, vlib.c07_env).
"""

import warnings, traceback, re, json
import numpy
from vlib import tolerance, c07_env
from vlib.c07_ops import OPS, NumpyRefuses, KIND_DIFFERENCES, DOCUMENTED_REFUSALS, cast_bool_to_int

KIND = tolerance.KIND
PYTYPE = {'b': bool, 'i': int, 'f': float, 'c': complex}
NPTYPE = {'b': numpy.bool_, 'i': numpy.int64, 'f': numpy.float64, 'c': numpy.complex128}
MAXMAG = 1e4


def kind_of(a):
    return KIND.get(numpy.asarray(a).dtype.kind, '?')


def enc(a):
    a = numpy.asarray(a)
    k = kind_of(a)
    flat = a.ravel().tolist()
    if k == 'c':
        flat = [[z.real, z.imag] for z in flat]
    return dict(k=k, s=list(a.shape), d=flat)


def dec(e):
    d = e['d']
    if e['k'] == 'c':
        d = [complex(re, im) for re, im in d]
    return numpy.array(d, dtype=NPTYPE[e['k']]).reshape(e['s'])


class Node:
    __slots__ = 'id f raw vals uniform kind shape depth scale leaf bounds pointindep terminal spec opname verified'.split()

    def value_at(self, p):
        return self.vals[0 if self.uniform else p]


class Status(Exception):
    """Raised by Case.add_op when the operation does not yield a node; .what in
    {'numpy_refuses', 'out_of_domain', 'refused_documented', 'refused_undocumented', 'violation'}"""

    def __init__(self, what, detail=''):
        self.what, self.detail = what, detail


def classify_refusal(e):
    if isinstance(e, NotImplementedError):
        return 'NotImplementedError'
    msg = str(e)
    for label, pat in DOCUMENTED_REFUSALS:
        if re.search(pat, msg, re.S):
            return label
    return None


class Case:

    def __init__(self, envname, res):
        self.env = c07_env.get(envname)
        self.res = res
        self.nodes = {}
        self.order = []
        self.arguments = {}
        self.prog = dict(env=envname, mode='valid', nodes=[])
        self.violations = []   # (monitor, detail, node id)
        self.nextid = 0

    @property
    def P(self):
        return self.env.npoints

    # ------------------------------------------------------------------ leaves

    def add_leaf(self, spec):
        from nutils import function
        n = Node()
        n.id = spec.get('id', self.nextid)
        self.nextid = max(self.nextid, n.id) + 1
        spec = dict(spec, id=n.id)
        n.spec, n.opname, n.verified = spec, None, False
        n.leaf = spec['leaf']
        n.depth, n.terminal, n.bounds, n.pointindep, n.raw = 0, False, None, True, None
        if n.leaf in ('const', 'raw', 'arg'):
            v = dec(spec['value'])
            n.uniform, n.vals = True, v[numpy.newaxis]
            if n.leaf == 'const':
                n.f = function.Array.cast(v)
            elif n.leaf == 'raw':
                # a plain numpy array / python scalar / nested list passed as is into the numpy API next to a function array
                style = spec.get('style', 'ndarray')
                n.raw = v if style == 'ndarray' else v.tolist()     # 'list' -> nested list, 'pyscalar' -> python scalar
                n.f = None
            else:
                name = spec['name']
                n.f = function.Argument(name, v.shape, dtype=PYTYPE[kind_of(v)])
                self.arguments[name] = v
            if kind_of(v) in 'bi' and n.leaf != 'arg':
                n.bounds = (int(v.min()), int(v.max())) if v.size else (0, 0)
        elif n.leaf == 'topo':
            f, v, meta = self.env.leaves[spec['name']]
            n.f, n.vals, n.uniform = f, v, False
            n.bounds = meta.get('bounds')
            n.pointindep = bool(meta.get('pointindep'))
        else:
            raise ValueError(spec)
        n.kind = kind_of(n.vals)
        n.shape = n.vals.shape[1:]
        n.scale = max(1., float(numpy.abs(n.vals).max())) if n.vals.size and n.kind != 'b' else 1.
        self.nodes[n.id] = n
        self.prog['nodes'].append(spec)
        return n

    # ------------------------------------------------------------------ numpy reference

    def reference(self, opname, form, params, args):
        """Per-point numpy result of the operation; raises NumpyRefuses / Status('out_of_domain')."""
        op = OPS[opname]
        uniform = all(a.uniform for a in args)
        npts = 1 if uniform else self.P
        outs = []
        with warnings.catch_warnings():
            warnings.simplefilter('error')
            with numpy.errstate(all='raise', under='ignore'):
                for p in range(npts):
                    vals = [a.value_at(p) for a in args]
                    try:
                        if not op.domain(form, params, vals):
                            raise Status('out_of_domain', 'precondition')
                        r = op.ref(form, params, vals)
                    except Status:
                        raise
                    except NumpyRefuses:
                        raise
                    except (FloatingPointError, Warning, ZeroDivisionError, numpy.linalg.LinAlgError) as e:
                        if isinstance(e, numpy.linalg.LinAlgError) and 'square' in str(e):
                            raise NumpyRefuses(e)
                        raise Status('out_of_domain', f'{type(e).__name__}: {e}')
                    except (TypeError, ValueError, IndexError) as e:
                        raise NumpyRefuses(e)
                    outs.append(r)
        if op.static:
            return outs[0], True
        outs = [numpy.asarray(r) for r in outs]
        if any(r.dtype == object for r in outs):
            raise NumpyRefuses(TypeError('object result'))
        ref = numpy.stack(outs)
        if ref.dtype.kind in 'fc' and ref.dtype.itemsize < (8 if ref.dtype.kind == 'f' else 16):
            # numpy computed in reduced precision because the operands are bool / python scalars: redo in double
            outs = []
            with warnings.catch_warnings():
                warnings.simplefilter('error')
                with numpy.errstate(all='raise', under='ignore'):
                    try:
                        for p in range(npts):
                            outs.append(numpy.asarray(op.ref(form, params, [cast_bool_to_int(a.value_at(p)) for a in args])))
                    except (FloatingPointError, Warning) as e:
                        raise Status('out_of_domain', str(e))
            ref = numpy.stack(outs).astype(numpy.float64 if ref.dtype.kind == 'f' else numpy.complex128)
        if ref.dtype.kind in 'iu' and ref.dtype != numpy.int64:
            ref = ref.astype(numpy.int64)      # canonical storage; the kind is what is compared
        if ref.dtype.kind in 'fc':
            if not numpy.isfinite(ref).all() or (ref.size and numpy.abs(ref).max() > MAXMAG):
                raise Status('out_of_domain', 'non-finite or too large')
        elif ref.dtype.kind in 'iu':
            if ref.size and numpy.abs(ref).max() > 10**9:
                raise Status('out_of_domain', 'integer too large')
        return ref, uniform

    # ------------------------------------------------------------------ operations

    def add_op(self, opname, form, argids, params, record=True):
        from nutils import function
        op = OPS[opname]
        args = [self.nodes[i] for i in argids]
        res = self.res
        ref, uniform = self.reference(opname, form, params, args)
        # nutils side: the same NumPy-API expression on the function arrays
        fargs = [a.f if a.f is not None else a.raw for a in args]
        if op.needs_array and not any(isinstance(x, function.Array) for x in fargs):
            raise Status('out_of_domain', 'no function array among the operands')
        try:
            with warnings.catch_warnings():
                warnings.simplefilter('ignore')
                f = op.call(form, params, fargs, function.Array.cast)
        except Exception as e:
            label = classify_refusal(e)
            msg = f'{type(e).__name__}: {str(e)[:160]}'
            if label:
                res.count('refused_documented/' + label)
                res.count(f'refused_by_op/{opname}')
                raise Status('refused_documented', msg)
            res.add('refused_undocumented', f'{opname}/{form}: {type(e).__name__}: {str(e)[:90]}')
            res.count(f'refused_undocumented_by_op/{opname}')
            raise Status('refused_undocumented', msg)
        spec = dict(id=self.nextid, op=opname, form=form, args=list(argids), params=params)
        n = Node()
        n.id, n.spec, n.opname, n.verified = self.nextid, spec, opname, False
        self.nextid += 1
        n.leaf, n.raw, n.f = None, None, f
        n.depth = 1 + max([a.depth for a in args], default=0)
        n.terminal = op.terminal or op.static
        n.pointindep = all(a.pointindep for a in args)
        n.bounds = op.bounds(form, params, args) if op.bounds else None
        if op.static:
            # numpy.shape / ndim / size: a python value, compared directly
            n.vals, n.uniform, n.kind, n.shape, n.scale = None, True, None, None, 1.
            ok = (tuple(f) == tuple(ref)) if isinstance(ref, tuple) else (f == ref)
            if not ok:
                self.violation('static attribute', f'numpy.{opname} gives {f!r}, numpy on the per-point value gives {ref!r}', n)
            n.verified = ok
            self.nodes[n.id] = n
            if record:
                self.prog['nodes'].append(spec)
            self.order.append(n)
            return n
        n.vals, n.uniform = ref, uniform
        n.kind = kind_of(ref)
        n.shape = ref.shape[1:]
        n.scale = max([1.] + [a.scale for a in args] + ([float(numpy.abs(ref).max())] if ref.size and ref.dtype.kind != 'b' else []) + [op.extrascale(form, params, args)])
        self.nodes[n.id] = n
        if record:
            self.prog['nodes'].append(spec)
        self.order.append(n)
        # static monitors: shape and element kind
        if not isinstance(f, function.Array):
            self.violation('result type', f'numpy.{opname} on function arrays returned {type(f).__name__}', n)
            raise Status('violation')
        if (tuple(f.shape) != tuple(n.shape) or {bool: 'b', int: 'i', float: 'f', complex: 'c'}.get(f.dtype, '?') != KIND_DIFFERENCES.expected_kind(opname, form, params, [a.kind for a in args], n.kind)):
            label = self.refused_at_evaluation(f)
            if label:
                res.count('refused_documented/' + label)
                res.count('refused_at_evaluation')
                res.count(f'refused_by_op/{opname}')
                del self.nodes[n.id]
                self.order.pop()
                if record:
                    self.prog['nodes'].pop()
                raise Status('refused_documented', label)
        if tuple(f.shape) != tuple(n.shape):
            self.violation('shape', f'.shape {tuple(f.shape)} but numpy gives {tuple(n.shape)} for the per-point operands', n)
            raise Status('violation')
        expect = KIND_DIFFERENCES.expected_kind(opname, form, params, [a.kind for a in args], n.kind)
        if expect != n.kind:
            res.count(f'accepted_kind_difference/{opname}')
            n.vals = n.vals.astype(NPTYPE[expect])      # downstream references continue from the value nutils documents
        n.kind = expect
        got = {bool: 'b', int: 'i', float: 'f', complex: 'c'}.get(f.dtype, '?')
        if got != expect:
            self.violation('dtype kind', f'.dtype {getattr(f.dtype, "__name__", f.dtype)} but numpy gives kind {expect!r} for operand kinds {[a.kind for a in args]}', n)
            raise Status('violation')
        return n

    def refused_at_evaluation(self, f):
        try:
            with warnings.catch_warnings():
                warnings.simplefilter('ignore')
                self.env.eval([f], self.arguments)
        except Exception as e:
            return classify_refusal(e)
        return None

    def unoptimized(self, n):
        """the same function array evaluated without the optimisation pass of evaluable.compile (diagnosis only)"""
        from nutils import evaluable
        f = n.f if self.env.sample is None else self.env.sample.bind(n.f)
        with warnings.catch_warnings():
            warnings.simplefilter('ignore')
            r = numpy.asarray(evaluable.eval_once(f.as_evaluable_array, arguments=self.arguments, _optimize=False))
        return r[numpy.newaxis] if self.env.sample is None else r

    def diagnose(self, n, cmpref):
        """True if the node evaluates to the reference when the optimiser is switched off: the failure then belongs to the
        code generator (property C02), not to the function-array semantics"""
        try:
            o = self.unoptimized(n)
            if o.shape != cmpref.shape or kind_of(o) != n.kind:
                return False
            op = OPS[n.opname]
            verdict, _ = op.compare(n.spec['form'], n.spec['params'], o, cmpref, n.scale, [self.nodes[a] for a in n.spec['args']], self.P)
            return verdict == tolerance.PASS
        except Exception:
            return False

    def violation(self, monitor, detail, node):
        self.violations.append((monitor, detail, node.id if node is not None else None))

    # ------------------------------------------------------------------ evaluation monitor

    def verify(self):
        """Evaluate every operation node on the environment's sample and compare with the per-point reference.
        Stops at the first failing node in construction order (its operands all passed)."""
        res = self.res
        nodes = [n for n in self.order if n.vals is not None]
        if not nodes or self.violations:
            return
        obs = None
        try:
            with warnings.catch_warnings():
                warnings.simplefilter('ignore')
                obs = self.env.eval([n.f for n in nodes], self.arguments)
        except Exception:
            obs = None
        refused = set()
        for i, n in enumerate(nodes):
            if obs is None:
                if any(a in refused for a in n.spec['args']):
                    refused.add(n.id)
                    continue
                try:
                    with warnings.catch_warnings():
                        warnings.simplefilter('ignore')
                        o, = self.env.eval([n.f], self.arguments)
                except Exception as e:
                    label = classify_refusal(e)
                    if label:
                        # nutils raises most of its documented refusals when the expression is lowered, not when it is built
                        res.count('refused_documented/' + label)
                        res.count('refused_at_evaluation')
                        res.count(f'refused_by_op/{n.opname}')
                        refused.add(n.id)
                        continue
                    tb = traceback.format_exc(limit=-3)
                    ref = n.vals if not n.uniform else numpy.broadcast_to(n.vals, (self.P,) + n.vals.shape[1:])
                    cmpref = ref if kind_of(ref) == n.kind else ref.astype(NPTYPE[n.kind])
                    mon = 'evaluation failed (optimised code only)' if self.diagnose(n, cmpref) else 'evaluation failed'
                    self.violation(mon, f'{type(e).__name__}: {str(e)[:200]} | {tb[-700:]}', n)
                    return
            else:
                o = obs[i]
            res.count('node_evaluations')
            res.count('points_compared', self.P)
            ref = n.vals if not n.uniform else numpy.broadcast_to(n.vals, (self.P,) + n.vals.shape[1:])
            if self.env.sample is None:
                ref = n.vals
            if o.shape != ref.shape:
                self.violation('evaluated shape', f'evaluated shape {o.shape} but expected (points,)+shape = {ref.shape}', n)
                return
            if kind_of(o) != n.kind:
                self.violation('evaluated dtype kind', f'evaluated dtype {o.dtype} but numpy gives kind {n.kind!r}', n)
                return
            op = OPS[n.opname]
            cmpref = ref if kind_of(ref) == n.kind else ref.astype(NPTYPE[n.kind])
            verdict, detail = op.compare(n.spec['form'], n.spec['params'], o, cmpref, n.scale, [self.nodes[a] for a in n.spec['args']], self.P)
            if verdict == tolerance.MARGINAL:
                res.count('marginal')
            elif verdict == tolerance.VIOLATION:
                bad = ''
                try:
                    err = numpy.abs(o - cmpref) if n.kind in 'fc' else (o != cmpref)
                    p = int(numpy.argmax(err.reshape(len(err), -1).max(axis=1))) if err.size else 0
                    bad = f' first/worst point {p}: got {numpy.array2string(numpy.asarray(o[p]), precision=6, threshold=12)} expected {numpy.array2string(numpy.asarray(cmpref[p]), precision=6, threshold=12)}'
                except Exception:
                    pass
                self.violation('value (optimised code only)' if self.diagnose(n, cmpref) else 'value', detail + bad, n)
                return
            else:
                res.count('node_pass')
            n.verified = True

    # ------------------------------------------------------------------ description

    def describe(self, nid):
        n = self.nodes[nid]
        if n.leaf:
            s = n.spec
            if n.leaf == 'topo':
                return s['name']
            return f"{n.leaf}<{n.kind}:{','.join(map(str, n.shape))}>"
        s = n.spec
        return f"{s['op']}/{s['form']}({', '.join(self.describe(a) for a in s['args'])}{'; ' + json.dumps(s['params'], default=str) if s['params'] else ''})"


def structure_hash(prog):
    """Structure of a program without leaf values (for distinct counting)."""
    out = [prog['env'], prog.get('mode')]
    for s in prog['nodes']:
        if 'leaf' in s:
            if s['leaf'] == 'topo':
                out.append(('t', s['id'], s['name']))
            else:
                out.append((s['leaf'][0], s['id'], s['value']['k'], tuple(s['value']['s'])))
        else:
            out.append((s['id'], s['op'], s['form'], tuple(s['args']), json.dumps(s['params'], sort_keys=True, default=str)))
    return repr(out)


def prune(prog):
    used = set()
    for s in prog['nodes']:
        if 'op' in s:
            used.update(s['args'])
            used.add(s['id'])
            for r in s['params'].get('_refs', []):
                used.add(r)
    prog['nodes'] = [s for s in prog['nodes'] if s['id'] in used]
    return prog
