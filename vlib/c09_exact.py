"""C09 part B — exactness of Gauss schemes on reference elements.

Independent oracles (nothing below uses nutils' Gauss tables):

* closed form for monomials on the unit simplex, prod(a_i!)/(n+sum a)!, and products
  thereof for tensor-product references;
* a collapsed-coordinate (Duffy) Gauss-Legendre rule built from numpy's leggauss,
  exact for any polynomial of the requested total degree on any affine simplex; it is
  self-tested against the closed form before use and integrates polynomials over the
  *region* of a child / with-children / mosaic reference, described by the reference's
  own vertices and simplices;
* the partition identity int_{phi>0} + int_{phi<0} = int_ref for trimmed references.

Every function returns plain data; the caller (checks/c09.py) turns problems into
violations.  Float bands: exactness on reference elements is an O(1)-scale statement,
pass <= 1e-12, violation > 1e-10 (the tables carry 15-16 digits; measured worst error on
the unchanged tree is 3e-15), in between marginal.
"""

import itertools, math, warnings
import numpy

PASS_TOL = 1e-12
VIOL_TOL = 1e-10


# ------------------------------------------------------------------ independent oracles

def simplex_monomial(a):
    """int over the unit n-simplex of prod x_i^a_i."""
    n = len(a)
    return math.prod(math.factorial(int(k)) for k in a) / math.factorial(n + int(sum(a)))


_duffy_cache = {}


def duffy(ndims, degree):
    """Points/weights on the unit simplex exact for total degree <= degree (numpy leggauss only)."""
    key = ndims, degree
    if key not in _duffy_cache:
        n = (degree + ndims + 1) // 2 + 1
        x, w = numpy.polynomial.legendre.leggauss(n)
        x = (x + 1) / 2
        w = w / 2
        if ndims == 0:
            pts, wts = numpy.zeros((1, 0)), numpy.ones(1)
        elif ndims == 1:
            pts, wts = x[:, None], w
        elif ndims == 2:
            u, v = numpy.meshgrid(x, x, indexing='ij')
            wu, wv = numpy.meshgrid(w, w, indexing='ij')
            pts = numpy.stack([u, v * (1 - u)], -1).reshape(-1, 2)
            wts = (wu * wv * (1 - u)).ravel()
        elif ndims == 3:
            u, v, t = numpy.meshgrid(x, x, x, indexing='ij')
            wu, wv, wt = numpy.meshgrid(w, w, w, indexing='ij')
            pts = numpy.stack([u, v * (1 - u), t * (1 - u) * (1 - v)], -1).reshape(-1, 3)
            wts = (wu * wv * wt * (1 - u)**2 * (1 - v)).ravel()
        else:
            raise NotImplementedError(ndims)
        _duffy_cache[key] = pts, wts
    return _duffy_cache[key]


def selftest():
    """Duffy rule vs closed form, all monomials up to degree 9 in 1-3 dims. Returns list of problems."""
    probs = []
    for nd in 1, 2, 3:
        for deg in range(0, 10):
            pts, wts = duffy(nd, deg)
            if abs(wts.sum() - 1 / math.factorial(nd)) > 1e-14:
                probs.append(f'duffy({nd},{deg}) volume')
            for a in monomials_total(nd, deg):
                v = wts @ numpy.prod(pts**numpy.array(a), axis=1)
                if abs(v - simplex_monomial(a)) > 1e-14:
                    probs.append(f'duffy({nd},{deg}) monomial {a}: {v} != {simplex_monomial(a)}')
    return probs


def monomials_total(ndims, degree):
    return [a for a in itertools.product(range(degree + 1), repeat=ndims) if sum(a) <= degree]


def integrate_region(simplices, a):
    """int of monomial a over a union of simplices given as (ns, nd+1, nd) vertex array (Duffy oracle)."""
    simplices = numpy.asarray(simplices, float)
    if len(simplices) == 0:
        return 0.
    nd = simplices.shape[2]
    pts, wts = duffy(nd, int(sum(a)))
    v0 = simplices[:, 0]
    E = simplices[:, 1:] - v0[:, None]                 # ns x nd(edge) x nd(coord)
    det = numpy.abs(numpy.linalg.det(E)) if nd else numpy.ones(len(simplices))
    x = v0[:, None, :] + numpy.einsum('qk,skc->sqc', pts, E)     # ns x nq x nd
    vals = numpy.prod(x**numpy.array(a), axis=2)
    return float(numpy.einsum('s,q,sq->', det, wts, vals))


def moments(coords, weights, monos):
    """sum_p w_p x_p^a for all monomials a at once"""
    A = numpy.asarray(monos, int).reshape(len(monos), -1)
    coords = numpy.asarray(coords, float)
    if len(coords) == 0:
        return numpy.zeros(len(A))
    vals = numpy.ones((len(coords), len(A)))
    for d in range(A.shape[1]):
        kmax = int(A[:, d].max()) if len(A) else 0
        P = numpy.ones((len(coords), kmax + 1))
        for k in range(1, kmax + 1):
            P[:, k] = P[:, k - 1] * coords[:, d]       # repeated multiplication: no pow(), exact for k <= 1
        vals *= P[:, A[:, d]]
    return numpy.asarray(weights, float) @ vals


def region_moments(simplices, monos):
    """Duffy oracle for all monomials at once (one rule of the maximal total degree)"""
    simplices = numpy.asarray(simplices, float)
    A = numpy.asarray(monos, int).reshape(len(monos), -1)
    if len(simplices) == 0:
        return numpy.zeros(len(A))
    nd = simplices.shape[2]
    pts, wts = duffy(nd, int(A.sum(1).max()) if len(A) else 0)
    v0 = simplices[:, 0]
    E = simplices[:, 1:] - v0[:, None]
    det = numpy.abs(numpy.linalg.det(E)) if nd else numpy.ones(len(simplices))
    x = (v0[:, None, :] + numpy.einsum('qk,skc->sqc', pts, E)).reshape(-1, nd)
    w = (det[:, None] * wts[None, :]).ravel()
    return moments(x, w, A)


def in_region(simplices, pts, tol=1e-10):
    """All pts lie in the union of the given simplices (own barycentric test)."""
    simplices = numpy.asarray(simplices, float)
    pts = numpy.asarray(pts, float)
    if len(pts) == 0:
        return True
    if len(simplices) == 0:
        return False
    v0 = simplices[:, 0]
    E = simplices[:, 1:] - v0[:, None]                       # s x k x c
    lam = numpy.linalg.solve(numpy.swapaxes(E, 1, 2)[:, None], (pts[None] - v0[:, None])[..., None])[..., 0]   # s x p x k
    ok = (lam >= -tol).all(2) & (1 - lam.sum(2) >= -tol)
    return bool(ok.any(0).all())


# ------------------------------------------------------------------ reference catalogue

def factors(ref):
    """Flat list of simplex dims of a (tensor product of) simplex reference(s), or None."""
    from nutils import element
    if isinstance(ref, element.TensorReference):
        out = []
        for r in ref._flat_refs:
            f = factors(r)
            if f is None:
                return None
            out += f
        return out
    if isinstance(ref, element.SimplexReference):
        return [ref.ndims]
    return None


def exact_monomial(fdims, a):
    """Closed form on a tensor product of unit simplices with dims fdims."""
    v, k = 1., 0
    for d in fdims:
        v *= simplex_monomial(a[k:k + d])
        k += d
    return v


def exact_set(fdims, degrees):
    """Monomials a Gauss scheme with per-factor degrees must integrate exactly."""
    per = [monomials_total(d, p) for d, p in zip(fdims, degrees)]
    return [sum(c, ()) for c in itertools.product(*per)]


def bary_min(fdims, coords):
    """Smallest barycentric coordinate over all points, computed per simplex factor."""
    m, k = numpy.inf, 0
    for d in fdims:
        c = coords[:, k:k + d]
        if len(c):
            m = min(m, float(c.min()) if d else numpy.inf, float((1 - c.sum(1)).min()))
        k += d
    return m


def refname(fdims):
    names = {0: 'point', 1: 'line', 2: 'triangle', 3: 'tetrahedron'}
    return '*'.join(names[d] for d in fdims)


def mkref(fdims):
    from nutils import element
    ref = element.getsimplex(fdims[0])
    for d in fdims[1:]:
        ref = ref * element.getsimplex(d)
    return ref


DOCUMENTED_MAX = {1: None, 2: 6, 3: 7}     # degree above which points.py warns 'inexact integration'
TABLE_MAX = {1: None, 2: 7, 3: 8}          # degree of the last tabulated rule


def getpoints(ref, scheme, degree):
    """ref.getpoints with nutils' inexactness warning captured. Returns (points, warned)."""
    with warnings.catch_warnings(record=True) as w:
        warnings.simplefilter('always')
        p = ref.getpoints(scheme, degree)
        p.coords, getattr(p, 'weights', None)
    return p, any('inexact' in str(x.message) for x in w)


def is_refusal(e):
    """Documented refusals of nutils: NotImplementedError, or the bare Exception('unsupported ischeme ...' /
    'tri not defined for ...') raised by Reference.getpoints / Points.tri for unsupported combinations."""
    if isinstance(e, NotImplementedError):
        return True
    return type(e) is Exception and ('unsupported ischeme' in str(e) or 'tri not defined' in str(e))


VTK_FINDING = 'C09-vtk-tensor-typeerror'


def is_vtk_tensor_typeerror(e, ref, scheme):
    from nutils import element
    return isinstance(e, TypeError) and 'unhashable' in str(e) and scheme == 'vtk' and isinstance(ref, element.TensorReference)


def try_getpoints(ref, scheme, degree, res, tag):
    """getpoints with refusals classified: returns points or None (refused / known finding, both counted)."""
    try:
        pts, _ = getpoints(ref, scheme, degree)
        return pts
    except NotImplementedError:
        res.count('B/rejected')
        res.add('B/rejected_kinds', f'{tag}:{scheme}')
    except Exception as e:
        if not is_refusal(e):
            raise
        res.count('B/rejected')
        res.add('B/rejected_kinds', f'{tag}:{scheme}')
    return None


def region_simplices(ref):
    """Simplex partition (ns, nd+1, nd) of the region occupied by ref, from ref's own vertices/simplices/children."""
    from nutils import element
    nd = ref.ndims
    if isinstance(ref, element.EmptyLike):
        return numpy.zeros((0, nd + 1, nd))
    if isinstance(ref, element.OwnChildReference):
        return region_simplices(ref.baseref)
    if isinstance(ref, element.WithChildrenReference):
        parts = []
        for ctrans, cref in ref.children:
            if cref:
                s = region_simplices(cref)
                parts.append(numpy.asarray(ctrans.apply(s.reshape(-1, nd))).reshape(s.shape))
        return numpy.concatenate(parts) if parts else numpy.zeros((0, nd + 1, nd))
    verts = numpy.asarray(ref.vertices, float)
    simp = numpy.asarray(ref.simplices, int)      # NotImplementedError for products of two >1-D factors
    if len(simp) == 0:
        return numpy.zeros((0, nd + 1, nd))
    return verts[simp]


def describe(ref):
    from nutils import element
    if isinstance(ref, element.WithChildrenReference):
        return 'WithChildren(' + ','.join(describe(c) if c else '-' for c in ref.child_refs) + ')'
    if isinstance(ref, element.MosaicReference):
        return f'Mosaic[{describe(ref.baseref)};{len(ref.simplices)}]'
    if isinstance(ref, element.EmptyLike):
        return 'Empty'
    f = factors(ref)
    return refname(f) if f else type(ref).__name__


def kinds_in(ref, acc=None):
    from nutils import element
    acc = set() if acc is None else acc
    acc.add(type(ref).__name__)
    if isinstance(ref, element.WithChildrenReference):
        for c in ref.child_refs:
            if c:
                kinds_in(c, acc)
    return acc


class Judge:
    """Collects comparisons under the exactness band."""

    def __init__(self):
        self.problems = []      # (monitor, detail)
        self.marginal = 0
        self.checked = 0
        self.maxerr = 0.

    def close(self, monitor, obs, ref, what, scale=1.):
        self.checked += 1
        err = abs(obs - ref) / max(1., scale)
        if not numpy.isfinite(err):
            self.problems.append((monitor, f'{what}: {obs} vs {ref}'))
            return False
        self.maxerr = max(self.maxerr, err)
        if err > VIOL_TOL:
            self.problems.append((monitor, f'{what}: observed {obs!r}, exact {ref!r}, err {err:.3e}'))
            return False
        if err > PASS_TOL:
            self.marginal += 1
        return True

    def true(self, monitor, cond, what):
        self.checked += 1
        if not cond:
            self.problems.append((monitor, what))
        return bool(cond)


def check_plain(fdims, degree, judge, res):
    """Gauss scheme of the given degree (int or per-factor tuple) on a product of simplices."""
    ref = mkref(fdims)
    degs = tuple(degree) if isinstance(degree, (tuple, list)) else (degree,) * len(fdims)
    arg = tuple(degree) if isinstance(degree, (tuple, list)) else degree
    pts, warned = getpoints(ref, 'gauss', arg)
    name = refname(fdims)
    doc_ok = all(DOCUMENTED_MAX[d] is None or p <= DOCUMENTED_MAX[d] for d, p in zip(fdims, degs))
    tab_ok = all(TABLE_MAX[d] is None or p <= TABLE_MAX[d] for d, p in zip(fdims, degs))
    if warned:      # information only: the warning is issued once per cached table, so its absence means nothing
        res.count('B/inexactness_warnings_seen')
        judge.true('inexactness warning', not doc_ok, f'{name} degree {arg}: inexactness warning issued at or below the documented maximum')
    if not tab_ok:
        return 0
    coords, weights = numpy.asarray(pts.coords), numpy.asarray(pts.weights)
    mset = exact_set(fdims, degs)
    n = len(mset)
    for a, o in zip(mset, moments(coords, weights, mset)):
        judge.close('gauss exactness (closed form)', float(o), exact_monomial(fdims, a), f'{name} gauss{arg} monomial {a}')
    res.count('B/triples', n)
    res.count('B/triples_beyond_documented' if not doc_ok else 'B/triples_documented', n)
    res.add('B/ref_degree', f'{name}:{arg}')
    judge.true('points inside element', bary_min(fdims, coords) >= -1e-12, f'{name} gauss{arg}: min barycentric {bary_min(fdims, coords):.3e}')
    judge.true('points inside element', all(ref.inside(p, 1e-12) for p in coords[::max(1, len(coords) // 12)]), f'{name} gauss{arg}: ref.inside false for a quadrature point')
    judge.close('weights sum to volume', float(weights.sum()), exact_monomial(fdims, (0,) * sum(fdims)), f'{name} gauss{arg} weight sum')
    # sharpness (information only): one degree beyond the rule's order some monomial is not integrated exactly
    sharp = 0
    for k in range(len(fdims)):
        t = degs[k] + 1 if fdims[k] > 1 else 2 * (degs[k] // 2) + 2
        degs2 = tuple(t if j == k else degs[j] for j in range(len(fdims)))
        for a in exact_set(fdims, degs2):
            obs = float(weights @ numpy.prod(coords**numpy.array(a), axis=1))
            if abs(obs - exact_monomial(fdims, a)) > 1e-9:
                sharp += 1
                break
    res.count('B/sharpness_witnesses', sharp)
    return n


def check_other_schemes(fdims, judge, res):
    """uniform/bezier/vertex/vtk/_centroid on plain references: weights sum to the volume, points inside."""
    ref = mkref(fdims)
    name = refname(fdims)
    vol = exact_monomial(fdims, (0,) * sum(fdims))
    for scheme, degs in ('uniform', range(1, 9)), ('bezier', range(2, 9)), ('vertex', range(0, 4)), ('_centroid', [None]), ('vtk', [None]):
        for d in degs:
            pts = try_getpoints(ref, scheme, d, res, name)
            if pts is None:
                continue
            coords = numpy.asarray(pts.coords)
            res.count('B/scheme_points')
            res.add('B/schemes', scheme)
            judge.true('points inside element', coords.shape[1] == sum(fdims) and bary_min(fdims, coords) >= -1e-12, f'{name} {scheme}{d}: point outside')
            w = getattr(pts, 'weights', None)
            if w is not None:
                judge.close('weights sum to volume', float(numpy.sum(w)), vol, f'{name} {scheme}{d} weight sum')
                judge.true('weights sum to volume', len(w) == len(coords) == pts.npoints, f'{name} {scheme}{d}: npoints mismatch')
            if scheme == 'vtk':
                # vtk points are the vertices of the reference, each exactly once (order is VTK's cell convention)
                verts = numpy.asarray(ref.vertices, float)
                same = len(coords) == len(verts) and sorted(map(tuple, numpy.round(coords, 12))) == sorted(map(tuple, numpy.round(verts, 12)))
                judge.true('vtk points are the vertices', same, f'{name} vtk: points {coords.tolist()} vs vertices {verts.tolist()}')
                res.count('B/vtk_vertex_checks')
            if scheme == '_centroid':
                g, _ = getpoints(ref, 'gauss', 1)
                judge.true('centroid', len(coords) == 1, f'{name} centroid count')
                c = sum(([1 / (k + 1)] * k for k in fdims), [])
                judge.close('centroid', float(numpy.abs(coords[0] - c).max()) if len(c) else 0., 0., f'{name} centroid position')


def check_region(ref, degree, judge, res, label, maxmono=None, rng=None):
    """Gauss points of an arbitrary (child/with-children/mosaic) reference vs the Duffy oracle over its region."""
    pts, warned = getpoints(ref, 'gauss', degree)
    coords, weights = numpy.asarray(pts.coords), numpy.asarray(pts.weights)
    region = region_simplices(ref)
    nd = ref.ndims
    monos = region_monomials(ref, degree)
    if maxmono and len(monos) > maxmono:
        keep = [0] + sorted(rng.choice(numpy.arange(1, len(monos)), size=maxmono - 1, replace=False).tolist())
        monos = [monos[i] for i in keep]
    obs, ref_ = moments(coords, weights, monos), region_moments(region, monos)
    for a, o, r in zip(monos, obs, ref_):
        judge.close('gauss exactness (region oracle)', float(o), float(r), f'{label} gauss{degree} monomial {a}')
    res.count('B/region_triples', len(monos))
    judge.true('points inside element', in_region(region, coords), f'{label} gauss{degree}: quadrature point outside the region of the reference')
    judge.true('points inside element', all(ref.inside(p, 1e-10) for p in coords[::max(1, len(coords) // 6)]), f'{label} gauss{degree}: ref.inside false for a quadrature point')
    return pts


def region_monomials(ref, degree):
    """Monomials exact on every piece of ref: total degree <= degree is always safe (pieces are affine images of
    simplices or of tensor cells, for which the per-direction set contains the total-degree set)."""
    return monomials_total(ref.ndims, degree)


def leaf_maxdegree(ref):
    """Largest degree without inexactness warning for all simplex kinds occurring in ref."""
    from nutils import element
    m = 99
    stack = [ref]
    while stack:
        r = stack.pop()
        if isinstance(r, element.WithChildrenReference):
            stack.extend(c for c in r.child_refs if c)
        elif isinstance(r, element.MosaicReference):
            m = min(m, DOCUMENTED_MAX[r.ndims] or 99)
        elif isinstance(r, element.OwnChildReference):
            stack.append(r.baseref)
        else:
            f = factors(r)
            if f:
                for d in f:
                    m = min(m, DOCUMENTED_MAX.get(d) or 99)
    return m


def check_children(fdims, degree, judge, res, subsets, rng):
    """Children by affine pull-back, their sum, and with_children for the given child subsets."""
    from nutils import points as P
    ref = mkref(fdims)
    name = refname(fdims)
    nd = ref.ndims
    total = {}
    monos = exact_set(fdims, (degree,) * len(fdims))
    per_child = []
    for ichild, (ctrans, cref) in enumerate(ref.children):
        cp, _ = getpoints(cref, 'gauss', degree)
        tp = P.TransformPoints(cp, ctrans)
        coords, weights = numpy.asarray(tp.coords), numpy.asarray(tp.weights)
        creg = region_simplices(cref)
        region = numpy.asarray(ctrans.apply(creg.reshape(-1, nd))).reshape(creg.shape)
        judge.true('points inside element', bary_min(fdims, coords) >= -1e-12, f'{name} child {ichild} gauss{degree}: point outside parent')
        judge.close('weights sum to volume', float(weights.sum()), integrate_region(region, (0,) * nd), f'{name} child {ichild} gauss{degree} weight sum')
        # a monomial of per-factor degree <= p stays in the exact set under the child maps (axis-aligned per factor)
        for a, o, r in zip(monos, moments(coords, weights, monos), region_moments(region, monos)):
            judge.close('child pull-back', float(o), float(r), f'{name} child {ichild} gauss{degree} monomial {a}')
            total[a] = total.get(a, 0.) + float(o)
        per_child.append(region)
        res.count('B/child_triples', len(monos))
    for a in monos:
        judge.close('children partition parent', total[a], exact_monomial(fdims, a), f'{name} sum of children gauss{degree} monomial {a}')
    for mask in subsets:
        wc = ref.with_children([c if m else c.empty for c, m in zip(ref.child_refs, mask)])
        label = f'{name}.with_children({"".join("1" if m else "0" for m in mask)})'
        check_region(wc, degree, judge, res, label)
        pts, _ = getpoints(wc, 'gauss', degree)
        vol = sum(integrate_region(r, (0,) * nd) for r, m in zip(per_child, mask) if m)
        judge.close('weights sum to volume', float(numpy.sum(pts.weights)), vol, f'{label} gauss{degree} weight sum')
        judge.close('weights sum to volume', float(wc.volume), vol, f'{label} volume attribute')
        res.count('B/with_children')
        res.add('B/kinds', 'WithChildrenReference')


def check_concat_schemes(ref, judge, res, label):
    """uniform/bezier on with-children/mosaic references: ConcatPoints (with dedup for bezier) keeps the total weight."""
    vol = integrate_region(region_simplices(ref), (0,) * ref.ndims)
    for scheme, degs in ('uniform', (1, 2, 3)), ('bezier', (2, 3, 4, 5)):
        for d in degs:
            pts = try_getpoints(ref, scheme, d, res, type(ref).__name__)
            if pts is None:
                continue
            coords, weights = numpy.asarray(pts.coords), numpy.asarray(pts.weights)
            res.count('B/concat_schemes')
            res.add('B/schemes', scheme + '@' + type(ref).__name__)
            judge.true('npoints', len(coords) == len(weights) == pts.npoints, f'{label} {scheme}{d}: npoints {pts.npoints} vs coords {len(coords)} weights {len(weights)}')
            judge.close('weights sum to volume', float(weights.sum()), vol, f'{label} {scheme}{d} weight sum')
            judge.true('points inside element', in_region(region_simplices(ref), coords), f'{label} {scheme}{d}: point outside')
            if scheme == 'bezier' and len(coords):
                # deduplicated points are pairwise distinct on the hull; total first moment is preserved as well
                n = len(numpy.unique(numpy.round(coords, 12), axis=0))
                res.count('B/bezier_dedup_removed', int(sum(p.npoints for p in pts.allpoints) - pts.npoints) if hasattr(pts, 'allpoints') else 0)
                for k in range(ref.ndims):
                    raw = sum(float(numpy.asarray(p.weights) @ numpy.asarray(p.coords)[:, k]) for p in pts.allpoints) if hasattr(pts, 'allpoints') else None
                    if raw is not None:
                        judge.close('dedup preserves moments', float(weights @ coords[:, k]), raw, f'{label} bezier{d} first moment {k}')


def levelset_values(ref, maxrefine, coef):
    """Values of c0 + c.x (+ q |x-m|^2) at the vertex grid nutils' Topology.trim samples."""
    v = numpy.asarray(ref.getpoints('vertex', maxrefine).coords)
    val = coef['c0'] + v @ numpy.array(coef['c'])
    if coef.get('q'):
        val = val + coef['q'] * ((v - numpy.array(coef['m']))**2).sum(1)
    return val


def check_trim(fdims, coef, maxrefine, ndivisions, degrees, judge, res, rng):
    """Partition identity, region oracle, inside and side-of-levelset for ref.trim(+-levels)."""
    from nutils import element
    ref = mkref(fdims)
    name = refname(fdims)
    nd = ref.ndims
    levels = levelset_values(ref, maxrefine, coef)
    case = f'{name}.trim(c0={coef["c0"]:.6g},c={[round(c, 6) for c in coef["c"]]},q={coef.get("q", 0)},maxrefine={maxrefine},ndiv={ndivisions})'
    try:
        pos = ref.trim(levels, maxrefine, ndivisions)
        neg = ref.trim(-levels, maxrefine, ndivisions)
    except NotImplementedError:
        res.count('B/rejected')
        res.add('B/rejected_kinds', f'{name}:trim')
        return None
    res.count('B/trims')
    kinds = kinds_in(pos) | kinds_in(neg)
    for k in kinds:
        res.add('B/kinds', k)
    nontrivial = 'MosaicReference' in kinds or 'WithChildrenReference' in kinds
    if nontrivial:
        res.count('B/trims_nontrivial')
    linear = not coef.get('q')
    slack = 4 * (levels.max() - levels.min()) * 2.**-(ndivisions + 1)
    for degree in degrees:
        sums = {}
        for sign, part in (1, pos), (-1, neg):
            if not part:
                continue
            label = f'{case}[{"+" if sign > 0 else "-"}]'
            try:
                pts = check_region(part, degree, judge, res, label, maxmono=12 if nd == 3 else None, rng=rng)
            except NotImplementedError:
                res.count('B/rejected')
                continue
            coords, weights = numpy.asarray(pts.coords), numpy.asarray(pts.weights)
            judge.true('points inside element', bary_min(fdims, coords) >= -1e-12, f'{label} gauss{degree}: point outside base reference')
            judge.close('weights sum to volume', float(weights.sum()), float(part.volume), f'{label} gauss{degree} weights vs volume attribute')
            if linear and len(coords):
                phi = sign * (coef['c0'] + coords @ numpy.array(coef['c']))
                judge.true('points on the kept side of the level set', phi.min() >= -slack - 1e-12, f'{label} gauss{degree}: min levelset value at a point {phi.min():.3e} < -{slack:.3e}')
            mset = exact_set(fdims, (degree,) * len(fdims)) if nd < 3 else monomials_total(nd, degree)
            for a, o in zip(mset, moments(coords, weights, mset)):
                sums[a] = sums.get(a, 0.) + float(o)
        # pieces of a trimmed tensor cell are simplices (mosaic) or tensor sub-cells; the total-degree set is safe for both,
        # the per-direction set only where no mosaic is involved
        safe = monomials_total(nd, degree) if 'MosaicReference' in kinds else (exact_set(fdims, (degree,) * len(fdims)) if nd < 3 else monomials_total(nd, degree))
        for a in safe:
            judge.close('trim partition identity', sums.get(a, 0.), exact_monomial(fdims, a), f'{case} gauss{degree} monomial {a}: pos+neg')
        res.count('B/partition_triples', len(safe))
    for part, sgn in (pos, '+'), (neg, '-'):
        if part and not isinstance(part, (element.SimplexReference, element.TensorReference)):
            check_concat_schemes(part, judge, res, f'{case}[{sgn}]')
    return nontrivial
