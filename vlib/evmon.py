"""Monitors attached to nutils.evaluable from the harness (no repository edit):
rewrite-step counter with logical budget, rule-firing counters, script capture,
wall-clock nominator, line clock."""

import signal, sys, types, contextlib, hashlib, warnings, collections
import numpy


class StepBudget(Exception):
    pass


class WallNominate(BaseException):
    'raised by the wall watchdog: nominates a suspect, never a verdict'


class LineBudget(BaseException):
    pass


STEPS = collections.Counter()
BUDGET = {'steps': 50000}
SAMPLED_STEPS = []          # (obj, retval) pairs sampled by the per-step monitor
STEP_SAMPLING = {'p': 0., 'rng': None, 'cap': 40}
_installed = {}


def install_step_counter():
    from nutils import evaluable as ev
    if 'steps' in _installed:
        return
    for name in ('simplified', '_optimized_for_numpy1'):
        prop = ev.Evaluable.__dict__[name]
        orig = prop.func

        def counting(obj, _orig=orig, _name=name):
            STEPS[_name] += 1
            if STEPS[_name] > BUDGET['steps']:
                raise StepBudget(f'{_name}: more than {BUDGET["steps"]} rewrite steps')
            ret = _orig(obj)
            if _name == 'simplified' and ret is not obj and STEP_SAMPLING['p'] and len(SAMPLED_STEPS) < STEP_SAMPLING['cap'] \
                    and isinstance(obj, ev.Array) and STEP_SAMPLING['rng'].random() < STEP_SAMPLING['p']:
                SAMPLED_STEPS.append((obj, ret))
            return ret
        prop.func = counting
    _installed['steps'] = True


def reset_steps():
    STEPS.clear()
    SAMPLED_STEPS.clear()
    CASE_FIRED.clear()


def hot_rules(minfrac=.02):
    'rules that fired a non-negligible share of the time since the last reset'
    tot = sum(CASE_FIRED.values()) or 1
    return sorted(k for k, v in CASE_FIRED.items() if v >= minfrac * tot and not k.endswith('._intbounds_impl'))


PROTOCOL = ('_simplified _multiply _add _sum _take _rtake _takediag _inflate _rinflate _insertaxis _transpose _unravel _ravel _product '
            '_power _sign _determinant _inverse _diagonalize _loopsum _real _imag _conjugate _eig _optimized_for_numpy _assparse '
            '_intbounds_impl _derivative _get').split()
RULES_CALLED = collections.Counter()
RULES_FIRED = collections.Counter()
CASE_FIRED = collections.Counter()    # rules fired since the last reset_steps(): the call-site signature of a divergent rewrite


def install_rule_counters():
    from nutils import evaluable as ev
    if 'rules' in _installed:
        return
    seen = set()
    stack = [ev.Array]
    while stack:
        cls = stack.pop()
        if cls in seen:
            continue
        seen.add(cls)
        stack.extend(cls.__subclasses__())
        if cls.__module__ != ev.__name__:
            continue
        for name in PROTOCOL:
            f = cls.__dict__.get(name)
            if not isinstance(f, types.FunctionType):
                continue
            key = f'{cls.__name__}.{name}'

            def wrapper(*args, _f=f, _key=key, **kwargs):
                RULES_CALLED[_key] += 1
                r = _f(*args, **kwargs)
                if r is not None and r is not NotImplemented:
                    RULES_FIRED[_key] += 1
                    CASE_FIRED[_key] += 1
                return r
            wrapper.__name__ = f.__name__
            wrapper.__qualname__ = f.__qualname__
            wrapper.__wrapped__ = f
            setattr(cls, name, wrapper)
    _installed['rules'] = True


SCRIPTS = []        # (sha1, text) of generated scripts, bounded
SCRIPT_HASHES = set()
SCRIPT_FEATURES = collections.Counter()
FEATURES = {'iadd_out': 'numpy.add(', 'add_at': 'numpy.add.at(', 'with_lock': 'with lock', 'ctxrange': 'parallel.ctxrange', 'for': 'for i',
            'first_run': 'if first_run', 'copyto': 'numpy.copyto(', 'einsum': 'numpy.einsum(', 'shempty': 'parallel.shempty', 'stats': 'with stats['}


def install_script_capture(keep_text=False):
    from nutils import _util as util, evaluable as ev
    if 'scripts' in _installed:
        return
    orig = util.function

    def capturing(script, globals):
        h = hashlib.sha1(script.encode()).hexdigest()[:16]
        if h not in SCRIPT_HASHES:
            SCRIPT_HASHES.add(h)
            for k, pat in FEATURES.items():
                if pat in script:
                    SCRIPT_FEATURES[k] += 1
            if script.count('\n    for ') + script.count('\n        for ') >= 2:
                SCRIPT_FEATURES['multi_for'] += 1
            if '\n            for ' in script:
                SCRIPT_FEATURES['nested_for'] += 1
        if keep_text:
            SCRIPTS.append((h, script))
            del SCRIPTS[:-4]
        return orig(script, globals)
    util.function = capturing
    _installed['scripts'] = True


@contextlib.contextmanager
def wall(seconds):
    """wall-clock nominator (main thread only)"""
    def handler(signum, frame):
        raise WallNominate()
    old = signal.signal(signal.SIGALRM, handler)
    signal.setitimer(signal.ITIMER_REAL, seconds)
    try:
        yield
    finally:
        signal.setitimer(signal.ITIMER_REAL, 0)
        signal.signal(signal.SIGALRM, old)


def line_clock(fn, budget_lines, wall_s=600):
    """Run fn() counting executed Python lines (sys.monitoring LINE): deterministic, load independent.
    Returns ('done', result, lines) | ('budget', None, lines) | ('wall', None, lines) | ('raised', exc, lines)."""
    mon = sys.monitoring
    tool = mon.DEBUGGER_ID
    count = [0]

    def on_line(code, lineno):
        count[0] += 1
        if count[0] > budget_lines:
            mon.set_events(tool, 0)   # stop counting first: the handlers below must run undisturbed
            raise LineBudget()
    try:
        mon.use_tool_id(tool, 'verif-lineclock')
    except ValueError:
        mon.free_tool_id(tool)
        mon.use_tool_id(tool, 'verif-lineclock')
    mon.register_callback(tool, mon.events.LINE, on_line)
    mon.set_events(tool, mon.events.LINE)
    try:
        with wall(wall_s):
            try:
                r = fn()
                return 'done', r, count[0]
            except LineBudget:
                return 'budget', None, count[0]
            except WallNominate:
                return 'wall', None, count[0]
            except Exception as e:
                return 'raised', e, count[0]
    finally:
        mon.set_events(tool, 0)
        mon.register_callback(tool, mon.events.LINE, None)
        mon.free_tool_id(tool)


def evaluate(outs, av, *, simplify, optimize, cache=False, stats=None, nprocs=1):
    """Compile and call once.  Returns tuple of numpy arrays."""
    from nutils import evaluable as ev, parallel
    import treelog
    with warnings.catch_warnings():
        warnings.simplefilter('ignore')
        with parallel.maxprocs(nprocs), numpy.errstate(all='ignore'):
            f = ev.compile(outs, _simplify=simplify, _optimize=optimize, cache_const_intermediates=cache, stats=stats)
            return f(av)


def silence_logs():
    import treelog
    treelog.current = treelog.NullLog() if hasattr(treelog, 'NullLog') else treelog.current


_POISON = {'f': numpy.nan, 'c': complex(numpy.nan, numpy.nan), 'i': -987654321, 'u': 987654321, 'b': True}
POISON_COUNT = [0]


def install_uninitialised_memory_poison():
    """MemorySanitizer-style monitor for pure-numpy code: every array obtained from numpy.empty / empty_like (also
    parallel.shempty, which maps anonymous memory = zeros, so a missing fill would go unnoticed) is filled with a poison
    value, so that a read of memory the generated code never wrote shows up deterministically as NaN / -987654321 / True
    in the result instead of depending on what the allocator happens to return."""
    if 'poison' in _installed:
        return
    orig_empty, orig_empty_like = numpy.empty, numpy.empty_like

    def fill(a, frame):
        # only allocations requested by nutils modules or by generated code ('function_<sha1>' scripts)
        g = frame.f_globals
        if not (str(g.get('__name__', '')).startswith('nutils') or frame.f_code.co_filename.startswith('function_')):
            return a
        p = _POISON.get(a.dtype.kind)
        if p is not None and a.size:
            if a.dtype.kind in 'iu' and a.dtype.itemsize < 4:
                p = 77
            a.fill(p)
            POISON_COUNT[0] += 1
        return a

    def empty(*args, **kwargs):
        return fill(orig_empty(*args, **kwargs), sys._getframe(1))

    def empty_like(*args, **kwargs):
        return fill(orig_empty_like(*args, **kwargs), sys._getframe(1))
    numpy.empty = empty
    numpy.empty_like = empty_like
    from nutils import parallel
    orig_shempty = parallel.shempty

    def shempty(*args, **kwargs):
        return fill(orig_shempty(*args, **kwargs), sys._getframe(1))
    parallel.shempty = shempty
    _installed['poison'] = True
