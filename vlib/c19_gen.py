"""C19: random generator of valid syntax trees (documented grammar of
expression_v2; the v1 core shares it) and the renderer to expression strings."""

from vlib.c19_core import INDEX_LETTERS, BUILTIN_FUNCS


class Gen:

    def __init__(self, rng, R, maxdepth=5, version=2):
        self.rng, self.R, self.maxdepth, self.version = rng, R, maxdepth, version
        spec = R.spec
        self.lengths = list(spec['lengths'])
        self.vars = {n: tuple(R.shape(n)) for n in R.leaf}
        self.nonsmooth = getattr(R, 'nonsmooth', set())
        self.geom = spec.get('geom')
        self.userfuncs = {n: list(f['gen']) for n, f in spec['funcs'].items()}
        self.len = {}          # index letter -> length (per expression)
        self.nops = 0

    # -- helpers

    def p(self, x):
        return self.rng.random() < x

    def pick(self, seq):
        return seq[int(self.rng.integers(len(seq)))]

    def fresh(self, used, length=None):
        cand = [c for c in INDEX_LETTERS if c not in used]
        if not cand:
            cand = [c for c in 'abcdefghijklmnopqrstuvwxyz' if c not in used]
        if not cand:
            raise RuntimeError('out of index letters')
        ch = self.pick(cand[:4]) if self.p(.8) else self.pick(cand)
        self.len[ch] = int(self.pick(self.lengths)) if length is None else length
        return ch

    # -- top level

    def expression(self, nfree=None):
        self.len = {}
        self.nops = 0
        self.budget = int(self.rng.choice([2, 3, 4, 6, 8, 12, 18], p=[.1, .15, .2, .2, .17, .12, .06]))
        if nfree is None:
            nfree = int(self.rng.choice([0, 1, 2, 3], p=[.3, .35, .25, .1]))
        used = set()
        free = []
        for _ in range(nfree):
            ch = self.fresh(used | set(free))
            free.append(ch)
        tree, _ = self.expr(free, set(free), 1, grad_ok=True)
        return tree, ''.join(free)

    def expr(self, free, used, depth, grad_ok=False, smooth=False):
        """Expression with exactly the free letters `free`; returns (tree, letters newly summed inside)."""
        nterms = 1
        if depth < self.maxdepth and self.budget > 1:
            nterms = int(self.rng.choice([1, 2, 3], p=[.5, .38, .12]))
        self.budget -= nterms - 1
        terms, new = [], set()
        for k in range(nterms):
            order = list(free)
            if k and len(order) > 1:
                order = [order[i] for i in self.rng.permutation(len(order))]
            t, n = self.term(order, set(used) | (new if self.p(.5) else set()), depth, grad_ok, smooth)
            sign = '+' if k == 0 and self.p(.8) else ('-' if k == 0 else self.pick('+-'))
            terms.append([sign, t])
            new |= n
        if nterms == 1 and terms[0][0] == '+':
            return terms[0][1], new
        self.nops += nterms
        return ['sum', terms], new

    def term(self, free, used, depth, grad_ok, smooth):
        used = set(used)
        new = set()
        leafy = depth >= self.maxdepth or self.budget <= 0
        nf = int(self.rng.choice([1, 2, 3], p=[.35, .45, .2])) if self.budget > 0 else 1
        self.budget -= nf
        if leafy and len(free) > 2:
            nf = max(nf, 2)
        # distribute free letters over factors, add contraction letters shared by two factors
        fl = [[] for _ in range(nf)]
        for ch in free:
            fl[int(self.rng.integers(nf))].append(ch)
        if nf > 1:
            for _ in range(int(self.rng.choice([0, 1, 2], p=[.3, .5, .2]))):
                i, j = (int(v) for v in self.rng.choice(nf, size=2, replace=False))
                if len(fl[i]) < 3 and len(fl[j]) < 3:
                    ch = self.fresh(used)
                    used.add(ch)
                    new.add(ch)
                    fl[i].append(ch)
                    fl[j].append(ch)
        for l in fl:
            if len(l) > 1 and self.p(.6):
                l[:] = [l[i] for i in self.rng.permutation(len(l))]
        factors = []
        if self.p(.22):
            factors.append(self.number())
        for k, l in enumerate(fl):
            f, n = self.factor(l, used, depth, grad_ok, smooth, first=(k == 0 and not factors))
            used |= n
            new |= n
            factors.append(f)
        node = factors[0] if len(factors) == 1 else ['prod', factors]
        if len(factors) > 1:
            self.nops += len(factors) - 1
        if depth < self.maxdepth and self.budget > 0 and self.p(.2):
            self.budget -= 1
            den, n = self.denominator(used, depth, grad_ok, smooth)
            new |= n
            node = ['frac', node if node[0] == 'prod' else ['prod', [node]], den]
            self.nops += 1
        return node, new

    def denominator(self, used, depth, grad_ok, smooth):
        used = set(used)
        new = set()
        factors = []
        if self.p(.3):
            factors.append(self.number())
        n = 1 if factors and self.p(.5) else int(self.rng.choice([1, 2], p=[.6, .4]))
        fl = [[] for _ in range(n)]
        if n == 2 or self.p(.3):
            ch = self.fresh(used)
            used.add(ch)
            new.add(ch)
            if n == 2:
                fl[0].append(ch)
                fl[1].append(ch)
            else:
                fl[0] = None if not self._has_trace_var(self.len[ch]) else [ch, ch]
                if fl[0] is None:
                    fl[0] = []
                    new.discard(ch)
        for l in fl:
            if l and len(l) == 2 and l[0] == l[1]:
                factors.append(self.trace_var(l[0]))
                continue
            f, nn = self.factor(l, used, depth + 1, grad_ok, smooth, first=not factors)
            used |= nn
            new |= nn
            factors.append(f)
        return ['prod', factors], new

    def number(self):
        r = self.rng.random()
        if r < .6:
            return ['num', str(int(self.rng.integers(1, 6)))]
        if r < .85:
            return ['num', '{}.{}'.format(int(self.rng.integers(0, 4)), int(self.rng.integers(1, 10)))]
        return ['num', '.{}'.format(int(self.rng.integers(1, 10)))]

    def _has_trace_var(self, n):
        return any(sh == (n, n) for sh in self.vars.values())

    def trace_var(self, ch):
        n = self.len[ch]
        name = self.pick([v for v, sh in self.vars.items() if sh == (n, n)])
        return ['var', name, ch + ch]

    # -- factors

    def factor(self, free, used, depth, grad_ok, smooth, first=False):
        """A single item (possibly with a power) with exactly the free letters `free` (in any order)."""
        new = set()
        r = self.rng.random()
        deeper = depth < self.maxdepth and self.budget > 0
        if deeper and r < .30:
            node, new = self.call(free, used, depth, grad_ok, smooth)
        elif deeper and r < .52:
            kind = '('
            if self.p(.12) and not smooth and not self.R.no_opposite:
                kind = self.pick('[{')
            inner, new = self.expr(list(free), used, depth + 1, grad_ok and kind == '(', smooth)
            node = ['scope', kind, inner]
        elif first and not free and r < .58:
            node = self.number()
        else:
            node, new = self.leaf(free, used, smooth)
        if self.p(.18) and node[0] in ('var', 'scope', 'call', 'num') and not (node[0] == 'num' and not first):
            node, n2 = self.power(node, used | new, depth, smooth)
            new |= n2
        return node, new

    def power(self, base, used, depth, smooth):
        self.nops += 1
        if depth < self.maxdepth and self.budget > 0 and self.p(.35):
            self.budget -= 1
            r = self.rng.random()
            if r < .4:
                e = ['frac', ['prod', [['num', '1']]], ['prod', [['num', str(int(self.rng.integers(2, 4)))]]]]
                return ['pow', base, e], set()
            inner, new = self.expr([], used, depth + 1, False, smooth)
            return ['pow', base, inner], new
        n = int(self.pick([2, 2, 3, -1, -2, 1, 0]))
        if n < 0 and not _has_float_leaf(base):
            n = -n      # integer ^ negative integer is refused by numpy
        return ['pow', base, ['int', n]], set()

    def leaf(self, free, used, smooth):
        """Variable (with numerals / traces) or, if no variable fits, a product of smaller leaves in a scope."""
        lens = [self.len[ch] for ch in free]
        cands = []
        for name, sh in self.vars.items():
            if smooth and name in self.nonsmooth:
                continue
            m = self.match(sh, lens)
            if m is not None:
                cands.append((name, sh, m))
        if not cands:
            if not free:
                return self.number(), set()
            # outer product of vectors / smaller pieces
            k = max(1, len(free) // 2)
            a, na = self.leaf(free[:k], used, smooth) if k < len(free) else (None, set())
            if a is None:
                raise RuntimeError('no leaf for lengths {}'.format(lens))
            b, nb = self.leaf(free[k:], used | na, smooth)
            self.nops += 1
            return ['scope', '(', ['prod', [a, b]]], na | nb
        # prefer exact-ndim matches but use numerals / traces regularly
        exact = [c for c in cands if len(c[1]) == len(free)]
        name, sh, m = self.pick(exact) if exact and self.p(.7) else self.pick(cands)
        idx = [None] * len(sh)
        for ch, ax in zip(free, m):
            idx[ax] = ch
        rest = [ax for ax in range(len(sh)) if idx[ax] is None]
        new = set()
        # pair up equal-length leftover axes as traces, others numerals
        while rest:
            ax = rest.pop(0)
            partner = [b for b in rest if sh[b] == sh[ax]]
            if partner and self.p(.6):
                b = partner[0]
                rest.remove(b)
                ch = self.fresh(used | new, sh[ax])
                new.add(ch)
                idx[ax] = idx[b] = ch
                self.nops += 1
            else:
                idx[ax] = str(int(self.rng.integers(0, sh[ax])))
        return ['var', name, ''.join(idx)], new

    def match(self, shape, lens):
        """Injective assignment of the wanted lengths to axes of `shape` (random), or None; leftover axes <= 2."""
        if len(shape) < len(lens) or len(shape) > len(lens) + 2:
            return None
        axes = list(self.rng.permutation(len(shape)))
        out = []
        for n in lens:
            for ax in axes:
                if shape[ax] == n and ax not in out:
                    out.append(int(ax))
                    break
            else:
                return None
        return out

    def call(self, free, used, depth, grad_ok, smooth):
        """Function call with exactly the free letters `free`."""
        self.nops += 1
        opts = ['builtin', 'builtin']
        for n, gen in self.userfuncs.items():
            opts.append(n)
        if self.geom and self.version == 2:
            if grad_ok:
                opts += ['grad', 'grad', 'grad']
            if self.geom['mode'] == 'interfaces' and not smooth:
                opts += ['opposite']
        choice = self.pick(opts)
        if choice == 'builtin':
            fname, gen = self.pick(['sin', 'cos', 'exp', 'tanh', 'abs', 'sqrt'] if not smooth else ['sin', 'cos', 'exp', 'tanh']), []
        elif choice == 'grad':
            fname, gen = self.pick(['∇', '∇', 'd']), [self.geom['dim']]
        elif choice == 'opposite':
            fname, gen = 'opposite', []
        else:
            fname, gen = choice, self.userfuncs[choice]
        free = list(free)
        argfree = list(free)
        genidx = []
        new = set()
        for n in gen:
            r = self.rng.random()
            own = [ch for ch in argfree if self.len[ch] == n and ch in free and ch not in genidx]
            if own and r < .5:
                ch = self.pick(own)      # the generated axis carries one of the wanted free letters
                argfree.remove(ch)
                genidx.append(ch)
            elif r < .8 and len(argfree) < 3:
                ch = self.fresh(used | new | set(argfree), n)   # traced with an axis of the argument
                new.add(ch)
                argfree.append(ch)
                genidx.append(ch)
                self.nops += 1
            else:
                genidx.append(str(int(self.rng.integers(0, n))))
        if len(argfree) > 1 and self.p(.5):
            argfree = [argfree[i] for i in self.rng.permutation(len(argfree))]
        isgrad = choice == 'grad'
        inner, n2 = self.expr(argfree, used | new, depth + 1, grad_ok and not isgrad, smooth or isgrad)
        return ['call', fname, ''.join(genidx), inner], new | n2


def _has_float_leaf(node):
    if isinstance(node, list):
        if node and node[0] in ('var', 'normal', 'eye'):
            return True
        if node and node[0] == 'num':
            return '.' in node[1]
        return any(_has_float_leaf(n) for n in node)
    return False


# ---------------------------------------------------------------- rendering

def render(node, rng=None, top=True):
    """Expression string of a tree following the documented grammar (v2 and the v1 core)."""
    kind = node[0]
    if kind == 'num':
        return node[1]
    if kind == 'var':
        return node[1] + ('_' + node[2] if node[2] else '')
    if kind == 'call':
        return node[1] + ('_' + node[2] if node[2] else '') + '(' + render(node[3], rng) + ')'
    if kind == 'scope':
        close = {'(': ')', '[': ']', '{': '}'}[node[1]]
        pad = ' ' if rng is not None and rng.random() < .04 else ''
        return node[1] + pad + render(node[2], rng) + pad + close
    if kind == 'pow':
        e = node[2]
        return render(node[1], rng) + '^' + (str(e[1]) if e[0] == 'int' else '(' + render(e, rng) + ')')
    if kind == 'prod':
        sep = '  ' if rng is not None and rng.random() < .03 else ' '
        return sep.join(render(f, rng) for f in node[1])
    if kind == 'frac':
        return render(node[1], rng) + ' / ' + render(node[2], rng)
    if kind == 'sum':
        out = ''
        for k, (sign, term) in enumerate(node[1]):
            if k == 0:
                out = ('-' + (' ' if rng is not None and rng.random() < .1 else '') if sign == '-' else '') + render(term, rng)
            else:
                out += ' ' + sign + ' ' + render(term, rng)
        return out
    # v1-only constructs
    if kind == 'grad':
        inner = node[1]
        if inner[0] == 'var':
            return inner[1] + '_' + inner[2] + node[3] + node[2]
        return render(inner, rng) + '_' + node[3] + node[2]
    if kind == 'eye':
        return node[1] + '_' + node[2]
    if kind == 'normal':
        return 'n_' + node[1]
    if kind == 'stack':
        return '<' + ', '.join(render(e, rng) for e in node[1]) + '>_' + node[2]
    if kind == 'calln':
        return node[1] + ('_' + node[2] if node[2] else '') + (':' + node[3] if node[3] else '') + '(' + ', '.join(render(e, rng) for e in node[4]) + ')'
    raise ValueError(kind)


def count_ops(node):
    """Number of operators in a tree (products, sums, fractions, powers, calls, traces, scopes of kind [ {)."""
    kind = node[0]
    if kind == 'num':
        return 0
    if kind == 'var':
        idx = node[2]
        return sum(1 for ch in set(idx) if idx.count(ch) == 2) + sum(1 for ch in idx if ch.isdigit())
    if kind == 'call':
        return 1 + count_ops(node[3])
    if kind == 'scope':
        return (node[1] != '(') + count_ops(node[2])
    if kind == 'pow':
        return 1 + count_ops(node[1]) + (0 if node[2][0] == 'int' else count_ops(node[2]))
    if kind == 'prod':
        return len(node[1]) - 1 + sum(count_ops(f) for f in node[1])
    if kind == 'frac':
        return 1 + count_ops(node[1]) + count_ops(node[2])
    if kind == 'sum':
        return len(node[1]) - 1 + (node[1][0][0] == '-') + sum(count_ops(t) for s, t in node[1])
    if kind in ('grad',):
        return 1 + count_ops(node[1])
    if kind in ('eye', 'normal'):
        return 0
    if kind == 'stack':
        return 1 + sum(count_ops(e) for e in node[1])
    if kind == 'calln':
        return 1 + sum(count_ops(e) for e in node[4])
    raise ValueError(kind)


def kinds(node, out=None):
    """Set of construct kinds used in a tree (for coverage counters)."""
    out = set() if out is None else out
    kind = node[0]
    if kind == 'var':
        idx = node[2]
        out.add('var')
        if any(ch.isdigit() for ch in idx):
            out.add('numeral')
        if any(idx.count(ch) == 2 for ch in idx):
            out.add('trace')
    elif kind == 'call':
        out.add('call')
        if node[2]:
            out.add('call-generated-axes')
        if node[1] in ('∇', 'd'):
            out.add('gradient')
        if node[1] == 'opposite':
            out.add('opposite')
        kinds(node[3], out)
    elif kind == 'scope':
        out.add({'(': 'scope', '[': 'jump', '{': 'mean'}[node[1]])
        kinds(node[2], out)
    elif kind == 'pow':
        out.add('pow-int' if node[2][0] == 'int' else 'pow-scoped')
        kinds(node[1], out)
        if node[2][0] != 'int':
            kinds(node[2], out)
    elif kind == 'prod':
        out.add('product')
        for f in node[1]:
            kinds(f, out)
    elif kind == 'frac':
        out.add('fraction')
        kinds(node[1], out)
        kinds(node[2], out)
    elif kind == 'sum':
        out.add('sum')
        if node[1][0][0] == '-':
            out.add('leading-minus')
        for s, t in node[1]:
            kinds(t, out)
    elif kind == 'num':
        out.add('number')
    elif kind == 'grad':
        out.add('v1-gradient' if node[3] == ',' else 'v1-surfgrad')
        kinds(node[1], out)
    elif kind == 'eye':
        out.add('v1-eye')
    elif kind == 'normal':
        out.add('v1-normal')
    elif kind == 'stack':
        out.add('v1-stack')
        for e in node[1]:
            kinds(e, out)
    elif kind == 'calln':
        out.add('v1-call')
        if node[2]:
            out.add('v1-call-generates')
        if node[3]:
            out.add('v1-call-consumes')
        if len(node[4]) > 1:
            out.add('v1-call-multiarg')
        for e in node[4]:
            kinds(e, out)
    return out
