"""C11 monitors: plain-tuple reference model of a Transforms sequence, affine-map
equality by evaluation, recording post-condition wrapper on every
``index_with_tail`` implementation, element-index / local-coordinate monitor,
interface jump monitor, chain rewriting monitor, locate monitor.

Nothing here decides by reading nutils source: the oracles are (i) ``list(seq)``
as a python list, (ii) numpy composition of the items' ``linear``/``offset``
matrices, (iii) the sample's own points, (iv) ``sample.eval(geom)``.
"""

import gc, operator, pickle, traceback
import numpy

PASS_RTOL = 1e-9
VIOL_RTOL = 1e-5


# ---------------------------------------------------------------- affine maps

def np_apply(chain, pts):
    """Own composition of a chain: independent of transform.apply and its caches."""
    pts = numpy.asarray(pts, dtype=float)
    for item in reversed(chain):
        pts = pts @ numpy.asarray(item.linear).T + numpy.asarray(item.offset)
    return pts


def chain_dims_ok(chain):
    return all(a.fromdims == b.todims for a, b in zip(chain[:-1], chain[1:]))


def rand_points(rng, ndims, n=3):
    return rng.uniform(0.05, 0.95, size=(n, ndims))


def cmp_arrays(a, b):
    """-> 'pass' | 'marginal' | 'violation', err"""
    a = numpy.asarray(a, dtype=float)
    b = numpy.asarray(b, dtype=float)
    if a.shape != b.shape:
        return 'violation', f'shape {a.shape} != {b.shape}'
    if a.size == 0:
        return 'pass', 0.
    scale = max(1., float(numpy.abs(b).max()))
    err = float(numpy.abs(a - b).max())
    if not err <= VIOL_RTOL * scale:
        return 'violation', err
    if err <= PASS_RTOL * scale:
        return 'pass', err
    return 'marginal', err


def same_map(c1, c2, rng, res=None):
    """Do two chains represent the same affine map?  An empty chain is the identity.  -> (verdict, detail)"""
    c1, c2 = tuple(c1), tuple(c2)
    if not c1 and not c2:
        return 'pass', ''
    if not chain_dims_ok(c1) or not chain_dims_ok(c2):
        return 'violation', 'inconsistent dims inside chain'
    f = (c1 or c2)[-1].fromdims
    for c in (c1, c2):
        if c and c[-1].fromdims != f:
            return 'violation', f'fromdims {c[-1].fromdims} != {f}'
    x = rand_points(rng, f)
    v, err = cmp_arrays(np_apply(c1, x), np_apply(c2, x))
    if v == 'marginal' and res is not None:
        res.count('marginal_float')
    return v, f'max abs difference {err}'


def index_items(chain):
    from nutils import transform
    return [(it.todims, it.index) for it in chain if isinstance(it, transform.Index)]


# ---------------------------------------------------------------- post-condition wrapper (contract)

class Contract:
    """Records (never raises) when an index_with_tail call returns something that is not
    ``(i, tail)`` with ``0 <= i < len(self)`` and ``self[i] + tail`` the same affine map,
    same Index items and consistent dims as the argument.  Installed on every Transforms
    subclass by class-attribute rebinding, so it also sees the calls nutils makes itself
    (boundary/interfaces construction, f_index/f_coords evaluation, hierarchical lookups).
    """

    def __init__(self):
        self.calls = 0
        self.checked = 0
        self.raised = 0
        self.failures = []
        self.busy = False
        self.depth = 0
        self.every = 2   # check every 2nd successful call (cost control)
        self.rng = numpy.random.default_rng(12345)
        self.installed = []

    def install(self):
        from nutils import transformseq
        if self.installed:
            return
        for name in dir(transformseq):
            cls = getattr(transformseq, name)
            if isinstance(cls, type) and issubclass(cls, transformseq.Transforms) and 'index_with_tail' in cls.__dict__ and cls is not transformseq.Transforms:
                orig = cls.__dict__['index_with_tail']
                setattr(cls, 'index_with_tail', self._wrap(orig, cls.__name__))
                self.installed.append(cls.__name__)

    def _wrap(self, orig, clsname):
        contract = self

        def index_with_tail(self, trans):
            contract.depth += 1
            try:
                out = orig(self, trans)
            except ValueError:
                contract.raised += 1
                raise
            finally:
                contract.depth -= 1
            contract.calls += 1
            # outermost calls: every `every`-th; calls nested inside another sequence's lookup: every 4*`every`-th (cost control)
            if contract.busy or (contract.calls % (contract.every * (4 if contract.depth else 1))):
                return out
            contract.busy = True
            try:
                contract.check(self, clsname, trans, out)
            except Exception:
                contract.failures.append(dict(cls=clsname, what='contract evaluation crashed: ' + traceback.format_exc()[-600:], trans=repr(trans)[:400]))
            finally:
                contract.busy = False
            return out
        index_with_tail.__wrapped__ = orig
        index_with_tail.__doc__ = orig.__doc__
        return index_with_tail

    def check(self, seq, clsname, trans, out):
        self.checked += 1
        try:
            i, tail = out
            i = operator.index(i)
        except Exception:
            self.failures.append(dict(cls=clsname, what=f'result is not (int, tail): {out!r}'[:300], trans=repr(trans)[:400]))
            return
        if not 0 <= i < len(seq):
            self.failures.append(dict(cls=clsname, what=f'index {i} out of range({len(seq)})', trans=repr(trans)[:400]))
            return
        full = tuple(seq[i]) + tuple(tail)
        v, det = same_map(full, tuple(trans), self.rng)
        if v == 'violation':
            self.failures.append(dict(cls=clsname, what=f'self[{i}]+tail is not the same affine map as the argument: {det}', trans=repr(trans)[:400], got=repr(full)[:400]))
        elif index_items(full) != index_items(trans):
            self.failures.append(dict(cls=clsname, what=f'self[{i}]+tail has other Index items than the argument', trans=repr(trans)[:400], got=repr(full)[:400]))


CONTRACT = Contract()


# ---------------------------------------------------------------- tails

def random_tail(ref, rng, maxlen=4, p_edge=.4):
    """Random chain of child / edge transforms valid for ``ref``.  -> (tail, kinds)"""
    n = int(rng.integers(1, maxlen + 1))
    tail, kinds = [], []
    for _ in range(n):
        for attempt in range(4):
            use_edge = ref.ndims >= 1 and rng.random() < p_edge
            try:
                if use_edge:
                    trs, rfs = ref.edge_transforms, ref.edge_refs
                else:
                    trs, rfs = ref.child_transforms, ref.child_refs
            except Exception:
                continue
            if not len(trs):
                continue
            k = int(rng.integers(0, len(trs)))
            try:
                nonempty = bool(rfs[k])
            except Exception:      # e.g. an OwnChildReference of an EmptyLike child of a trimmed element has no 'gauss' scheme to measure its volume
                nonempty = False
            if nonempty:
                tail.append(trs[k])
                kinds.append(('edge:' if use_edge else 'child:') + type(trs[k]).__name__ + '@' + type(ref).__name__.replace('Reference', ''))
                ref = rfs[k]
                break
        else:
            break
    return tuple(tail), kinds


def rebuild_item(item):
    """Re-create an equal transform item through a fresh constructor call."""
    from nutils import transform, types
    T = type(item)
    if T is transform.Index:
        return transform.Index(int(item.todims), int(item.index))
    if T is transform.Identity:
        return transform.Identity(int(item.todims))
    if T is transform.SimplexChild:
        return transform.SimplexChild(int(item.todims), int(item.ichild))
    if T is transform.SimplexEdge:
        return transform.SimplexEdge(int(item.todims), int(item.iedge), bool(item.inverted))
    if T is transform.TensorChild:
        return transform.TensorChild(rebuild_item(item.trans1), rebuild_item(item.trans2))
    if T is transform.TensorEdge1:
        return transform.TensorEdge1(rebuild_item(item.trans), int(item.fromdims - item.trans.fromdims))
    if T is transform.TensorEdge2:
        return transform.TensorEdge2(int(item.fromdims - item.trans.fromdims), rebuild_item(item.trans))
    if T is transform.ScaledUpdim:
        return transform.ScaledUpdim(rebuild_item(item.trans1), rebuild_item(item.trans2))
    if T is transform.Updim:
        return transform.Updim(types.arraydata(numpy.array(item.linear)), types.arraydata(numpy.array(item.offset)), bool(item.isflipped))
    if T is transform.Square:
        return transform.Square(types.arraydata(numpy.array(item.linear)), types.arraydata(numpy.array(item.offset)))
    if T is transform.Matrix:
        return transform.Matrix(types.arraydata(numpy.array(item.linear)), types.arraydata(numpy.array(item.offset)))
    if T is transform.Point:
        return transform.Point(types.arraydata(numpy.array(item.offset)))
    return None


def rebuild_chain(chain):
    out = []
    for it in chain:
        r = rebuild_item(it)
        if r is None:
            return None
        out.append(r)
    return tuple(out)


# ---------------------------------------------------------------- (a) sequence vs tuple model

class Reporter:
    def __init__(self, res, case, default_mechanism=None):
        self.res, self.case = res, case
        self.nviol = 0
        self.default_mechanism = default_mechanism  # set only when a structural predicate of an open finding holds for this part

    def violation(self, monitor, detail, mechanism=None, **extra):
        self.nviol += 1
        if self.nviol <= 6:
            self.res.violation(monitor, dict(self.case, **extra), detail, mechanism=mechanism or self.default_mechanism)

    def count(self, name, n=1):
        self.res.count(name, n)


def _subsequences(seq):
    if hasattr(seq, '_parent'):
        return [seq._parent]
    if hasattr(seq, '_items'):
        return list(seq._items)
    return []


def two_faces_same_opposite(tr, op):
    """Structural predicate of the open finding C11-two-shared-faces-same-opposite: at some level of the (parallel)
    nesting of a topology's transforms / opposites sequences, two DIFFERENT faces of ONE element (same Index items,
    different chains) carry the identical opposite chain.  That is what `util.index(connectivity[ioppelem], ielem)`
    produces when two elements share two faces (periodic direction with two elements): the inner opposites sequence
    then contains a duplicate, which violates the documented precondition of Transforms and makes index() of the
    masked/derived sequences built on top of it fail."""
    try:
        if len(tr) == len(op) and 0 < len(tr) <= 4000:
            T = [tuple(c) for c in tr]
            seen = {}
            for k, c in enumerate(op):
                key = tuple(map(id, c))
                j = seen.setdefault(key, k)
                if j != k and index_items(T[j]) == index_items(T[k]) and tuple(map(id, T[j])) != tuple(map(id, T[k])):
                    return True
            del T
    except Exception:
        return False
    a, b = _subsequences(tr), _subsequences(op)
    if type(tr) is type(op) and len(a) == len(b):
        return any(two_faces_same_opposite(x, y) for x, y in zip(a, b))
    return False


def hull(ref):
    """the untrimmed reference behind a trimmed (WithChildren / Mosaic / OwnChild) reference"""
    while hasattr(ref, 'baseref'):
        ref = ref.baseref
    return ref


def _lookup(seq, method, chain):
    """-> ('ok', value) | ('ValueError', None) | ('exc', text)"""
    try:
        return 'ok', getattr(seq, method)(chain)
    except ValueError:
        return 'ValueError', None
    except Exception as e:
        return 'exc', f'{type(e).__name__}: {e}'[:300]


def scaledupdim_identity(chain, ntrans):
    """Out-of-scope predicate (coordinator ruling): the *tail* contains a plain Identity (own-child transform of a
    trimmed OwnChildReference) directly after a ScaledUpdim, which uppermost() reads as the encoded pair
    (child, edge).  No topology operation builds such a chain (only Transforms.edges() applied by hand to a trimmed
    sequence followed by the own-child transform does); met cases are counted as out_of_scope, not looked up."""
    from nutils import transform
    return any(type(chain[k]) is transform.Identity and type(chain[k - 1]) is transform.ScaledUpdim for k in range(max(1, ntrans), len(chain)))


def check_found(seq, items, i, tail, chain, rng, rep, where, form='literal'):
    """chain == items[i] + tail (literally, or an equivalent rewriting when form != 'literal')."""
    rep.count('lookups')
    rep.count('lookup_form/' + form)
    st, out = _lookup(seq, 'index_with_tail', chain)
    if st == 'ValueError':
        if form != 'literal':
            rep.count('rewritten_chain_not_resolved/' + form)
            return False
        rep.violation('index_with_tail raised ValueError for element chain + valid tail', f'{where}: i={i} chain={chain!r}'[:1500], where=where, i=i, tail=repr(tail))
        return False
    if st == 'exc':
        rep.violation('index_with_tail raised unexpected exception', f'{where}: i={i} form={form} {out} chain={chain!r}'[:1500], where=where, i=i, tail=repr(tail))
        return False
    try:
        j, t2 = out
        j = operator.index(j)
        t2 = tuple(t2)
    except Exception:
        rep.violation('index_with_tail result malformed', f'{where}: {out!r}'[:600], where=where, i=i)
        return False
    if j != i:
        rep.violation('index_with_tail returned wrong index', f'{where}: expected {i} got {j} (form={form}) for chain {chain!r}; seq[{j}]={items[j] if 0 <= j < len(items) else None!r}'[:1500], where=where, i=i, tail=repr(tail))
        return False
    v, det = same_map(t2, tail, rng, rep.res)
    if v == 'violation':
        rep.violation('index_with_tail returned a tail that is a different affine map', f'{where}: i={i} form={form} tail={tail!r} returned {t2!r}: {det}'[:1500], where=where, i=i, tail=repr(tail))
        return False
    if t2 and t2[0].todims != seq.fromdims:
        rep.violation('returned tail has wrong dims', f'{where}: tail[0].todims={t2[0].todims} != seq.fromdims={seq.fromdims}', where=where, i=i, tail=repr(tail))
        return False
    # the boolean / no-tail interfaces must agree (sampled: each is another full lookup)
    if form != 'literal' or rng.random() < .6:
        return True
    rep.count('lookups_with_boolean_interfaces')
    st2, k = _lookup(seq, 'index', chain)
    if tail:
        if st2 != 'ValueError':
            rep.violation('index() accepted a chain with non-empty tail', f'{where}: i={i} form={form} -> {st2} {k!r}', where=where, i=i, tail=repr(tail))
        if seq.contains(chain) is not False or (chain in seq) is not False:
            rep.violation('contains() true for chain with non-empty tail', f'{where}: i={i}', where=where, i=i, tail=repr(tail))
    else:
        if st2 != 'ok' or operator.index(k) != i:
            rep.violation('index(seq[i]) != i', f'{where}: i={i} form={form} -> {st2} {k!r}', where=where, i=i)
        if seq.contains(chain) is not True or (chain in seq) is not True:
            rep.violation('contains(seq[i]) false', f'{where}: i={i}', where=where, i=i)
    if seq.contains_with_tail(chain) is not True:
        rep.violation('contains_with_tail false although index_with_tail succeeds', f'{where}: i={i}', where=where, i=i, tail=repr(tail))
    return True


def check_absent(seq, items, chain, rep, where, exact_model):
    """chain is not (a rewriting of) an element of items, as far as the model can tell.

    exact_model=True : the model is decisive (all-square chains: no rewriting possible):
                       any answer other than ValueError is a violation.
    exact_model=False: only soundness of a positive answer is demanded: a returned index k
                       must satisfy items[k]+tail == chain as affine map and Index items.
    """
    from nutils import transform
    rep.count('absent_lookups')
    for method in ('index_with_tail', 'index'):
        st, out = _lookup(seq, method, chain)
        if st == 'ValueError':
            rep.count('absent_refused')
            continue
        if st == 'exc':
            rep.violation(f'{method} of an absent chain raised something other than ValueError', f'{where}: {out}; chain={chain!r}'[:1200], where=where, chain=repr(chain))
            continue
        if method == 'index':
            k, t2 = out, ()
        else:
            k, t2 = out
        k = operator.index(k)
        if exact_model:
            rep.violation(f'{method} returned an index for a chain that is not in the sequence', f'{where}: chain={chain!r} -> {k}, seq[{k}]={items[k] if 0 <= k < len(items) else None!r}'[:1500], where=where, chain=repr(chain))
            continue
        full = tuple(items[k]) + tuple(t2) if 0 <= k < len(items) else None
        if full is None or same_map(full, chain, numpy.random.default_rng(0))[0] == 'violation' or index_items(full) != index_items(chain):
            rep.violation(f'{method} returned a wrong index for a chain that is not in the sequence', f'{where}: chain={chain!r} -> {k}, seq[k]+tail={full!r}'[:1500], where=where, chain=repr(chain))
        else:
            rep.count('absent_resolved_to_equivalent')
    for method in ('contains', 'contains_with_tail'):
        try:
            b = getattr(seq, method)(chain)
        except Exception as e:
            rep.violation(f'{method} raised', f'{where}: {type(e).__name__}: {e}'[:500], where=where, chain=repr(chain))
            continue
        st, _ = _lookup(seq, 'index' if method == 'contains' else 'index_with_tail', chain)
        if b is not (st == 'ok') and st != 'exc':
            rep.violation(f'{method} inconsistent with index', f'{where}: {method}={b!r} but lookup status {st}', where=where, chain=repr(chain))


def all_square(chain):
    return all(it.fromdims == it.todims for it in chain)


def model_prefix(items_by_id, chain):
    """Exact model for all-square chains: k such that items[k] is a literal prefix of chain."""
    ids = tuple(map(id, chain))
    for n in range(len(ids), 0, -1):
        k = items_by_id.get(ids[:n])
        if k is not None:
            return k, chain[n:]
    return None


def check_getitem(seq, items, rng, rep, where):
    """len / iteration / __getitem__ against the python list.  Returns list of (label, subseq, indices)."""
    n = len(items)
    subs = []
    if len(seq) != n:
        rep.violation('len(seq) != len(list(seq))', f'{where}: {len(seq)} != {n}', where=where)
        return subs
    ks = list(range(n)) if n <= 12 else sorted(set(int(k) for k in rng.integers(0, n, 12)) | {0, n - 1})
    for k in ks:
        rep.count('getitem/int')
        for idx, lab in ((k, 'int'), (k - n, 'negative int'), (numpy.int64(k), 'numpy int')):
            try:
                got = seq[idx]
            except Exception as e:
                rep.violation('seq[int] raised', f'{where}: seq[{idx!r}] ({lab}): {type(e).__name__}: {e}'[:500], where=where, i=k)
                continue
            if tuple(got) != tuple(items[k]):
                rep.violation('seq[int] != list(seq)[int]', f'{where}: seq[{idx!r}] ({lab}) = {got!r} != {items[k]!r}'[:1200], where=where, i=k)
    for bad in (n, -n - 1):
        rep.count('getitem/out_of_range')
        try:
            got = seq[bad]
        except IndexError:
            pass
        except Exception as e:
            rep.violation('seq[out of range] raised something other than IndexError', f'{where}: seq[{bad}]: {type(e).__name__}: {e}'[:500], where=where)
        else:
            rep.violation('seq[out of range] returned', f'{where}: seq[{bad}] = {got!r}'[:500], where=where)
    if n == 0:
        return subs

    def compare(index, label, expect_idx):
        rep.count('getitem/' + label)
        try:
            sub = seq[index]
        except NotImplementedError:
            rep.count('getitem_refused/' + label)
            return
        except Exception as e:
            rep.violation('seq[index] raised', f'{where}: {label} {index!r}: {type(e).__name__}: {e}'[:600], where=where, index=repr(index))
            return
        try:
            got = list(sub)
            m = len(sub)
        except Exception as e:
            rep.violation('iterating seq[index] raised', f'{where}: {label} {index!r}: {type(e).__name__}: {e}'[:600], where=where, index=repr(index))
            return
        exp = [items[int(k)] for k in expect_idx]
        if m != len(exp) or len(got) != len(exp) or any(tuple(a) != tuple(b) for a, b in zip(got, exp)):
            rep.violation('seq[index] disagrees with the tuple model', f'{where}: {label} {index!r}: got {len(got)} items (len {m}), expected {len(exp)}; first difference at {next((q for q, (a, b) in enumerate(zip(got, exp)) if tuple(a) != tuple(b)), None)}'[:800], where=where, index=repr(index))
            return
        subs.append((label, sub, [int(k) for k in expect_idx]))
    a, b = sorted(int(x) for x in rng.integers(0, n + 1, 2))
    compare(slice(a, b), 'slice', range(n)[a:b])
    step = int(rng.integers(2, 4))
    compare(slice(a, None, step), 'slice_step', range(n)[a::step])
    compare(slice(None, -1 if n > 1 else None), 'slice_neg_stop', range(n)[:-1 if n > 1 else None])
    k = int(rng.integers(1, n + 1))
    idx = numpy.sort(rng.choice(n, size=k, replace=False))
    compare(idx, 'intarray_sorted', idx)
    if n >= 2:
        perm = rng.permutation(n)[:max(2, k)]
        compare(perm, 'intarray_unsorted', perm)
    mask = rng.random(n) < .5
    compare(mask, 'boolmask', numpy.nonzero(mask)[0])
    compare(numpy.ones(n, dtype=bool), 'boolmask_all', range(n))
    # documented refusals
    for index, label, excs in ((slice(None, None, -1), 'negative step', (NotImplementedError,)),
                               (numpy.array([0, 0]), 'repeated index', (ValueError,)),
                               (numpy.array([n]), 'intarray out of range', (IndexError,)),
                               (numpy.array([-1]), 'intarray negative', (IndexError,)),
                               (numpy.ones(n + 1, dtype=bool), 'mask of wrong length', (IndexError,))):
        if label == 'negative step' and n < 2:
            continue
        try:
            sub = seq[index]
        except excs:
            rep.count('getitem_refused/' + label)
        except Exception as e:
            rep.count('getitem_refused_other/' + label + ':' + type(e).__name__)
        else:
            # accepted: then it must agree with numpy semantics of the model
            try:
                exp = [items[int(q)] for q in numpy.arange(n)[index]]
                ok = [tuple(x) for x in sub] == [tuple(x) for x in exp]
            except Exception:
                ok = False
            if ok:
                rep.count('getitem_accepted/' + label)
            else:
                rep.violation('seq[hostile index] returned something that is not the model selection', f'{where}: {label}', where=where, index=repr(index))
    return subs


def check_lookups(seq, refs, items, rng, rep, where, nlook, gc_stress=True, siblings=()):
    """Element lookups with and without tails, in literal and rewritten form, plus absent chains."""
    from nutils import transform
    n = len(items)
    if n == 0:
        for chain in siblings[:3]:
            check_absent(seq, items, chain, rep, where, exact_model=True)
        return
    items_by_id = {tuple(map(id, t)): k for k, t in enumerate(items)}
    if len(items_by_id) != n:
        rep.count('sequences_with_duplicate_chains')
        return
    ks = list(range(n)) if n <= nlook else [int(k) for k in rng.choice(n, size=nlook, replace=False)]
    for i in ks:
        chain = items[i]
        if not chain_dims_ok(chain) or chain[0].todims != seq.todims or chain[-1].fromdims != seq.fromdims:
            rep.violation('element chain has inconsistent dims', f'{where}: i={i} {chain!r}'[:800], where=where, i=i)
            continue
        check_found(seq, items, i, (), chain, rng, rep, where)
        ref = refs[i]
        tail, kinds = random_tail(ref, rng)
        if tail and scaledupdim_identity(chain + tail, len(chain)):
            rep.count('out_of_scope/own_child_identity_after_scaledupdim')
            k0 = next(k for k in range(len(chain), len(chain) + len(tail)) if scaledupdim_identity((chain + tail)[:k + 1], len(chain)))
            tail, kinds = tail[:k0 - len(chain)], kinds[:k0 - len(chain)]
        if tail:
            for kd in kinds:
                rep.count('tail_item/' + kd)
            rep.count(f'tail_len/{len(tail)}')
            full = chain + tail
            ok = check_found(seq, items, i, tail, full, rng, rep, where)
            # equivalent rewritings of the same chain (what topology code passes around)
            if ok:
                for form, fn in (('canonical', transform.canonical), ('uppermost', transform.uppermost), ('promote', lambda c: transform.promote(c, seq.fromdims))):
                    try:
                        alt = fn(full)
                    except Exception as e:
                        rep.violation(f'{form} raised on a valid chain', f'{where}: {type(e).__name__}: {e}; chain={full!r}'[:1000], where=where, i=i, tail=repr(tail))
                        continue
                    if tuple(map(id, alt)) == tuple(map(id, full)) or rng.random() < .4:
                        continue
                    check_found(seq, items, i, tail, alt, rng, rep, where, form=form)
        if gc_stress and rng.random() < .5:
            # construction-route stress: drop our references where possible, collect, re-create equal items
            fresh = rebuild_chain(chain + tail)
            if fresh is None:
                rep.count('rebuild_unsupported')
            else:
                rep.count('rebuilt_chain_lookups')
                if any(a is not b for a, b in zip(fresh, chain + tail)):
                    rep.count('rebuilt_items_not_identical')
                check_found(seq, items, i, tail, fresh, rng, rep, where + '/rebuilt', form='literal')
            try:
                pk = pickle.loads(pickle.dumps(chain + tail))
                rep.count('pickled_chain_lookups')
                check_found(seq, items, i, tail, tuple(pk), rng, rep, where + '/pickled', form='literal')
            except (pickle.PicklingError, TypeError, AttributeError):
                rep.count('pickle_unsupported')
    # absent chains
    cands = []
    for i in ks[:6]:
        chain = items[i]
        it0 = chain[0]
        if isinstance(it0, transform.Index):
            cands.append(((transform.Index(it0.todims, it0.index + 100003),) + chain[1:], True, 'foreign root'))
        if all_square(chain):
            last = chain[-1]
            if isinstance(last, (transform.SimplexChild, transform.TensorChild)):
                cands.append((chain[:-1], None, 'parent of element'))
                ref = refs[i]
                try:
                    sibs = [c for c in ref.child_transforms if c is not last and c.fromdims == last.fromdims]
                except Exception:
                    sibs = []
                if sibs:
                    cands.append((chain[:-1] + (sibs[int(rng.integers(0, len(sibs)))],), None, 'sibling of element'))
    for chain in siblings:
        cands.append((chain, None, 'chain of a sibling sequence'))
    for chain, exact, label in cands:
        if len(chain) == 0:
            continue
        if chain[0].todims != seq.todims or not chain_dims_ok(chain):
            continue
        rep.count('absent_kind/' + label)
        sq = all_square(chain) and seq.fromdims == seq.todims
        if sq:
            hit = model_prefix(items_by_id, chain)
            if hit is not None:
                k, rest = hit
                check_found(seq, items, k, rest, chain, rng, rep, where + '/' + label)
                continue
            # is the chain a proper prefix of an element (coarser than the sequence)?  then absent as well
            check_absent(seq, items, chain, rep, where + '/' + label, exact_model=True)
        else:
            if tuple(map(id, chain)) in items_by_id:
                k = items_by_id[tuple(map(id, chain))]
                check_found(seq, items, k, (), chain, rng, rep, where + '/' + label)
            elif exact:
                check_absent(seq, items, chain, rep, where + '/' + label, exact_model=True)
            else:
                check_absent(seq, items, chain, rep, where + '/' + label, exact_model=False)


def check_derived(seq, refs, items, rng, rep, where):
    """refined / edges sequences agree with the model built from the references."""
    out = []
    n = len(items)
    if n == 0 or n > 150:
        return out
    for attr, meth in (('child_transforms', 'refined'), ('edge_transforms', 'edges')):
        if meth == 'edges' and seq.fromdims == 0:
            continue
        try:
            model = [items[i] + (t,) for i in range(n) for t in getattr(refs[i], attr)]
            drefs = [r for i in range(n) for r in getattr(refs[i], attr.replace('transforms', 'refs'))]
        except Exception as e:
            rep.count(f'derived_model_unavailable/{meth}:{type(e).__name__}')
            continue
        try:
            d = getattr(seq, meth)(refs)
            got = list(d)
        except Exception as e:
            rep.violation(f'seq.{meth}(references) raised', f'{where}: {type(e).__name__}: {e}'[:600], where=where)
            continue
        rep.count('derived_sequences/' + meth)
        if len(d) != len(model) or len(got) != len(model) or any(tuple(a) != tuple(b) for a, b in zip(got, model)):
            rep.violation(f'seq.{meth}(references) disagrees with the model built from the references', f'{where}: len {len(d)} / {len(got)} vs model {len(model)}', where=where)
            continue
        out.append((meth, d, drefs, got))
    return out


def check_sequence(seq, refs, rng, rep, where, nlook=20, depth=1, siblings=(), res_sets=None):
    """Monitor (a) on one sequence.  refs[i] is the reference of element i."""
    from vlib import c11_gen
    from nutils.elementseq import References
    res = rep.res
    res.count('sequences')
    s = c11_gen.sig(seq)
    res.add('signatures', s)
    for c in c11_gen.classes_in(seq):
        res.add('classes', c)
        res.count('class_reached/' + c)
    res.maximum('max_nesting_depth', c11_gen.depth(seq))
    # GC stress *before* we hold any element chain: sequences that build chains on the fly
    # must hand out chains that still resolve after a collection
    n = len(seq)
    pending = []
    if n:
        i0 = int(rng.integers(0, n))
        first = seq[i0]
        gc.collect()
        st, k = _lookup(seq, 'index', first)
        res.count('gc_lookups')
        if st != 'ok' or operator.index(k) != i0:
            pending.append(('index(seq[i]) != i after gc.collect()', f'{where}: i={i0} -> {st} {k!r}', i0))
        del first
        gc.collect()
        st, k = _lookup(seq, 'index', seq[i0])
        res.count('gc_lookups')
        if st != 'ok' or operator.index(k) != i0:
            pending.append(('index(seq[i]) != i for a chain re-created after gc.collect()', f'{where}: i={i0} -> {st} {k!r}', i0))
    try:
        items = [tuple(t) for t in seq]
    except Exception as e:
        rep.violation('iterating the sequence raised', f'{where}: {type(e).__name__}: {e}'[:600], where=where)
        return
    # documented precondition of Transforms: no chain of the sequence starts with another chain of the sequence
    # (duplicates included).  Topology code can hand out such sequences (e.g. boundary opposites of a subset of a
    # periodic mesh with two elements in the periodic direction name the same neighbour edge twice); lookups are
    # ambiguous there, so nothing is demanded (that is C10's business) and the sequence is only counted.
    idset = {tuple(map(id, t)) for t in items}
    if len(idset) != len(items) or any(tuple(map(id, t[:m])) in idset for t in items for m in range(1, len(t))):
        res.count('sequences_violating_prefix_precondition')
        res.add('prefix_precondition_violated_in', where.split('[')[0] + ':' + s)
        return
    for monitor, detail, i0 in pending:
        rep.violation(monitor, detail, where=where, i=i0)
    if len(items) != len(refs):
        rep.violation('len(list(seq)) != len(references)', f'{where}: {len(items)} != {len(refs)}', where=where)
        return
    subs = check_getitem(seq, items, rng, rep, where)
    check_lookups(seq, refs, items, rng, rep, where, nlook, siblings=siblings)
    if depth > 0:
        for label, sub, idx in subs:
            if len(idx) == 0 or sub is seq:
                continue
            if rng.random() < .5:
                continue
            subrefs = [refs[k] for k in idx]
            absent = [items[k] for k in range(len(items)) if k not in set(idx)][:3]
            sitems = [items[k] for k in idx]
            res.count('subsequences_checked')
            res.add('signatures', c11_gen.sig(sub))
            for c in c11_gen.classes_in(sub):
                res.add('classes', c)
                res.count('class_reached/' + c)
            check_lookups(sub, subrefs, sitems, rng, Reporter(res, dict(rep.case, sub=label, subindex=[int(k) for k in idx])), where + '[' + label + ']', max(4, nlook // 3), siblings=absent)
        for meth, d, drefs, ditems in check_derived(seq, refs, items, rng, rep, where):
            res.add('signatures', c11_gen.sig(d))
            for c in c11_gen.classes_in(d):
                res.add('classes', c)
                res.count('class_reached/' + c)
            check_lookups(d, drefs, ditems, rng, Reporter(res, dict(rep.case, derived=meth)), where + '.' + meth, max(4, nlook // 3))
            # chaining: seq + seq-like
        try:
            half = seq[:max(1, len(items) // 2)]
            rest = seq[max(1, len(items) // 2):]
            both = rest + half
            exp = items[max(1, len(items) // 2):] + items[:max(1, len(items) // 2)]
            got = [tuple(t) for t in both]
            res.count('chained_sequences')
            if got != exp or len(both) != len(exp):
                rep.violation('(seq[k:] + seq[:k]) disagrees with the tuple model', f'{where}: {len(got)} vs {len(exp)}', where=where)
            else:
                res.add('signatures', c11_gen.sig(both))
                k2 = max(1, len(items) // 2)
                check_lookups(both, [refs[k] for k in list(range(k2, len(items))) + list(range(k2))], exp, rng, Reporter(res, dict(rep.case, derived='rotated chain')), where + '.rotated', max(4, nlook // 3))
        except NotImplementedError:
            res.count('chain_refused')


# ---------------------------------------------------------------- (b) f_index / f_coords

def check_index_coords(topo, other, rng, rep, where, own, ischeme=('gauss', 2), maxelems=12, use_opposite=False):
    """sample of ``other`` evaluated against topo.f_index / topo.f_coords."""
    from nutils import function
    res = rep.res
    try:
        smp = other.sample(*ischeme)
    except Exception as e:
        res.count(f'sample_refused/{type(e).__name__}')
        return
    if smp.nelems == 0:
        return
    fi, fc = topo.f_index, topo.f_coords
    if use_opposite:
        fi, fc = function.opposite(fi), function.opposite(fc)
    try:
        idx, crd = smp.eval([fi, fc])
    except Exception as e:
        rep.violation('evaluating [f_index, f_coords] raised', f'{where}: {type(e).__name__}: {e}'[:800], where=where)
        return
    res.count('index_coords_evals')
    res.count('index_coords_evals/' + where.split(':')[0])
    seqs = smp.transforms
    side = seqs[-1] if use_opposite else seqs[0]
    tseq = topo.transforms
    js = range(smp.nelems) if smp.nelems <= maxelems else sorted(int(j) for j in rng.choice(smp.nelems, size=maxelems, replace=False))
    for j in js:
        I = smp.getindex(j)
        pts = numpy.asarray(smp.points.get(j).coords)
        res.count('index_coords_elements')
        ii = numpy.unique(idx[I])
        if len(ii) != 1:
            rep.violation('f_index not constant over the points of one element', f'{where}: element {j}: {idx[I].tolist()}', where=where, j=j)
            continue
        i = int(ii[0])
        if not 0 <= i < len(topo):
            rep.violation('f_index out of range', f'{where}: element {j}: {i} not in range({len(topo)})', where=where, j=j)
            continue
        if own:
            if i != j:
                rep.violation('f_index != element number on the topology\'s own sample', f'{where}: element {j} evaluates to {i}', where=where, j=j)
                continue
            v, err = cmp_arrays(crd[I], pts)
            if v == 'violation':
                rep.violation('f_coords != the sample\'s own points', f'{where}: element {j}: max abs difference {err}', where=where, j=j)
            elif v == 'marginal':
                res.count('marginal_float')
            continue
        # foreign sample: the local point of element i must be the same root point as the sample point, and lie in element i
        v, err = cmp_arrays(np_apply(tseq[i], crd[I]), np_apply(side[j], pts))
        if v == 'violation':
            rep.violation('f_coords of element f_index is a different point than the sample point', f'{where}: sample element {j} -> element {i}: root coordinates differ by {err}', where=where, j=j)
            continue
        elif v == 'marginal':
            res.count('marginal_float')
        if index_items(tseq[i]) != index_items(side[j])[:len(index_items(tseq[i]))]:
            rep.violation('f_index names an element with other Index items than the sample element', f'{where}: sample element {j} chain {side[j]!r} -> element {i} chain {tseq[i]!r}'[:1000], where=where, j=j)
            continue
        # a local coordinate of element i must lie in the (untrimmed) reference of element i.  Whether it also lies in the
        # trimmed part is not demanded: the edge references of a trimmed element and its volume mosaic are separate
        # approximations of the cut (observed: a face of a trimmed tetrahedron with a vertex 2e-3 outside the volume
        # mosaic), whose consistency is a conservation question (C10), not a lookup / coordinate-map question.
        ref = topo.references[i]
        try:
            inside = all(hull(ref).inside(p, 1e-8) for p in crd[I])
        except Exception:
            res.count('inside_unavailable')
            inside = True
        if not inside:
            rep.violation('f_coords outside the reference of element f_index', f'{where}: sample element {j} -> element {i}, coords {crd[I].tolist()}'[:800], where=where, j=j)
        elif hull(ref) is not ref:
            res.count('f_coords_on_trimmed_elements')
            try:
                if not all(ref.inside(p, 1e-8) for p in crd[I]):
                    res.count('f_coords_outside_trimmed_part_of_element')
            except Exception:
                res.count('inside_unavailable')


# ---------------------------------------------------------------- (c) interfaces: jump of a continuous function

def continuous_fields(geom, info, bbox):
    """Fields that are continuous across every interface of the mesh (also across a periodic seam)."""
    from nutils import function
    lo, hi = bbox
    comps = []
    for d in range(len(lo)):
        u = (geom[d] - lo[d]) / (hi[d] - lo[d])
        if d in info.get('periodic', []):
            comps += [numpy.cos(2 * numpy.pi * u), numpy.sin(2 * numpy.pi * u)]
        else:
            comps += [u, u * u - .3 * u]
    f = numpy.stack(comps)
    return f


def check_jump(ifaces, geom, info, bbox, rep, where):
    from nutils import function
    res = rep.res
    f = continuous_fields(geom, info, bbox)
    try:
        smp = ifaces.sample('gauss', 2)
        J = smp.eval(function.jump(f))
        F = smp.eval(f)
    except Exception as e:
        rep.violation('evaluating jump on interfaces raised', f'{where}: {type(e).__name__}: {e}'[:800], where=where)
        return
    res.count('jump_evals')
    res.count('jump_points', len(J))
    if J.size == 0:
        return
    err = float(numpy.abs(J).max())
    scale = max(1., float(numpy.abs(F).max()))
    if err > VIOL_RTOL * scale:
        rep.violation('jump of a continuous field across interfaces is not zero', f'{where}: max |jump| = {err} at point {int(numpy.abs(J).max(1).argmax())} of {len(J)}', where=where)
    elif err > PASS_RTOL * scale:
        res.count('marginal_float')


# ---------------------------------------------------------------- (d) chain rewriting

def reference_pool():
    from nutils import element
    pt, ln, tri, tet = (element.getsimplex(k) for k in range(4))
    return {'point': pt, 'line': ln, 'triangle': tri, 'tetrahedron': tet, 'square': ln * ln, 'cube': ln * ln * ln, 'prism': tri * ln, 'line*triangle': ln * tri,
            'square*line': (ln * ln) * ln, 'hypercube': (ln * ln) * (ln * ln), 'triangle*triangle': tri * tri}


def random_chain(rng, maxlen=6):
    from nutils import transform, types
    pool = reference_pool()
    name = str(rng.choice(list(pool), p=[.02, .1, .16, .14, .16, .12, .1, .08, .06, .03, .03]))
    ref = pool[name]
    chain, kinds = [], [name]
    if rng.random() < .4:
        chain.append(transform.Index(ref.ndims, int(rng.integers(0, 5))))
        kinds.append('Index')
    n = int(rng.integers(1, maxlen + 1))
    for _ in range(n):
        if ref.ndims >= 1 and rng.random() < .06:
            # generic (non-swappable) updim from a random facet-like simplex inside the reference
            nd = ref.ndims
            verts = rng.uniform(.1, .9, size=(nd, nd))
            t = transform.Updim(types.arraydata((verts[1:] - verts[0]).T.copy()), types.arraydata(verts[0].copy()), bool(rng.random() < .5))
            from nutils import element
            chain.append(t)
            kinds.append('Updim')
            ref = element.getsimplex(nd - 1)
            continue
        if rng.random() < .03:
            chain.append(transform.Identity(ref.ndims))
            kinds.append('Identity')
            continue
        use_edge = ref.ndims >= 1 and rng.random() < .45
        trs, rfs = (ref.edge_transforms, ref.edge_refs) if use_edge else (ref.child_transforms, ref.child_refs)
        k = int(rng.integers(0, len(trs)))
        chain.append(trs[k])
        kinds.append(type(trs[k]).__name__)
        ref = rfs[k]
    return tuple(chain), kinds


def check_rewrites(chain, rng, rep, where):
    """canonical / uppermost / promote never change the map; iscanonical(canonical(c))."""
    from nutils import transform
    res = rep.res
    res.count('chains')
    nd = chain[-1].fromdims
    x = rand_points(rng, nd)
    ref = np_apply(chain, x)
    a = numpy.asarray(transform.apply(chain, x))
    v, err = cmp_arrays(a, ref)
    if v == 'violation':
        rep.violation('transform.apply differs from the numpy composition of the items', f'{where}: {chain!r}: {err}'[:1000], chain=repr(chain))
    dims = sorted({it.fromdims for it in chain} | {it.todims for it in chain})
    forms = [('canonical', transform.canonical, None), ('uppermost', transform.uppermost, None)] + [('promote', transform.promote, d) for d in dims]
    for name, fn, arg in forms:
        res.count('rewrites/' + name)
        try:
            out = fn(chain) if arg is None else fn(chain, arg)
        except Exception as e:
            rep.violation(f'{name} raised', f'{where}: {chain!r}: {type(e).__name__}: {e}'[:1000], chain=repr(chain), form=name, arg=arg)
            continue
        out = tuple(out)
        if tuple(map(id, out)) != tuple(map(id, chain)):
            res.count('rewrites_changed/' + name)
        bad = None
        if not out:
            bad = 'empty result'
        elif out[0].todims != chain[0].todims or out[-1].fromdims != nd or not chain_dims_ok(out):
            bad = f'dims changed or inconsistent: {out!r}'
        else:
            v, err = cmp_arrays(numpy.asarray(transform.apply(out, x)), a)
            v2, err2 = cmp_arrays(np_apply(out, x), ref)
            if v == 'violation' or v2 == 'violation':
                bad = f'map changed (max abs difference {max(err if not isinstance(err, str) else 1, err2 if not isinstance(err2, str) else 1)}): {out!r}'
            elif 'marginal' in (v, v2):
                res.count('marginal_float')
            if index_items(out) != index_items(chain):
                bad = f'Index items changed: {out!r}'
        if bad:
            rep.violation(f'{name} changed the chain\'s affine map', f'{where}: {name}({chain!r}{"" if arg is None else ", " + str(arg)}): {bad}'[:1500], chain=repr(chain), form=name, arg=arg)
            continue
        if name == 'canonical':
            res.count('iscanonical_checks')
            try:
                ok = transform.iscanonical(out)
            except Exception as e:
                rep.violation('iscanonical raised', f'{where}: {out!r}: {type(e).__name__}: {e}'[:800], chain=repr(chain))
                continue
            if not ok:
                rep.violation('iscanonical(canonical(chain)) is False', f'{where}: chain={chain!r} canonical={out!r}'[:1500], chain=repr(chain))


def enumerate_swaps(rep):
    """Exhaustive depth-2 and depth-3 child/edge chains over all pooled references."""
    import itertools
    rng = numpy.random.default_rng(7)
    pool = reference_pool()
    for name, ref in pool.items():
        if name in ('hypercube', 'triangle*triangle'):
            continue
        level = [((), ref)]
        for d in range(3 if ref.ndims <= 2 or name == 'tetrahedron' else 2):
            nxt = []
            for chain, r in level:
                opts = list(zip(r.child_transforms, r.child_refs))
                if r.ndims >= 1:
                    opts += list(zip(r.edge_transforms, r.edge_refs))
                for t, rr in opts:
                    nxt.append((chain + (t,), rr))
            level = nxt
            for chain, r in level:
                if len(chain) >= 2:
                    rep.count('enumerated_chains')
                    check_rewrites(chain, rng, rep, f'enum:{name}')


# ---------------------------------------------------------------- (e) locate

class LocateProbe:
    """Counts which _locate implementations run (class attribute wrappers, no repo edit)."""

    def __init__(self):
        self.calls = {}
        self.installed = False

    def install(self):
        from nutils import topology
        if self.installed:
            return
        self.installed = True
        for cls in (topology.Topology, topology.StructuredTopology, topology.SubsetTopology, topology.WithGroupsTopology):
            if '_locate' in cls.__dict__:
                self._wrap(cls)

    def _wrap(self, cls):
        orig = cls.__dict__['_locate']
        probe = self
        name = cls.__name__

        def _locate(self, *args, **kwargs):
            probe.calls[name] = probe.calls.get(name, 0) + 1
            return orig(self, *args, **kwargs)
        _locate.__wrapped__ = orig
        setattr(cls, '_locate', _locate)


LOCATE_PROBE = LocateProbe()
