"""C18 payloads: memoised test functions with different signatures, deterministic
value builders (scalars, nested containers, numpy arrays, nutils objects, solver
results), log emitters, and access to nutils' own memoised callables.

A payload is a JSON spec ``{sig, kind, seed, nlog, dress}``; everything is
regenerated from the spec, so reader subprocesses and replays rebuild the same
callable.  ``STATE['variant']`` switches between two serialisations of EQUAL
values (shared vs. distinct-but-equal sub-objects) — the documented contract of
cache.function ("same arguments => same return value") is respected, only the
pickle bytes differ.
"""

import pickle, functools, json
import numpy, treelog
from nutils import cache, types

STATE = dict(variant='short', executions=0, fail=False)


class PayloadError(Exception):
    pass


class TransientError(Exception):
    pass


def executions():
    return STATE['executions']


# ---------------------------------------------------------------- logs

LEVELS = ['debug', 'info', 'user', 'warning', 'error']


def emit_logs(seed, nlog):
    """nlog records: plain, inside (nested) contexts, empty contexts, data records"""
    rng = numpy.random.default_rng([int(seed), 77])
    i = 0
    while i < nlog:
        style = int(rng.integers(0, 6))
        lvl = LEVELS[int(rng.integers(0, 5))]
        text = f'record {seed}.{i} ' + 'z' * int(rng.integers(0, 24))
        if style <= 1:
            getattr(treelog, lvl)(text)
            i += 1
        elif style == 2:
            with treelog.context(f'ctx {i}'):
                getattr(treelog, lvl)(text)
                i += 1
                if i < nlog:
                    treelog.info(f'second in ctx {i}')
                    i += 1
        elif style == 3:
            with treelog.context('outer'):
                with treelog.context('empty'):
                    pass
                with treelog.context(f'inner {i}'):
                    getattr(treelog, lvl)(text)
                    i += 1
        elif style == 4:
            with treelog.infofile(f'data{i}.txt', 'w') as f:
                f.write(text)
            i += 1
        else:
            with treelog.context('a'):
                treelog.info(text)
            with treelog.context('b'):
                treelog.warning(text + '!')
            i += 2


# ---------------------------------------------------------------- values

SCALARS = [None, True, False, 0, -1, 7, 2**70, -2**63, 1.5, -0.0, 1e-300, float('inf'), float('nan'), 3 + 4j, '', 'text',
           'ünïcöde ✓ \U0001f600', b'', b'bytes\x00\xff\x80.', 'x' * 300, Ellipsis]

_memo = {}


def _nested(rng, depth):
    r = int(rng.integers(0, 10))
    if depth <= 0 or r < 3:
        s = SCALARS[int(rng.integers(0, len(SCALARS)))]
        return s
    n = int(rng.integers(0, 5))
    if r < 5:
        return [_nested(rng, depth - 1) for _ in range(n)]
    if r < 7:
        return tuple(_nested(rng, depth - 1) for _ in range(n))
    if r < 9:
        return {('k%d' % i if rng.random() < .7 else i): _nested(rng, depth - 1) for i in range(n)}
    if r == 9:
        items = [int(x) for x in rng.integers(-5, 50, n)] + ['s%d' % n]
        return frozenset(items) if rng.random() < .5 else set(items)


def _array(rng, big=0):
    dt = ['bool', 'int8', 'int64', 'uint16', 'float32', 'float64', 'complex128', '>f8', '<U5'][int(rng.integers(0, 9))]
    shapes = [(), (0,), (1,), (5,), (3, 4), (2, 0, 3), (2, 3, 2), (17,), (40,)]
    shape = shapes[int(rng.integers(0, len(shapes)))]
    if big:
        dt, shape = 'float64', (big,)
    n = int(numpy.prod(shape, dtype=int))
    if dt == '<U5':
        a = numpy.array(['w%d' % i for i in range(n)], dtype=dt).reshape(shape)
    elif dt == 'bool':
        a = (rng.random(shape) < .5)
    elif dt == 'complex128':
        a = rng.normal(size=shape) + 1j * rng.normal(size=shape)
    elif 'f' in dt:
        a = rng.normal(size=shape).astype(dt)
        if n:
            a.ravel()[0] = numpy.nan if rng.random() < .2 else a.ravel()[0]
    else:
        a = rng.integers(0, 100, size=shape).astype(dt)
    lay = int(rng.integers(0, 4))
    if lay == 1 and a.ndim >= 2:
        a = numpy.asfortranarray(a)
    elif lay == 2 and a.ndim >= 2:
        a = a.swapaxes(0, 1).copy().swapaxes(0, 1)   # non-contiguous view
    elif lay == 3 and a.ndim == 1 and not big:
        a = numpy.concatenate([a, a])[::2]           # strided
    return a


def _evaluable(seed):
    from nutils import evaluable
    x = evaluable.Argument('x', (evaluable.constant(3),), float)
    i = evaluable.loop_index('i', 4)
    c = evaluable.constant(numpy.arange(3.) + seed)
    choices = [
        lambda: evaluable.sum(x * 2. + c, 0),
        lambda: evaluable.loop_sum(evaluable.astype(i, float) * evaluable.sum(x * c, 0), i),
        lambda: evaluable.insertaxis(evaluable.sin(x) * c, 0, evaluable.constant(2)),
        lambda: (evaluable.dot(x, c, 0), evaluable.transpose(evaluable.diagonalize(x, 0, 1), (1, 0))),
    ]
    return choices[seed % len(choices)]()


def _mesh(seed):
    key = ('mesh', seed % 3)
    if key not in _memo:
        from nutils import mesh
        if seed % 3 == 0:
            _memo[key] = mesh.rectilinear([3])
        elif seed % 3 == 1:
            _memo[key] = mesh.rectilinear([2, 2])
        else:
            _memo[key] = mesh.unitsquare(2, 'triangle')
    return _memo[key]


def _system(seed):
    """small linear (Laplace + source) problem; returns (system, constraints, arguments)"""
    key = ('system', seed % 30)       # mesh (seed%3), degree (seed%2) and source term (seed%5) all enter
    if key not in _memo:
        from nutils import solver
        from nutils.expression_v2 import Namespace
        topo, geom = _mesh(seed)
        ns = Namespace()
        ns.x = geom
        ns.define_for('x', gradient='∇', jacobians=('dV', 'dS'))
        ns.add_field(('u', 'v'), topo.basis('std', degree=1 + (seed % 2)))
        ns.f = float(1 + seed % 5)
        res = topo.integral('(∇_i(v) ∇_i(u) - v f) dV' @ ns, degree=4)
        sqr = topo.boundary.integral('u^2 dS' @ ns, degree=4)
        with treelog.set(_Null()):
            _memo[key] = solver.System(res, trial='u', test='v'), solver.System(sqr, trial='u'), {}
    return _memo[key]


class _Null:
    def pushcontext(self, title): pass
    def popcontext(self): pass
    def recontext(self, title): pass
    def write(self, msg, level): pass


def build_value(kind, seed):
    rng = numpy.random.default_rng([int(seed), 5])
    if kind == 'scalar':
        return SCALARS[seed % len(SCALARS)]
    if kind == 'nested':
        shared = _nested(rng, 2)
        v = _nested(rng, 3)
        return [v, shared, {'again': shared, 'arr': _array(rng)}]
    if kind == 'array':
        return _array(rng)
    if kind == 'arrays':
        a = _array(rng)
        return (a, a.T, [_array(rng) for _ in range(int(rng.integers(1, 4)))])
    if kind == 'bigarray':
        return _array(rng, big=1100)
    if kind == 'hugearray':
        return _array(rng, big=9000)     # > 64 KiB: pickled outside the protocol-4 frames
    if kind == 'arraydata':
        a = rng.integers(-9, 9, size=[(), (4,), (2, 3), (0, 2)][(seed // 4) % 4])
        return types.arraydata(a.astype(['bool', 'int64', 'float64', 'complex128'][seed % 4]))
    if kind == 'frozenarray':
        return types.frozenarray(rng.integers(0, 9, size=(3, 2)))
    if kind == 'evaluable':
        return _evaluable(seed)
    if kind == 'matrix':
        from nutils import matrix
        n = 2 + seed % 4
        rowptr = numpy.arange(0, 2 * n + 1, 2)
        colidx = numpy.stack([numpy.arange(n), (numpy.arange(n) + 1) % n], axis=1)
        colidx.sort(axis=1)
        if n == 2:
            colidx = numpy.array([[0, 1], [0, 1]])
        return matrix.assemble_csr(rng.normal(size=2 * n), rowptr, colidx.ravel(), n)
    if kind == 'solve':
        key = ('solved', seed % 30)
        if key not in _memo:
            sys_, cons_, args = _system(seed)
            with treelog.set(_Null()), cache.disable():
                cons = cons_.solve_constraints(droptol=1e-10)
                _memo[key] = sys_.solve(constrain=cons, arguments=args)
        return {k: v.copy() for k, v in _memo[key].items()}
    if kind == 'gmshdict':
        n = 4 + seed % 5
        return dict(nodes=rng.integers(0, n, size=(n, 3)), cnames=('x', 'y'), coords=rng.normal(size=(n, 2)),
                    tags={'left': numpy.arange(2), 'right': numpy.array([], dtype=int), 'all': numpy.arange(n)},
                    identities=numpy.zeros((0, 2), dtype=int), btags={}, ptags={'corner': numpy.array([0])}, degree=1, version='4.1')
    if kind == 'topology':
        return _mesh(seed)[0]
    if kind == 'function':
        return _mesh(seed)[1]
    if kind == 'sample':
        return _mesh(seed)[0].sample('gauss', 1 + seed % 3)
    if kind == 'system':
        return _system(seed)[0]
    raise ValueError(kind)


def dressed(v, seed, variant):
    """two serialisations of equal values: distinct-but-equal sub-objects (long) or shared ones (short)"""
    rng = numpy.random.default_rng([int(seed), 9])
    t = tuple(int(x) for x in rng.integers(0, 1000, 6))
    s = 'tag-%d-' % seed + 'q' * 12
    if variant == 'long':
        return [v, pickle.loads(pickle.dumps(v)), t, tuple(list(t)), s, ''.join(list(s))]
    return [v, v, t, t, s, s]


def _body(kind, seed, nlog, dress, extra=None):
    STATE['executions'] += 1
    emit_logs(seed, nlog)
    if STATE['fail']:
        raise TransientError('transient failure')
    if kind == 'raise':
        raise PayloadError('payload %d' % seed)
    if kind == 'raise-oserror':
        raise FileNotFoundError(2, 'no such payload')
    if kind == 'raise-eof':
        raise EOFError('the wrapped function itself raises EOFError')
    v = build_value(kind, seed)
    if extra is not None:
        v = [v, extra]
    if dress:
        v = dressed(v, seed, STATE['variant'])
    return v


# ---------------------------------------------------------------- memoised functions, one per signature shape

@cache.function
def f_pos(kind, seed, nlog, dress):
    return _body(kind, seed, nlog, dress)


@cache.function
def f_kwonly(kind, *, seed, nlog=0, dress=0):
    return _body(kind, seed, nlog, dress)


@cache.function(version=3)
def f_default(kind, seed=0, nlog=0, dress=0):
    return _body(kind, seed, nlog, dress)


@cache.function
def f_varkw(kind, *args, **kwargs):
    seed = args[0] if args else kwargs.get('seed', 0)
    return _body(kind, seed, kwargs.get('nlog', 0), kwargs.get('dress', 0), extra=sorted(kwargs) if 'marker' in kwargs else None)


@cache.function
def f_rich(kind, seed, nlog, dress, arr, opts=None):
    extra = [float(numpy.sum(arr)), str(arr.dtype), list(arr.shape), sorted(opts.items()) if opts else None]
    return _body(kind, seed, nlog, dress, extra=extra)


@cache.function
def f_noargs():
    return _body('nested', 12345, 2, 0)


SIGS = ['pos', 'kwonly', 'default', 'varkw', 'rich', 'noargs']


def call_forms(spec):
    """equivalent ways of passing the same arguments -> list of zero-argument callables"""
    k, s, n, d = spec['kind'], spec['seed'], spec['nlog'], spec['dress']
    sig = spec['sig']
    if sig == 'pos':
        return [lambda: f_pos(k, s, n, d), lambda: f_pos(k, s, dress=d, nlog=n), lambda: f_pos(dress=d, kind=k, nlog=n, seed=s)]
    if sig == 'kwonly':
        forms = [lambda: f_kwonly(k, seed=s, nlog=n, dress=d), lambda: f_kwonly(dress=d, nlog=n, seed=s, kind=k)]
        if n == 0 and d == 0:
            forms.append(lambda: f_kwonly(k, seed=s))
        return forms
    if sig == 'default':
        forms = [lambda: f_default(k, s, n, d), lambda: f_default(k, seed=s, nlog=n, dress=d)]
        if d == 0:
            forms.append(lambda: f_default(k, s, n))
        if d == 0 and n == 0:
            forms.append(lambda: f_default(k, s))
        return forms
    if sig == 'varkw':
        return [lambda: f_varkw(k, s, nlog=n, dress=d), lambda: f_varkw(k, s, dress=d, nlog=n)]
    if sig == 'rich':
        arr = numpy.arange(6.).reshape(2, 3) + s
        opts = {'tol': 1e-3, 'name': 'n%d' % s, 'shape': (2, 3)}
        return [lambda: f_rich(k, s, n, d, arr, opts), lambda: f_rich(k, s, n, d, opts=dict(reversed(list(opts.items()))), arr=arr.copy())]
    if sig == 'noargs':
        return [lambda: f_noargs()]
    raise ValueError(sig)


# ---------------------------------------------------------------- nutils' own memoised callables

def instrument(wrapper):
    """count executions of the function wrapped by a cache.function wrapper (rebinding its closure cell)"""
    names = wrapper.__code__.co_freevars
    cell = wrapper.__closure__[names.index('func')]
    orig = cell.cell_contents
    counter = getattr(orig, '_c18_counter', None)
    if counter is None:
        counter = {'n': 0}

        @functools.wraps(orig)
        def counting(*args, **kwargs):
            counter['n'] += 1
            return orig(*args, **kwargs)
        counting._c18_counter = counter
        cell.cell_contents = counting
    return counter


class Payload:
    """callable under test + its execution counter, rebuilt from a JSON spec"""

    def __init__(self, spec):
        self.spec = spec
        sig = spec['sig']
        if sig in SIGS:
            self.forms = call_forms(spec)
            self.counter = executions
            self.has_variants = bool(spec['dress'])
        elif sig == 'System.solve':
            from nutils import solver
            c = instrument(solver.System.solve)
            c2 = instrument(solver.System.solve_constraints)
            sys_, cons_, args = _system(spec['seed'])
            with treelog.set(_Null()), cache.disable():
                cons = cons_.solve_constraints(droptol=1e-10)
            self.forms = [lambda: sys_.solve(constrain=cons, arguments=args), lambda: sys_.solve(arguments=dict(args), constrain=dict(cons), tol=0.)]
            self.counter = lambda: c['n']
            self.has_variants = False
        elif sig == 'System.solve_constraints':
            from nutils import solver
            c = instrument(solver.System.solve_constraints)
            sys_, cons_, args = _system(spec['seed'])
            self.forms = [lambda: cons_.solve_constraints(droptol=1e-10), lambda: cons_.solve_constraints(droptol=1e-10, arguments={}, constrain={})]
            self.counter = lambda: c['n']
            self.has_variants = False
        else:
            raise ValueError(sig)

    def call(self, form=0):
        return self.forms[form % len(self.forms)]()

    @property
    def raises(self):
        return self.spec['kind'].startswith('raise')


def set_variant(v):
    STATE['variant'] = v


def set_fail(b):
    STATE['fail'] = bool(b)
