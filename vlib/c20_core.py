"""C20 core: environment, comparison helpers, model rule table, lock-step call execution."""

import operator, traceback
import numpy
from fractions import Fraction as F
from vlib import tolerance
from vlib import c20_model as M

PASS, MARGINAL, VIOLATION = tolerance.PASS, tolerance.MARGINAL, tolerance.VIOLATION


def keyname(f):
    mod = getattr(f, '__module__', None) or ''
    name = getattr(f, '__qualname__', None) or getattr(f, '__name__', None) or repr(f)
    if isinstance(f, numpy.ufunc):
        mod = 'numpy'
    if mod == '_operator':
        mod = 'operator'
    if mod.startswith('nutils.'):
        mod = mod[7:]
    return f'{mod}.{name}'


class Env:
    """Per-process handle on the library under test plus the harness-side class registry."""

    def __init__(self):
        import warnings
        warnings.simplefilter('ignore')
        try:
            import treelog
            self._quiet = treelog.set(treelog.NullLog() if hasattr(treelog, 'NullLog') else treelog.LoggingLog())
            self._quiet.__enter__()
        except Exception:
            pass
        from nutils import SI, function, mesh, topology, sample, unit
        self.SI, self.function, self.mesh, self.topology, self.sample, self.unit = SI, function, mesh, topology, sample, unit
        self.registry = {}     # model vec -> first class object seen with these exponents
        self.classvec = {}     # class object -> vec parsed from its name
        table = None
        for attr in dir(SI.Quantity):
            if attr.endswith('DISPATCH_TABLE'):
                table = getattr(SI.Quantity, attr)
        self.table = table or {}
        self.tablekeys = {keyname(f): f for f in self.table}
        for name, v in M.NAMED.items():
            cls = getattr(SI, name, None)
            if cls is not None:
                self.registry.setdefault(v, cls)

    def isq(self, obj):
        return isinstance(obj, self.SI.Quantity)

    def vec_of_class(self, cls):
        v = self.classvec.get(cls)
        if v is None:
            v = self.classvec[cls] = M.parse_dimname(cls.__name__)
        return v

    def check_dim(self, obj, vec):
        """Monitor (1a): exact Dimension class predicted by the exponent-vector model.  Returns problem text or None."""
        if not vec:
            if self.isq(obj):
                return f'expected a plain dimensionless value, got Quantity {type(obj).__name__}'
            return None
        if not self.isq(obj):
            return f'expected dimension {M.vstr(vec)}, got plain {type(obj).__name__}'
        cls = type(obj)
        try:
            v = self.vec_of_class(cls)
        except Exception as e:
            return f'unreadable dimension name {cls.__name__!r}: {e}'
        if v != vec:
            return f'dimension {cls.__name__} != model {M.vstr(vec)}'
        first = self.registry.setdefault(vec, cls)
        if first is not cls:
            return f'two distinct class objects for exponents {M.vstr(vec)}: {first!r} and {cls!r} (cache canonicality)'
        return None

    def payload(self, obj):
        return obj.unwrap() if self.isq(obj) else obj

    def cls_for(self, vec):
        """Real class for a model vector, built from the base dimensions by the module's own algebra (used only to make inputs)."""
        SI = self.SI
        base = dict(T=SI.Time, L=SI.Length, M=SI.Mass, I=SI.ElectricCurrent, N=SI.AmountOfSubstance, J=SI.LuminousIntensity)
        base['θ'] = SI.Temperature
        base.update(getattr(self, 'extra_base', {}))
        cls = SI.Dimensionless
        for s, p in vec:
            cls = cls * base[s] ** p
        return cls


# ------------------------------------------------------------------ value comparison

def _asnum(a):
    a = numpy.asarray(a)
    if a.dtype == object:
        try:
            a = a.astype(complex) if any(isinstance(x, complex) for x in a.ravel()) else a.astype(float)
        except Exception:
            pass
    return a


def cmp_same(obs, ref):
    """obs should be the same floating point computation as ref.  Returns (verdict, detail)."""
    obs, ref = _asnum(obs), _asnum(ref)
    if obs.shape != ref.shape:
        return VIOLATION, f'shape {obs.shape} != expected {ref.shape}'
    if ref.dtype.kind not in 'fc':
        return tolerance.compare(obs, ref, check_kind=False)
    if obs.dtype.kind not in 'fcbiu':
        return VIOLATION, f'dtype {obs.dtype} where {ref.dtype} expected'
    if obs.dtype.kind == 'c' or ref.dtype.kind == 'c':
        # compare real and imaginary parts as floats (complex division by a subnormal scale yields nan)
        obs, ref = obs.astype(complex), ref.astype(complex)
        obs, ref = numpy.stack([obs.real, obs.imag]), numpy.stack([ref.real, ref.imag])
    with numpy.errstate(all='ignore'):
        if ((obs == ref) | ((obs != obs) & (ref != ref))).all():
            return PASS, ''
    fo, fr = numpy.isfinite(obs), numpy.isfinite(ref)
    if (fo != fr).any():
        return VIOLATION, 'non-finite pattern differs'
    bad = ~fr
    if bad.any():
        with numpy.errstate(all='ignore'):
            same = (numpy.isnan(obs[bad]) == numpy.isnan(ref[bad])) & (numpy.isnan(ref[bad]) | (obs[bad] == ref[bad]))
        if not same.all():
            return VIOLATION, 'non-finite values differ'
    if not fr.any():
        return PASS, ''
    o, r = obs[fr], ref[fr]
    s = float(numpy.max(numpy.abs(r)))
    if s == 0 or not numpy.isfinite(s):
        s = 1.
    s = max(s, 1e-290)
    with numpy.errstate(all='ignore'):
        return tolerance.compare(o / s, r / s, check_kind=False)


def cmp_rel(obs, ref, rtol_pass=1e-9, rtol_viol=1e-5):
    """Element-wise relative comparison for pure rescalings (no cancellation involved)."""
    obs, ref = _asnum(obs), _asnum(ref)
    if obs.shape != ref.shape:
        return VIOLATION, f'shape {obs.shape} != expected {ref.shape}'
    if obs.dtype.kind not in 'fcbiu':
        return VIOLATION, f'dtype {obs.dtype}'
    with numpy.errstate(all='ignore'):
        if ((obs == ref) | ((obs != obs) & (ref != ref))).all():
            return PASS, ''
    fo, fr = numpy.isfinite(obs), numpy.isfinite(ref)
    if (fo != fr).any():
        return VIOLATION, 'non-finite pattern differs'
    if not fr.any():
        return PASS, ''
    o, r = obs[fr], ref[fr]
    with numpy.errstate(all='ignore'):
        err = numpy.abs(o - r)
        mag = numpy.abs(r)
    tiny = 1e-300
    if (err > rtol_viol * mag + tiny).any():
        i = int(numpy.argmax(err - rtol_viol * mag))
        return VIOLATION, f'obs={o.ravel()[i]!r} expected={r.ravel()[i]!r}'
    if (err > rtol_pass * mag + tiny).any():
        return MARGINAL, f'max rel err {float(numpy.max(err / numpy.maximum(mag, tiny))):.2e}'
    return PASS, ''


# ------------------------------------------------------------------ operands and calls

class Opd:
    """An operand advanced in lock-step: real object (Quantity or plain) + plain payload + model exponent vector."""
    __slots__ = ('real', 'plain', 'vec', 'role', 'isfn', 'evaluable', 'dlevel')

    def __init__(self, real, plain, vec, role='', isfn=False):
        self.real, self.plain, self.vec, self.role, self.isfn = real, plain, vec, role, isfn
        self.evaluable = True
        self.dlevel = 0      # how many spatial derivatives deep (bounds the cost of symbolic differentiation)

    @property
    def shape(self):
        try:
            return tuple(self.plain.shape)
        except AttributeError:
            return ()

    @property
    def ndim(self):
        return len(self.shape)


class Call:
    def __init__(self, key, fn, args, kwargs=None, strict=True, desc=None, meta=None):
        self.key, self.fn, self.args, self.kwargs, self.strict = key, fn, list(args), dict(kwargs or {}), strict
        self.meta = meta or {}
        self.desc = desc

    def _sub(self, a, attr):
        if isinstance(a, Opd):
            return getattr(a, attr)
        if isinstance(a, list):
            return [self._sub(x, attr) for x in a]
        if isinstance(a, tuple) and any(isinstance(x, Opd) for x in a):
            return tuple(self._sub(x, attr) for x in a)
        return a

    def real_args(self):
        return [self._sub(a, 'real') for a in self.args]

    def plain_args(self):
        return [self._sub(a, 'plain') for a in self.args]

    def dims(self):
        def d(a):
            if isinstance(a, Opd):
                return a.vec
            if isinstance(a, (list, tuple)) and any(isinstance(x, Opd) for x in a):
                return [d(x) for x in a]
            return M.NIL
        return [d(a) for a in self.args]

    def opds(self):
        out = []

        def walk(a):
            if isinstance(a, Opd):
                out.append(a)
            elif isinstance(a, (list, tuple)):
                for x in a:
                    walk(x)
        for a in self.args:
            walk(a)
        return out

    def describe(self):
        def d(a):
            if isinstance(a, Opd):
                return f'<{M.vstr(a.vec)}{list(a.shape)}{"fn" if a.isfn else ""}>'
            if isinstance(a, (list, tuple)):
                return '[' + ','.join(d(x) for x in a) + ']'
            r = repr(a)
            return r if len(r) < 40 else r[:37] + '...'
        return f"{self.key}({', '.join(d(a) for a in self.args)}{''.join(f', {k}={v!r}'[:40] for k, v in self.kwargs.items())})"

    def signature(self):
        def d(a):
            if isinstance(a, Opd):
                return M.vstr(a.vec) + ('f' if a.isfn else 'n') + str(len(a.shape))
            if isinstance(a, (list, tuple)):
                return '[' + ','.join(d(x) for x in a) + ']'
            return type(a).__name__
        return self.key + '(' + ','.join(d(a) for a in self.args) + ')'


# ------------------------------------------------------------------ model rule table: one rule per dispatch key
#
# A rule maps the exponent vectors of the positional arguments (plain numbers have the empty vector) to
#   ('ok', vec)        result has this dimension (empty vec: the wrapper must fall away)
#   ('plain',)         result carries no dimension whatever the argument's
#   ('tuple', [vecs])  tuple of results
#   ('reject', why)    operands of different dimension: must raise DimensionError/TypeError
#   ('invalid', why)   dimensionally meaningless in another way: must raise (any exception)

def _ok(v):
    return ('ok', v)


def r_same(d, a, k):
    return _ok(d[0])


def r_add(d, a, k):
    return _ok(d[0]) if d[0] == d[1] else ('reject', f'{M.vstr(d[0])} vs {M.vstr(d[1])}')


def r_mul(d, a, k):
    return _ok(M.vmul(d[0], d[1]))


def r_div(d, a, k):
    return _ok(M.vdiv(d[0], d[1]))


def r_laplace(d, a, k):
    return _ok(M.vdiv(d[0], M.vpow(d[1], 2)))


def r_sqrt(d, a, k):
    return _ok(M.vpow(d[0], F(1, 2)))


def _exponent(p):
    """Python number behind an exponent argument, or None if it is not a single real number."""
    if isinstance(p, Opd):
        p = p.plain
    if isinstance(p, (numpy.integer, numpy.floating, numpy.bool_)):
        return p.item()
    if isinstance(p, (bool, int, float, F)):
        return p
    if isinstance(p, numpy.ndarray) and p.ndim == 0 and p.dtype.kind in 'biuf':
        return p.item()
    return None


def r_pow(d, a, k):
    if len(d) > 1 and d[1]:
        return ('invalid', 'exponent has a dimension')
    if not d[0]:
        return ('invalid', 'no dimensional base')
    p = _exponent(a[1])
    if p is None:
        return ('invalid', 'exponent is not a single number')
    if isinstance(p, float) and p != p:
        return ('invalid', 'nan exponent')
    return _ok(M.vpow(d[0], F(p)))


def r_jacobian(d, a, k):
    n = a[1] if len(a) > 1 else None
    if n is None:
        return ('unknown', 'ndims=None: exponent only known when lowered')
    return _ok(M.vpow(d[0], int(n)))


def r_plain(d, a, k):
    return ('plain',)


def r_cmp(d, a, k):
    return ('plain',) if d[0] == d[1] else ('reject', f'{M.vstr(d[0])} vs {M.vstr(d[1])}')


def r_stack(d, a, k):
    ds = d[0]
    if not isinstance(ds, list):
        return ('invalid', 'not a sequence')
    if all(x == ds[0] for x in ds):
        return _ok(ds[0])
    return ('reject', ' vs '.join(M.vstr(x) for x in ds))


def r_curvature(d, a, k):
    return _ok(M.vpow(d[0], -1))


def r_evaluate(d, a, k):
    return ('tuple', list(d))


def r_field(d, a, k):
    v = M.NIL
    for x in d[1:]:
        v = M.vmul(v, x)
    return _ok(v)


def r_interp(d, a, k):
    if d[0] != d[1]:
        return ('reject', f'x {M.vstr(d[0])} vs xp {M.vstr(d[1])}')
    return _ok(d[2])


def r_sample(d, a, k):
    return _ok(d[1])


def r_setitem(d, a, k):
    return _ok(d[0]) if d[0] == d[2] else ('reject', f'{M.vstr(d[0])} vs {M.vstr(d[2])}')


def r_locate(d, a, k):
    # (topo, geom, coords); tol and maxdist are lengths in the unit of geom (a plain number, incl. the default 0, is dimensionless)
    g, c = d[1], d[2]
    if g != c:
        return ('reject', 'geom vs coords')
    tol, maxdist = k.get('tol', 0), k.get('maxdist', None)
    tv = tol.vec if isinstance(tol, Opd) else M.NIL
    if tv != g:
        return ('reject', 'tol vs geom')
    if maxdist is not None:
        mv = maxdist.vec if isinstance(maxdist, Opd) else M.NIL
        if mv != g:
            return ('reject', 'maxdist vs geom')
    return ('plain',)


RULES = {}
for _n in ('operator.pos operator.neg operator.getitem operator.abs numpy.transpose numpy.trace numpy.take numpy.sum numpy.reshape '
           'numpy.real numpy.ptp numpy.positive numpy.negative numpy.min numpy.mean numpy.max numpy.linalg.norm numpy.imag '
           'numpy.conjugate numpy.broadcast_to numpy.amin numpy.amax numpy.absolute function.scatter function.replace_arguments '
           'function.opposite function.swap_spaces function.linearize function.kronecker function.jump function.factor '
           'function.derivative').split():
    RULES[_n] = ('same', r_same)
for _n in 'operator.sub operator.mod operator.add numpy.subtract numpy.minimum numpy.maximum numpy.hypot numpy.add'.split():
    RULES[_n] = ('add-like', r_add)
for _n in 'operator.mul operator.matmul numpy.multiply numpy.matmul'.split():
    RULES[_n] = ('mul-like', r_mul)
for _n in 'operator.truediv numpy.divide function.surfgrad function.grad function.div function.curl'.split():
    RULES[_n] = ('div-like', r_div)
RULES['function.laplace'] = ('laplace', r_laplace)
RULES['numpy.sqrt'] = ('sqrt', r_sqrt)
RULES['operator.setitem'] = ('setitem', r_setitem)
RULES['operator.pow'] = RULES['numpy.power'] = ('pow-like', r_pow)
RULES['function.jacobian'] = ('pow-like', r_jacobian)
for _n in 'numpy.size numpy.shape numpy.ndim numpy.isnan numpy.isfinite function.normalized function.normal function.arguments_for'.split():
    RULES[_n] = ('stripping', r_plain)
for _n in ('operator.ne operator.lt operator.le operator.gt operator.ge operator.eq numpy.not_equal numpy.less_equal numpy.less '
           'numpy.greater_equal numpy.greater numpy.equal').split():
    RULES[_n] = ('comparison', r_cmp)
RULES['numpy.concatenate'] = RULES['numpy.stack'] = ('stack-like', r_stack)
RULES['function.curvature'] = ('special', r_curvature)
RULES['function.evaluate'] = ('special', r_evaluate)
RULES['function.field'] = ('special', r_field)
RULES['numpy.interp'] = ('special', r_interp)
RULES['topology.Topology.locate'] = ('special', r_locate)
RULES['sample.Sample.integral'] = RULES['sample.Sample.bind'] = ('special', r_sample)

REFUSAL_TYPES = (NotImplementedError, TypeError, ValueError)


def is_dimension_rejection(env, e):
    if isinstance(e, env.SI.DimensionError):
        return True
    if isinstance(e, TypeError):
        s = str(e)
        return 'unsupported operand type' in s or 'not supported between instances' in s
    return False


class Monitor:
    """Collects what happened into a vlib Result; `case` is attached to violations."""

    def __init__(self, env, res, case):
        self.env, self.res, self.case = env, res, case
        self.nviol = 0
        self.ok_sigs = []

    def violation(self, monitor, detail, mechanism=None, step=None):
        self.nviol += 1
        c = dict(self.case)
        if step is not None:
            c['step'] = step
        self.res.violation(monitor, c, detail, mechanism=mechanism)

    def verdict(self, v, what, detail, step=None):
        if v == VIOLATION:
            self.violation('value', f'{what}: {detail}', step=step)
        elif v == MARGINAL:
            self.res.count('marginal')
            self.res.note(f'marginal {what}: {detail}')
        return v == PASS


def mechanism_of(call, exc):
    """Structural predicates for ledger entries."""
    if call.key == 'function.curvature' and isinstance(exc, RecursionError):
        return 'C20-curvature-recursion'
    return None


def execute(mon, call, observe=None, step=None):
    """Run one call on plain payloads and on the real objects, apply monitors (1) and (2).

    Returns the result operand (or list of operands for tuple results), or None.
    observe(real, plain) -> (obs_real_payload-bearing object, plain values) is used for function arrays."""
    env, res = mon.env, mon.res
    key = call.key
    res.count('calls')
    opds = call.opds()
    if not any(env.isq(o.real) for o in opds) and not any(env.isq(v.real) for v in call.kwargs.values() if isinstance(v, Opd)):
        res.count('skipped/no_quantity')
        return None
    rule = RULES.get(key)
    if rule is None:
        res.count('skipped/no_rule')
        return None
    dims = call.dims()
    expect = rule[1](dims, call.args, call.kwargs)
    kind = expect[0]
    kw_real = {k: (v.real if isinstance(v, Opd) else v) for k, v in call.kwargs.items()}
    kw_plain = {k: (v.plain if isinstance(v, Opd) else v) for k, v in call.kwargs.items()}
    # --- the same computation on plain numbers
    pargs = call.plain_args()
    if key == 'operator.setitem':
        pargs[0] = numpy.array(pargs[0], copy=True) if isinstance(pargs[0], numpy.ndarray) else pargs[0]
    try:
        with numpy.errstate(all='ignore'):
            pres = call.fn(*pargs, **kw_plain)
    except Exception as e:
        res.count('skipped/invalid_plain')
        res.count(f'invalid_plain/{key}')
        return None
    # --- the real thing
    desc = call.describe()
    try:
        with numpy.errstate(all='ignore'):
            rres = call.fn(*call.real_args(), **kw_real)
        exc = None
    except RecursionError as e:
        exc = e
    except Exception as e:
        exc = e
    sig_nontrivial = any(o.vec for o in opds)
    if kind == 'reject':
        res.count(f'mismatch_presented/{key}')
        if exc is not None:
            if isinstance(exc, TypeError):    # DimensionError is a TypeError
                res.count('rejected_dimension_mismatch')
                res.count(f'rejected/{key}')
            else:
                res.count('rejected_other_exception')
                res.add('rejected_other_exception_types', f'{key}: {type(exc).__name__}')
                res.count(f'rejected/{key}')
            return None
        if key in ('operator.eq', 'operator.ne') and isinstance(rres, bool) and rres == (key == 'operator.ne'):
            res.count('rejected_by_inequality')
            res.count(f'rejected/{key}')
            return None
        mon.violation('mismatched dimensions accepted', f'{desc} returned {_short(rres)} ({expect[1]})', step=step)
        return None
    if kind == 'invalid':
        res.count(f'invalid_presented/{key}')
        if exc is not None:
            res.count('invalid_refused')
            res.add('invalid_refused_types', f'{key}: {type(exc).__name__}')
            return None
        mon.violation('dimensionally meaningless operation accepted', f'{desc} returned {_short(rres)} ({expect[1]})', step=step)
        return None
    if exc is not None:
        if is_dimension_rejection(env, exc) and call.strict:
            mon.violation('spurious dimension rejection', f'{desc}: {type(exc).__name__}: {exc}', step=step)
        elif isinstance(exc, REFUSAL_TYPES) or not call.strict:
            res.count('refusals')
            res.count(f'refused/{key}')
            res.add('refusal_kinds', f'{key}: {type(exc).__name__}: {str(exc)[:60]}')
        else:
            mon.violation('unexpected exception', f'{desc}: {type(exc).__name__}: {str(exc)[:300]}', mechanism=mechanism_of(call, exc), step=step)
        return None
    if kind == 'unknown':
        res.count(f'unknown_dim_answered/{key}')
        return None
    # --- success path: dimension, then value
    if key == 'operator.setitem':
        # in-place: advance the model payload, then re-verify the target
        tgt = call.args[0]
        call.fn(*call.plain_args(), **kw_plain)
        prob = env.check_dim(tgt.real, tgt.vec)
        if prob:
            mon.violation('dimension', f'{desc}: target after assignment: {prob}', step=step)
            return None
        v, det = cmp_same(env.payload(tgt.real), tgt.plain)
        if mon.verdict(v, desc, det, step):
            _count_ok(mon, call, sig_nontrivial)
        return None
    if kind == 'tuple':
        vecs = expect[1]
        if not isinstance(rres, tuple) or len(rres) != len(vecs):
            mon.violation('dimension', f'{desc}: expected a tuple of {len(vecs)} results, got {_short(rres)}', step=step)
            return None
        outs, good = [], True
        for r, p, v in zip(rres, pres, vecs):
            prob = env.check_dim(r, v)
            if prob:
                mon.violation('dimension', f'{desc}: {prob}', step=step)
                good = False
                continue
            vd, det = cmp_same(env.payload(r), p)
            good &= mon.verdict(vd, desc, det, step)
            outs.append(Opd(r, p, v))
        if good:
            _count_ok(mon, call, sig_nontrivial)
        return outs
    vec = expect[1] if kind == 'ok' else M.NIL
    prob = env.check_dim(rres, vec)
    if prob:
        mon.violation('dimension', f'{desc}: {prob}', step=step)
        return None
    rp = env.payload(rres)
    isfn = isinstance(pres, env.function.Array)
    out = Opd(rres, pres, vec, isfn=isfn)
    if isfn:
        if not isinstance(rp, env.function.Array):
            mon.violation('value', f'{desc}: payload {type(rp).__name__} where a function array is expected', step=step)
            return None
        if tuple(rp.shape) != tuple(pres.shape):
            mon.violation('value', f'{desc}: shape {rp.shape} != {pres.shape}', step=step)
            return None
        if observe is not None:
            st = observe(out, desc, step)
            if st is False:
                return None
            if st is None:
                out.evaluable = False
                res.count('fn_unevaluated')
                res.count(f'dim_only/{key}')
        _count_ok(mon, call, sig_nontrivial)
        return out
    if isinstance(pres, dict) or not isinstance(pres, (numpy.ndarray, numpy.generic, bool, int, float, complex, tuple, list)):
        # opaque results (argument dictionaries, samples): compare what can be compared
        if isinstance(pres, dict):
            same = isinstance(rp, dict) and sorted(rp) == sorted(pres) and all(rp[n].shape == pres[n].shape for n in pres)
            if not same:
                mon.violation('value', f'{desc}: {rp!r} != {pres!r}', step=step)
                return None
        _count_ok(mon, call, sig_nontrivial)
        out.evaluable = False
        return out
    v, det = cmp_same(rp, pres)
    if mon.verdict(v, desc, det, step):
        _count_ok(mon, call, sig_nontrivial)
        return out
    return None


def _count_ok(mon, call, nontrivial):
    res = mon.res
    res.count('ok_results')
    res.count(f'ok/{call.key}')
    if nontrivial and _discriminating(call):
        res.count(f'discriminating/{call.key}')
    mon.ok_sigs.append(call.signature())


def _discriminating(call):
    """Would a wrong dimension rule have been visible on these operands?"""
    d = call.dims()
    cat = RULES[call.key][0]
    if cat in ('mul-like', 'div-like', 'laplace'):
        return bool(d[0]) and bool(d[1]) or (bool(d[1]) and not d[0])
    if cat == 'pow-like':
        p = _exponent(call.args[1]) if len(call.args) > 1 else None
        return bool(d[0]) and p is not None and p != 1
    if cat == 'special' and call.key == 'function.field':
        return any(d[1:])
    if cat == 'special' and call.key == 'numpy.interp':
        return bool(d[2]) and d[2] != d[0]
    if cat == 'special' and call.key.startswith('sample.'):
        return bool(d[1])
    if cat == 'special' and call.key.startswith('topology.'):
        return bool(d[1])
    if cat == 'stack-like':
        return bool(d[0][0])
    if cat == 'special' and call.key == 'function.evaluate':
        return any(d)
    return bool(d[0])


def _short(x):
    r = repr(x)
    return r if len(r) < 200 else r[:200] + '...'
