"""Independent reference models used by checks/c12.py.

* Cox-de Boor evaluation of B-splines from an explicit knot vector (no nutils
  code involved), including the periodic numbering convention documented in
  ``StructuredTopology.basis_spline`` (dof ``j`` is the B-spline whose knot
  span starts ``p - m[0]`` knots before the first knot; functions that wrap
  around the period are summed).
* expansion of the user-facing spline parameters (degree, continuity,
  knotvalues, knotmultiplicities, periodic) to per-knot values/multiplicities
  on a topology with ``n`` elements in that direction, following the
  documented refinement rule (midpoint insertion, inserted knots get
  multiplicity ``p - continuity``).
"""

import numpy


class Refused(Exception):
    """parameter combination outside the documented domain of the constructor"""


def expand_knots(n, p, c, k, m):
    """Per-knot values and multiplicities for `n` elements.  Returns (K, M, c) or raises Refused."""
    if c < 0:
        c += p
    if not -1 <= c < p:
        raise Refused('continuity out of range')
    if k is None:
        K = numpy.arange(n + 1, dtype=float)
    else:
        K = numpy.array(k, dtype=float)
        while len(K) < n + 1:
            K_ = numpy.empty(len(K) * 2 - 1)
            K_[::2] = K
            K_[1::2] = (K[:-1] + K[1:]) / 2
            K = K_
        if len(K) != n + 1:
            raise Refused('knot values do not match the topology size')
    if m is None:
        M = numpy.repeat(p - c, n + 1)
    else:
        M = numpy.array(m, dtype=int)
        if min(M) <= 0 or max(M) > p + 1:
            raise Refused('incorrect multiplicity')
        while len(M) < n + 1:
            M_ = numpy.empty(len(M) * 2 - 1, dtype=int)
            M_[::2] = M
            M_[1::2] = p - c
            M = M_
        if len(M) != n + 1:
            raise Refused('knot multiplicities do not match the topology size')
    return K, M, c


def bspline(knots, p, x):
    """Value at `x` (array) of the B-spline of degree `p` on the p+2 `knots` (right-continuous, Cox-de Boor)."""
    knots = numpy.asarray(knots, dtype=float)
    x = numpy.asarray(x, dtype=float)
    assert len(knots) == p + 2
    N = [((knots[i] <= x) & (x < knots[i + 1])).astype(float) for i in range(p + 1)]
    for q in range(1, p + 1):
        new = []
        for i in range(p + 1 - q):
            a = knots[i + q] - knots[i]
            b = knots[i + q + 1] - knots[i + 1]
            t = numpy.zeros_like(x)
            if a > 0:
                t = t + (x - knots[i]) / a * N[i]
            if b > 0:
                t = t + (knots[i + q + 1] - x) / b * N[i + 1]
            new.append(t)
        N = new
    return N[0]


class Spline1D:
    """The 1-D spline space nutils documents for one direction of a structured topology."""

    def __init__(self, n, p, c, k, m, periodic):
        K, M, c = expand_knots(n, p, c, k, m)
        self.n, self.p, self.K, self.Mfull = n, p, K, M.copy()
        if numpy.any(numpy.diff(K) <= 0):
            raise Refused('knot values not increasing')
        self.periodic = bool(periodic) and not (M[0] == M[n] == p + 1)
        if bool(periodic) and not self.periodic:
            self.wrap_discontinuous = True
        else:
            self.wrap_discontinuous = False
        if self.periodic:
            if M[0] != M[n]:
                raise Refused('periodic spline multiplicity expected')
            self.M = M[:n].copy()
            self.nd = int(self.M.sum())
            self.dk = K[n] - K[0]
            self.P = numpy.repeat(K[:n], self.M)  # one period of knots with multiplicity
            self.shift = max(p - int(M[0]), 0)
            self.offsets = numpy.cumsum(self.M) - self.M[0]
        else:
            M = M.copy()
            M[0] = M[n] = p
            self.M = M
            self.nd = int(M[:n].sum()) + 1
            self.km = numpy.repeat(K, M)
            self.offsets = numpy.cumsum(M[:n]) - M[0]

    def mult_at_knot(self, i):
        """multiplicity that governs the continuity across knot i (0 and n are the periodic wrap)"""
        return int(self.Mfull[i])

    def _KM(self, a):
        # knot with (possibly out of range) index a of the unwrapped knot sequence `km` of basis_spline
        if self.periodic:
            t = a - self.shift
            return self.P[t % self.nd] + self.dk * (t // self.nd)
        if a < 0:
            return self.K[0]
        if a >= len(self.km):
            return self.K[-1]
        return self.km[a]

    def eval_elem(self, i, xi):
        """values of all nd functions at local coordinates xi (in [0,1]) of element i -> (len(xi), nd)"""
        p = self.p
        xi = numpy.asarray(xi, dtype=float)
        x = self.K[i] + xi * (self.K[i + 1] - self.K[i])
        out = numpy.zeros((len(xi), self.nd))
        off = int(self.offsets[i])
        for r in range(p + 1):
            J = off + r
            knots = [self._KM(a) for a in range(J - 1, J + p + 1)]
            # evaluate as polynomial piece on the element: use a point strictly inside to select the piece, then
            # the closed element needs the one-sided limit, so evaluate the B-spline at interior-shifted points
            v = _piece_eval(knots, p, self.K[i], self.K[i + 1], x)
            out[:, J % self.nd if self.periodic else J] += v
        return out


def _piece_eval(knots, p, a, b, x):
    """polynomial piece of the B-spline on [a,b] evaluated at x in [a,b] (end points included) via p+1-point interpolation"""
    if p == 0:
        return numpy.ones_like(x) if (knots[0] <= a and b <= knots[1]) else numpy.zeros_like(x)
    # sample the piece at p+1 Chebyshev-like interior points and interpolate (Lagrange form, exact for degree p)
    t = a + (b - a) * (numpy.arange(p + 1) + .5) / (p + 1)
    y = bspline(knots, p, t)
    v = numpy.zeros_like(x)
    for j in range(p + 1):
        l = numpy.ones_like(x)
        for q in range(p + 1):
            if q != j:
                l = l * (x - t[q]) / (t[j] - t[q])
        v = v + y[j] * l
    return v
