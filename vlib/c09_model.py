"""C09 part A — executable reference model of nutils' sample algebra, advanced in lock-step with the real objects.

Model of a sample (``Model``): a flat table of its points *in evaluation order* — per space the index of the
base-topology element containing the point, the point's coordinates in that element, the linear part of the map
from the sampled (derived: refined / trimmed / boundary ...) element to the base element, and the quadrature
weight — plus the ordered partition of positions 0..N-1 into elements (``elems``), which is what
``Sample.getindex`` advertises.  The sample constructors are a few lines of numpy each:

  new            points of element 0, 1, ... concatenated
  a * b          position r = ra*Nb + rb holds (point ra of a, point rb of b), weight wa*wb; elements a-major
  a + b          tables concatenated (a sample without points is the neutral element)
  take(I)        the points of elements I[0], I[1], ... concatenated
  subset(mask)   take(elements owning a marked position, ascending)
  custom(perm)   the point that was at position k is now at position perm[k]
  zip(a, b, ..)  position r holds point r of every constituent; weight of the first; elements = distinct tuples
                 of constituent elements in lexicographic order
  locate(x, w)   position k holds the k-th target point with weight w[k]; elements = distinct base elements ascending
  rename         spaces renamed

Expected values of an integrand are computed in numpy from this table; leaf functions (element index, local
coordinates, affine geometry and its Jacobian) have pure-numpy oracles built from the mesh recipe, geometry and
bases are additionally evaluated 'directly': per base element at exactly that element's points through a plain
one-space default-index sample.
"""

import json, warnings, hashlib
import numpy

from . import c09_exact as X

import collections
OBS = collections.Counter()      # observations made inside model functions (folded into the worker's Result by the caller)

SPACE_NAMES = [chr(ord('A') + i) for i in range(26) if chr(ord('A') + i) != 'X'] + ['S%d' % i for i in range(40)]
HARDCAP = 6000


class Rejected(Exception):
    """nutils refused the operation in a documented way (NotImplementedError, 'unsupported ischeme', ...)."""

    def __init__(self, where, exc):
        super().__init__(f'{where}: {type(exc).__name__}: {exc}')
        self.where = where
        self.exc = exc


class Skip(Exception):
    """case outside the generator's domain (too large, degenerate); counted, not a verdict"""


REFUSAL_VALUEERRORS = ('points do not match', 'spaces overlap', 'Cannot add samples with different spaces',
                       'Cannot multiply samples with common spaces', 'must be unique')


def is_refusal(e):
    if X.is_refusal(e):
        return True
    return isinstance(e, ValueError) and any(m in str(e) for m in REFUSAL_VALUEERRORS)


# =============================================================================== base meshes with numpy oracles

def gen_recipe(rng, maxdim=3):
    k = rng.random()
    if k < .52:
        nd = int(rng.choice([1, 2, 3][:maxdim], p=numpy.array([.5, .38, .12][:maxdim]) / sum([.5, .38, .12][:maxdim])))
        nodes = []
        for d in range(nd):
            n = int(rng.integers(1, 4 if nd < 3 else 3))
            x0 = float(numpy.round(rng.uniform(-1, 1), 3))
            nodes.append([x0] + (x0 + numpy.cumsum(numpy.round(rng.uniform(.3, 1.5, n), 3))).round(6).tolist())
        return dict(kind='rect', nodes=nodes)
    if k < .82 or maxdim < 3 and k < .9:
        nx, ny = int(rng.integers(1, 3)), int(rng.integers(1, 3))
        gx, gy = numpy.meshgrid(numpy.arange(nx + 1.), numpy.arange(ny + 1.), indexing='ij')
        coords = numpy.stack([gx.ravel(), gy.ravel()], 1)
        A = numpy.eye(2) + rng.uniform(-.3, .3, (2, 2))
        coords = coords @ A.T + rng.uniform(-.15, .15, coords.shape) + rng.uniform(-1, 1, 2)
        nodes = []
        for i in range(nx):
            for j in range(ny):
                v00 = i * (ny + 1) + j
                v01, v10, v11 = v00 + 1, v00 + ny + 1, v00 + ny + 2
                nodes += [[v00, v01, v11], [v00, v10, v11]] if rng.random() < .5 else [[v00, v01, v10], [v01, v10, v11]]
        return dict(kind='simplex', coords=coords.round(6).tolist(), nodes=nodes)
    if k < .9:
        coords = numpy.array([[i, j, l] for i in (0., 1.) for j in (0., 1.) for l in (0., 1.)])
        A = numpy.eye(3) + rng.uniform(-.25, .25, (3, 3))
        coords = coords @ A.T + rng.uniform(-.08, .08, coords.shape)
        import itertools
        nodes = []
        for perm in itertools.permutations(range(3)):
            v, path = 0, [0]
            for ax in perm:
                v += 4 >> ax
                path.append(v)
            nodes.append(path)
        return dict(kind='simplex', coords=coords.round(6).tolist(), nodes=sorted(nodes))
    return dict(kind='unitsquare', etype=str(rng.choice(['mixed', 'triangle'])), n=int(rng.integers(1, 3)))


class Base:
    """A base topology on one space with its numpy oracles."""

    def __init__(self, recipe, space):
        from nutils import mesh
        self.recipe, self.space = recipe, space
        kind = recipe['kind']
        if kind == 'rect':
            self.nodes = [numpy.array(n, float) for n in recipe['nodes']]
            self.topo, self.geom = mesh.rectilinear(self.nodes, space=space)
            self.shape = tuple(len(n) - 1 for n in self.nodes)
        elif kind == 'simplex':
            self.coords = numpy.array(recipe['coords'], float)
            self.cnodes = numpy.array(recipe['nodes'], int)
            self.topo, self.geom = mesh.simplex(self.cnodes, self.cnodes, self.coords, {}, {}, {}, space=space)
        elif kind == 'unitsquare':
            assert space == 'X', 'mesh.unitsquare lives on space X'
            self.topo, self.geom = mesh.unitsquare(recipe['n'], recipe['etype'])
        else:
            raise ValueError(kind)
        self.ndims = self.topo.ndims
        self.affine = kind in ('rect', 'simplex')
        self._basis = None

    def X(self, ie, xi):
        """physical coordinates of base-local points (numpy only)"""
        if self.recipe['kind'] == 'rect':
            multi = numpy.unravel_index(ie, self.shape)
            return numpy.stack([n[m] + (n[m + 1] - n[m]) * xi[:, d] for d, (n, m) in enumerate(zip(self.nodes, multi))], 1) if len(ie) else numpy.zeros((0, self.ndims))
        if self.recipe['kind'] == 'simplex':
            c = self.coords[self.cnodes[ie]]
            return c[:, 0] + numpy.einsum('nkc,nk->nc', c[:, 1:] - c[:, :1], xi)
        return None

    def G(self, ie):
        """dX/dxi per point, shape (N, nd, nd) (numpy only)"""
        if self.recipe['kind'] == 'rect':
            multi = numpy.unravel_index(ie, self.shape)
            G = numpy.zeros((len(ie), self.ndims, self.ndims))
            for d, (n, m) in enumerate(zip(self.nodes, multi)):
                G[:, d, d] = n[m + 1] - n[m]
            return G
        if self.recipe['kind'] == 'simplex':
            c = self.coords[self.cnodes[ie]]
            return numpy.swapaxes(c[:, 1:] - c[:, :1], 1, 2)
        return None

    @property
    def basis(self):
        if self._basis is None:
            b = self.topo.basis('std', degree=1)
            coef = numpy.cos(1. + numpy.arange(len(b)) * 1.7)
            self._basis = b, coef
        return self._basis

    def direct(self, ie, xi, funcs):
        """Evaluate funcs at base-local points, element by element, through a plain default-index sample."""
        from nutils.sample import Sample
        from nutils.pointsseq import PointsSequence
        from nutils import points as P, types
        if len(ie) == 0:
            return None
        order = numpy.argsort(ie, kind='stable')
        sie = ie[order]
        starts = numpy.r_[0, numpy.nonzero(sie[1:] != sie[:-1])[0] + 1, len(sie)]
        uniq = sie[starts[:-1]]
        pts = [P.CoordsPoints(types.arraydata(numpy.ascontiguousarray(xi[order[a:b]], dtype=float))) for a, b in zip(starts[:-1], starts[1:])]
        smp = Sample.new(self.space, (self.topo.transforms[uniq], self.topo.opposites[uniq]), PointsSequence.from_iter(pts, self.ndims))
        vals = smp.eval(list(funcs))
        inv = numpy.empty(len(ie), int)
        inv[order] = numpy.arange(len(ie))
        return [numpy.asarray(v)[inv] for v in vals]


def empty_product(sample):
    """structural predicate of finding C09-empty-product-eval: a product with a zero-point factor somewhere in the tree"""
    name = type(sample).__name__
    kids = [getattr(sample, a) for a in ('_sample1', '_sample2', '_parent') if hasattr(sample, a)] + list(getattr(sample, '_samples', ()))
    if name == '_Mul' and (sample._sample1.npoints == 0 or sample._sample2.npoints == 0):
        return True
    return any(empty_product(k) for k in kids)


def gen_topo_ops(rng, recipe, allow_boundary=True, force_boundary=None):
    nd = len(recipe['nodes']) if recipe['kind'] == 'rect' else (len(recipe['coords'][0]) if recipe['kind'] == 'simplex' else 2)
    ops = []
    n = int(rng.choice([0, 1, 2], p=[.45, .4, .15]))
    if nd == 3:
        n = min(n, 1)
    trimmed = False
    for _ in range(n):
        k = str(rng.choice(['refined', 'refined_by', 'take', 'trim'], p=[.2, .2, .25, .35]))
        if k == 'refined':
            if nd == 3 or sum(o[0] == 'refined' for o in ops) or trimmed:
                continue        # mosaic (trimmed) elements cannot be refined: topology matter (C10), not sampled here
            ops.append(['refined'])
        elif k == 'refined_by':
            if trimmed:
                continue
            ops.append(['refined_by', int(rng.integers(0, 2**31))])
        elif k == 'take':
            ops.append(['take', int(rng.integers(0, 2**31))])
        else:
            if trimmed or recipe['kind'] == 'unitsquare':
                continue
            c = rng.normal(size=nd)
            coef = dict(c=c.round(4).tolist(), t=float(numpy.round(rng.uniform(.25, .75), 4)))
            if rng.random() < .3:
                coef['q'] = float(numpy.round(rng.normal(), 3))
            ops.append(['trim', coef, int(rng.choice([0, 1, 2] if nd < 3 else [0, 1]))])
            trimmed = True
    bnd = force_boundary if force_boundary is not None else (allow_boundary and rng.random() < .12)
    if bnd and not any(o[0] in ('take', 'refined_by') for o in ops):      # selections / hierarchical topologies have no connectivity: no boundary
        ops.append(['boundary'])
    return ops


def derive(base, ops):
    """Apply derived-topology operations to base.topo."""
    topo = base.topo
    for op in ops:
        k = op[0]
        if k == 'refined':
            topo = topo.refined
        elif k == 'refined_by':
            r = numpy.random.default_rng(op[1])
            n = len(topo)
            sel = numpy.nonzero(r.random(n) < .5)[0]
            if len(sel) == 0:
                sel = numpy.array([int(r.integers(0, n))])
            topo = topo.refined_by(sel)
        elif k == 'take':
            r = numpy.random.default_rng(op[1])
            n = len(topo)
            sel = numpy.nonzero(r.random(n) < .6)[0]
            if len(sel) == 0:
                sel = numpy.array([int(r.integers(0, n))])
            topo = topo[sel]
        elif k == 'trim':
            coef, maxrefine = op[1], op[2]
            # levelset through the point at relative position t of the bounding box, physical coordinates
            s = base.topo.sample('bezier', 2).eval(base.geom)
            lo, hi = s.min(0), s.max(0)
            p0 = lo + coef['t'] * (hi - lo)
            x = base.geom
            ls = ((x - p0) * numpy.array(coef['c'])).sum()
            if coef.get('q'):
                ls = ls + coef['q'] * ((x - p0)**2).sum()
            topo = topo.trim(ls, maxrefine=maxrefine)
        elif k == 'boundary':
            topo = topo.boundary
        else:
            raise ValueError(k)
        if len(topo) == 0:
            raise Skip('empty derived topology')
    return topo


def tail_map(tail, ntip, nbase):
    """linear part of the affine map tip coords -> base coords, as (nbase, ntip) matrix"""
    from nutils import transform
    if not tail:
        return numpy.eye(nbase, ntip)
    pts = numpy.concatenate([numpy.zeros((1, ntip)), numpy.eye(ntip)])
    img = numpy.asarray(transform.apply(tail, pts))
    return (img[1:] - img[0]).T.reshape(nbase, ntip)


# =============================================================================== the model

class Model:

    def __init__(self, spaces, tip, IE, XI, TL, W, elems, ndims, parts=None, loose=False):
        self.spaces, self.tip, self.IE, self.XI, self.TL, self.W, self.elems, self.ndims = tuple(spaces), dict(tip), IE, XI, TL, W, list(elems), ndims
        self.parts, self.loose = parts, loose

    @property
    def N(self):
        return sum(len(e) for e in self.elems)

    @property
    def nelems(self):
        return len(self.elems)

    @staticmethod
    def empty(spaces, tip, nbase, ndims):
        return Model(spaces, tip, {s: numpy.zeros(0, int) for s in spaces}, {s: numpy.zeros((0, nbase[s])) for s in spaces},
                     {s: numpy.zeros((0, nbase[s], tip[s])) for s in spaces}, numpy.zeros(0), [], ndims)

    def nbase(self):
        return {s: self.XI[s].shape[1] for s in self.spaces}

    def _sel(self, order, elems, **kw):
        W = None if self.W is None else self.W[order]
        return Model(self.spaces, self.tip, {s: self.IE[s][order] for s in self.spaces}, {s: self.XI[s][order] for s in self.spaces},
                     {s: self.TL[s][order] for s in self.spaces}, W, elems, self.ndims, **kw)


def m_new(space, elements, nbase, ntip):
    """elements: list of (ie, xi_base (n,nbase), TL (nbase,ntip), w or None)"""
    IE, XI, TL, W, elems = [], [], [], [], []
    off = 0
    noweights = False
    for ie, xi, tl, w in elements:
        n = len(xi)
        IE.append(numpy.full(n, ie, int))
        XI.append(xi.reshape(n, nbase))
        TL.append(numpy.broadcast_to(tl, (n, nbase, ntip)))
        if w is None:
            noweights = True
        else:
            W.append(w)
        elems.append(numpy.arange(off, off + n))
        off += n
    cat = lambda l, shape: numpy.concatenate(l) if l else numpy.zeros(shape)
    return Model((space,), {space: ntip}, {space: cat(IE, 0).astype(int)}, {space: cat(XI, (0, nbase))}, {space: cat(TL, (0, nbase, ntip))},
                 None if noweights else cat(W, 0), elems, ntip)


def m_mul(a, b):
    Na, Nb = a.N, b.N
    IE, XI, TL = {}, {}, {}
    for s in a.spaces:
        IE[s], XI[s], TL[s] = numpy.repeat(a.IE[s], Nb), numpy.repeat(a.XI[s], Nb, axis=0), numpy.repeat(a.TL[s], Nb, axis=0)
    for s in b.spaces:
        IE[s], XI[s], TL[s] = numpy.tile(b.IE[s], Na), numpy.tile(b.XI[s], (Na, 1)), numpy.tile(b.TL[s], (Na, 1, 1))
    W = None if a.W is None or b.W is None else numpy.multiply.outer(a.W, b.W).ravel()
    elems = [(ea[:, None] * Nb + eb[None, :]).ravel() for ea in a.elems for eb in b.elems]
    return Model(a.spaces + b.spaces, {**a.tip, **b.tip}, IE, XI, TL, W, elems, a.ndims + b.ndims)


def m_add(a, b):
    assert a.spaces == b.spaces
    if b.N == 0:
        return a
    if a.N == 0:
        return b
    cat = numpy.concatenate
    W = None if a.W is None or b.W is None else cat([a.W, b.W])
    return Model(a.spaces, a.tip, {s: cat([a.IE[s], b.IE[s]]) for s in a.spaces}, {s: cat([a.XI[s], b.XI[s]]) for s in a.spaces},
                 {s: cat([a.TL[s], b.TL[s]]) for s in a.spaces}, W, a.elems + [e + a.N for e in b.elems], a.ndims, parts=(a, b))


def m_take(m, I):
    I = numpy.asarray(I, int)
    if m.nelems == 0:
        return m
    if len(I) == 0:
        return Model.empty(m.spaces, m.tip, m.nbase(), m.ndims)
    if m.parts is not None:
        # a union hands the request to its summands: elements of the first summand come first
        a, b = m.parts
        mask = I < a.nelems
        OBS['A/union_take_elements'] += 1
        if len(I) > 1 and (numpy.diff(mask.astype(int)) > 0).any():
            OBS['A/union_take_elements_regrouped'] += 1     # request interleaves the summands: result is grouped by summand
        return m_add(m_take(a, I[mask]), m_take(b, I[~mask] - a.nelems))
    order = numpy.concatenate([m.elems[i] for i in I])
    sizes = [len(m.elems[i]) for i in I]
    offs = numpy.cumsum([0] + sizes)
    return m._sel(order, [numpy.arange(offs[k], offs[k + 1]) for k in range(len(I))])


def m_subset(m, mask):
    sel = [i for i, e in enumerate(m.elems) if mask[e].any()]
    return m_take(m, numpy.array(sel, int))


def m_custom(m, perm):
    inv = numpy.empty(len(perm), int)
    inv[perm] = numpy.arange(len(perm))        # new position p holds the point formerly at inv[p]
    return m._sel(inv, [perm[e] for e in m.elems])


def m_rename(m, mp):
    r = lambda s: mp.get(s, s)
    rn = lambda d: {r(s): v for s, v in d.items()}
    parts = None if m.parts is None else tuple(m_rename(p, mp) for p in m.parts)
    return Model(tuple(r(s) for s in m.spaces), rn(m.tip), rn(m.IE), rn(m.XI), rn(m.TL), m.W, m.elems, m.ndims, parts=parts, loose=m.loose)


def m_zip(ms):
    N = ms[0].N
    assert all(m.N == N for m in ms)
    keys = numpy.zeros((len(ms), N), int)
    for k, m in enumerate(ms):
        for i, e in enumerate(m.elems):
            keys[k, e] = i
    tuples = [tuple(keys[:, r]) for r in range(N)]
    groups = {}
    for r, t in enumerate(tuples):
        groups.setdefault(t, []).append(r)
    elems = [numpy.array(groups[t], int) for t in sorted(groups)]
    IE, XI, TL, tip, spaces = {}, {}, {}, {}, ()
    for m in ms:
        IE.update(m.IE), XI.update(m.XI), TL.update(m.TL), tip.update(m.tip)
        spaces += m.spaces
    return Model(spaces, tip, IE, XI, TL, ms[0].W, elems, ms[0].ndims, loose=True)


def m_locate(space, ie, xi, w, nbase):
    uniq = numpy.unique(ie)
    elems = [numpy.nonzero(ie == u)[0] for u in uniq]
    N = len(ie)
    return Model((space,), {space: nbase}, {space: numpy.asarray(ie, int)}, {space: numpy.asarray(xi, float).reshape(N, nbase)},
                 {space: numpy.broadcast_to(numpy.eye(nbase), (N, nbase, nbase)).copy()}, w, elems, nbase, loose=True)


# =============================================================================== expression generator (static JSON)

SCHEMES = ['gauss', 'uniform', 'bezier', 'vertex', '_centroid', 'vtk']


def _recipe_dims(recipe):
    return len(recipe['nodes']) if recipe['kind'] == 'rect' else (len(recipe['coords'][0]) if recipe['kind'] == 'simplex' else 2)


def _est_nelems(recipe, ops):
    if recipe['kind'] == 'rect':
        n = int(numpy.prod([len(x) - 1 for x in recipe['nodes']]))
    elif recipe['kind'] == 'simplex':
        n = len(recipe['nodes'])
    else:
        n = recipe['n']**2 * 2
    nd = _recipe_dims(recipe)
    f = 1.
    for op in ops:
        if op[0] in ('refined', 'refined_by'):
            n *= 2**nd
        elif op[0] == 'trim':
            f *= 3 * (2**(nd * op[2])) ** .5
        elif op[0] == 'boundary':
            n *= 2 * nd
    return n, f


def _ppe(scheme, degree, nd, simplex):
    if scheme == 'gauss':
        if simplex and nd > 1:
            return {2: [1, 1, 3, 4, 6, 7, 12, 13, 13], 3: [1, 1, 4, 5, 11, 15, 24, 31, 45]}[nd][min(degree, 8)]
        return (degree // 2 + 1)**nd
    if scheme in ('uniform', 'bezier'):
        return degree**nd
    if scheme == 'vertex':
        return (2**degree + 1)**nd
    return 2**nd if scheme == 'vtk' else 1


def gen_scheme(rng, recipe, ops, cap):
    nd = _recipe_dims(recipe)
    if ops and ops[-1][0] == 'boundary':
        nd -= 1
    simplex = recipe['kind'] != 'rect'
    n, f = _est_nelems(recipe, ops)
    for _ in range(30):
        scheme = str(rng.choice(SCHEMES, p=[.5, .15, .15, .08, .06, .06]))
        if scheme == 'gauss':
            degree = int(rng.integers(1, 9)) if rng.random() < .95 else 0
        elif scheme == 'uniform':
            degree = int(rng.integers(1, 9))
        elif scheme == 'bezier':
            degree = int(rng.integers(2, 9))
        elif scheme == 'vertex':
            degree = int(rng.integers(0, 4))
        else:
            degree = None
        if scheme == 'uniform' and simplex and nd == 3 and rng.random() < .9:
            continue        # documented: no uniform scheme on tetrahedra (kept at a low rate to count the refusal)
        while degree is not None and degree > (2 if scheme == 'bezier' else 1 if scheme != 'vertex' else 0) and n * f * _ppe(scheme, degree, nd, simplex) > cap:
            degree -= 1
        return scheme, degree
    return 'gauss', 1


class Gen:
    """Generates a static JSON expression; sizes are controlled by estimates only."""

    def __init__(self, rng, maxdepth):
        self.rng, self.maxdepth = rng, maxdepth
        self.recipes = []
        self.nspaces = 0

    def fresh(self, rid=None):
        if rid is not None and self.recipes[rid]['kind'] == 'unitsquare':
            return 'X'      # mesh.unitsquare has a fixed space name
        s = SPACE_NAMES[self.nspaces]
        self.nspaces += 1
        return s

    def recipe(self, maxdim=3):
        r = gen_recipe(self.rng, maxdim)
        while r['kind'] == 'unitsquare' and any(q['kind'] == 'unitsquare' for q in self.recipes):
            r = gen_recipe(self.rng, maxdim)
        self.recipes.append(r)
        return len(self.recipes) - 1

    def leaf(self, cap, maxdim=3):
        rng = self.rng
        k = rng.random()
        if k < .62:
            rid = self.recipe(maxdim)
            ops = gen_topo_ops(rng, self.recipes[rid])
            scheme, degree = gen_scheme(rng, self.recipes[rid], ops, cap)
            if rng.random() < .22:
                return ['custom', self.fresh(rid), rid, ops, scheme, degree, int(rng.integers(0, 2**31))]
            return ['new', self.fresh(rid), rid, ops, scheme, degree]
        if k < .8:
            parts = []
            sub = max(4, int(cap**.5))
            rid0 = None
            for _ in range(2 if rng.random() < .8 else 3):
                rid = self.recipe(2)
                ops = gen_topo_ops(rng, self.recipes[rid])
                parts.append([self.fresh(rid), rid, ops])
            # one scheme/degree for all factors, as Topology.sample takes one
            scheme, degree = gen_scheme(rng, self.recipes[parts[0][1]], parts[0][2], sub)
            for p in parts[1:]:
                s2, d2 = gen_scheme(rng, self.recipes[p[1]], p[2], sub)
                if degree is not None and d2 is not None and scheme == s2:
                    degree = min(degree, d2)
            if scheme in ('uniform', 'bezier', 'vertex') and degree is not None:
                degree = min(degree, 3 if scheme != 'vertex' else 1)
            if scheme == 'gauss':
                degree = min(degree, 4)
            if rng.random() < .4:
                return ['topotake', parts, scheme, degree, int(rng.integers(0, 2**31))]
            return ['topomul', parts, scheme, degree]
        rid = self.recipe(maxdim)
        rec = self.recipes[rid]
        ops = [['refined']] if rng.random() < .25 and _recipe_dims(rec) < 3 else []
        n = int(rng.integers(1, min(40, cap) + 1))
        return ['locate', self.fresh(rid), rid, ops, int(rng.integers(0, 2**31)), n, bool(rng.random() < .75)]

    def variant(self, e, cap):
        """Another sample over the same spaces (for '+')."""
        rng = self.rng
        k = e[0]
        if k in ('new', 'custom'):
            rec = self.recipes[e[2]]
            bnd = bool(e[3]) and e[3][-1][0] == 'boundary'
            ops = gen_topo_ops(rng, rec, force_boundary=bnd)
            scheme, degree = gen_scheme(rng, rec, ops, cap)
            if rng.random() < .15:
                return ['custom', e[1], e[2], ops, scheme, degree, int(rng.integers(0, 2**31))]
            return ['new', e[1], e[2], ops, scheme, degree]
        if k == 'mul':
            return ['mul', self.variant(e[1], max(4, int(cap**.5))), self.variant(e[2], max(4, int(cap**.5)))]
        if k == 'add':
            return self.variant(e[1], cap) if rng.random() < .5 else ['add', self.variant(e[1], cap // 2), self.variant(e[2], cap // 2)]
        if k in ('take', 'subset'):
            return [k, self.variant(e[1], cap), int(rng.integers(0, 2**31))] + e[3:]
        if k == 'rename':
            return ['rename', self.variant(e[1], cap), e[2]]
        if k == 'addempty':
            return self.variant(e[1], cap)
        if k == 'locate':
            return ['locate', e[1], e[2], e[3], int(rng.integers(0, 2**31)), int(rng.integers(1, 30)), e[6]]
        if rng.random() < .5:
            return ['take', e, int(rng.integers(0, 2**31)), 'any']
        return e

    def expr(self, depth, cap):
        rng = self.rng
        if depth <= 0 or rng.random() < .12:
            return self.leaf(cap)
        op = str(rng.choice(['mul', 'add', 'take', 'subset', 'zip', 'rename', 'custom'], p=[.2, .2, .2, .1, .15, .1, .05]))
        if op == 'mul':
            sub = max(4, int(cap**.5))
            return ['mul', self.expr(depth - 1, sub), self.expr(depth - 1, sub)]
        if op == 'add':
            a = self.expr(depth - 1, cap // 2)
            if rng.random() < .08:
                return ['addempty', a, int(rng.integers(0, 2))]       # Sample.empty as the neutral element of '+'
            return ['add', a, self.variant(a, cap // 2)]
        if op == 'take':
            return ['take', self.expr(depth - 1, cap), int(rng.integers(0, 2**31)), str(rng.choice(['sorted', 'any', 'repeat'], p=[.45, .45, .1]))]
        if op == 'subset':
            return ['subset', self.expr(depth - 1, cap), int(rng.integers(0, 2**31))]
        if op == 'rename':
            return ['rename', self.expr(depth - 1, cap), int(rng.integers(0, 2**31))]
        if op == 'custom':
            return self.leaf(cap)
        # zip: partners are fitted to the point count of the first argument at execution time
        a = self.expr(depth - 1, min(cap, 120))
        partners = []
        for _ in range(1 if rng.random() < .8 else 2):
            if rng.random() < .6:
                rid = self.recipe(2)
                ops = [['refined']] if rng.random() < .2 else []
                partners.append(['locate', self.fresh(rid), rid, ops, int(rng.integers(0, 2**31)), None, bool(rng.random() < .5)])
            else:
                partners.append(['fitline', self.fresh(), int(rng.integers(0, 2**31))])
        if rng.random() < .25 and partners[0][0] == 'locate':
            return ['zip', partners[0], a] + partners[1:]      # located sample first: provides the weights
        return ['zip', a] + partners


def skeleton(e):
    """structure of an expression without seeds: used for distinctness and for coverage by kind"""
    k = e[0]
    if k in ('new', 'custom'):
        return [k, [o[0] for o in e[3]], e[4], e[5]]
    if k in ('topomul', 'topotake'):
        return [k, [[o[0] for o in p[2]] for p in e[1]], e[2], e[3]]
    if k == 'locate':
        return [k, [o[0] for o in e[3]], e[6]]
    if k == 'fitline':
        return [k]
    if k in ('take',):
        return [k, skeleton(e[1]), e[3]]
    if k in ('subset', 'rename', 'addempty'):
        return [k, skeleton(e[1])]
    return [k] + [skeleton(c) for c in e[1:]]


def depth_of(e):
    k = e[0]
    if k in ('new', 'custom', 'topomul', 'topotake', 'locate', 'fitline'):
        return 0
    return 1 + max(depth_of(c) for c in e[1:] if isinstance(c, list) and c and isinstance(c[0], str) and c[0] in KINDS)


KINDS = {'new', 'custom', 'topomul', 'topotake', 'locate', 'fitline', 'mul', 'add', 'addempty', 'take', 'subset', 'zip', 'rename'}


def kinds_of(e, acc=None):
    acc = [] if acc is None else acc
    acc.append(e[0])
    for c in e[1:]:
        if isinstance(c, list) and c and isinstance(c[0], str) and c[0] in KINDS:
            kinds_of(c, acc)
    return acc


# =============================================================================== lock-step executor

class Exec:
    """Builds the real sample and the model for an expression, comparing structure after every constructor."""

    def __init__(self, recipes, res):
        self.recipes, self.res = recipes, res
        self.bases = {}
        self.space_recipe = {}
        self.problems = []       # (monitor, detail)
        self.nodes = 0

    def base(self, space, rid=None):
        if rid is None:
            rid = self.space_recipe[space]
        key = space, rid
        if key not in self.bases:
            self.bases[key] = Base(self.recipes[rid], space)
        self.space_recipe[space] = rid
        return self.bases[key]

    # ---- leaves

    def _elements(self, base, D, scheme, degree):
        from nutils import transform
        els = []
        ntip = D.ndims
        for j, ref in enumerate(D.references):
            try:
                pts, _ = X.getpoints(ref, scheme, degree)
                coords = numpy.asarray(pts.coords, float)
                w = getattr(pts, 'weights', None)
            except Exception as e:
                if is_refusal(e):
                    raise Rejected(f'getpoints:{scheme}@{type(ref).__name__}', e)
                raise
            ie, tail = base.topo.transforms.index_with_tail(D.transforms[j])
            xi = numpy.asarray(transform.apply(tail, coords), float).reshape(len(coords), base.ndims)
            els.append((ie, xi, tail_map(tail, ntip, base.ndims), None if w is None else numpy.asarray(w, float)))
        return els

    def leaf_new(self, e):
        kind, space, rid, ops, scheme, degree = e[:6]
        base = self.base(space, rid)
        D = self._derive(base, ops)
        model = m_new(space, self._elements(base, D, scheme, degree), base.ndims, D.ndims)
        if model.N > HARDCAP:
            raise Skip('oversize')
        if kind == 'new':
            real = self._call('topo.sample', lambda: D.sample(scheme, degree))
        else:
            from nutils.sample import Sample
            perm = numpy.random.default_rng(e[6]).permutation(model.N)
            def mk():
                pts = D.references.getpoints(scheme, degree)
                transforms = (D.transforms,) if len(D.transforms) and D.opposites == D.transforms else (D.transforms, D.opposites)
                if numpy.random.default_rng(e[6] + 1).random() < .5:
                    offs = numpy.cumsum([0] + [len(x) for x in model.elems])
                    return Sample.new(space, transforms, pts, tuple(perm[a:b] for a, b in zip(offs[:-1], offs[1:])))
                return Sample.new(space, transforms, pts, perm)
            real = self._call('Sample.new(index)', mk)
            model = m_custom(model, perm)
        return real, model

    def _derive(self, base, ops):
        try:
            return derive(base, ops)
        except Skip:
            raise
        except Exception as e:
            if is_refusal(e):
                raise Rejected('derive:' + '/'.join(o[0] for o in ops), e)
            raise

    def leaf_topomul(self, e):
        kind, parts, scheme, degree = e[:4]
        topo, model = None, None
        for space, rid, ops in parts:
            base = self.base(space, rid)
            D = self._derive(base, ops)
            m = m_new(space, self._elements(base, D, scheme, degree), base.ndims, D.ndims)
            topo = D if topo is None else topo * D
            model = m if model is None else m_mul(model, m)
            if model.N > HARDCAP:
                raise Skip('oversize')
        if kind == 'topotake':
            r = numpy.random.default_rng(e[4])
            n = len(topo)
            sel = numpy.nonzero(r.random(n) < .5)[0]
            if len(sel) == 0:
                sel = numpy.array([int(r.integers(0, n))])
            real = self._call('(topo*topo).take.sample', lambda: topo.take(sel).sample(scheme, degree))
            model = m_take(model, sel)
        else:
            real = self._call('(topo*topo).sample', lambda: topo.sample(scheme, degree))
        return real, model

    def leaf_locate(self, e, N=None):
        kind, space, rid, ops, seed, n, withw = e
        base = self.base(space, rid)
        if not base.affine:
            raise Skip('locate needs the numpy geometry oracle')
        D = self._derive(base, ops)
        n = N if n is None else n
        if not n:
            raise Skip('nothing to locate')
        r = numpy.random.default_rng(seed)
        from nutils import transform
        els = r.integers(0, len(D), n)
        ie = numpy.empty(n, int)
        xi = numpy.empty((n, base.ndims))
        own = numpy.empty((n, base.ndims))
        for k, j in enumerate(els):
            ref = D.references[j]
            f = X.factors(ref)
            # strictly interior point of the (plain) element: barycentric coordinates >= 0.08
            c = []
            for d in f:
                lam = r.dirichlet(numpy.ones(d + 1)) * (1 - .08 * (d + 1)) + .08
                c += lam[1:].tolist()
            own[k] = c
            i, tail = base.topo.transforms.index_with_tail(D.transforms[j])
            ie[k] = i
            xi[k] = numpy.asarray(transform.apply(tail, numpy.array([c])))[0]
        target = base.X(ie, xi)
        w = r.uniform(.1, 2., n).round(4) if withw else None
        kw = dict(tol=1e-10) if r.random() < .7 else dict(eps=1e-10)
        real = self._call('topo.locate', lambda: D.locate(base.geom, target, weights=w, **kw))
        # the located sample lives on D: element index within D, coordinates local to D's element; model in base terms
        model = m_locate(space, ie, xi, w, base.ndims)
        if ops:
            # elements are D's elements, not base elements
            keys = els
            uniq = numpy.unique(keys)
            model.elems = [numpy.nonzero(keys == u)[0] for u in uniq]
            TL = numpy.empty((n, base.ndims, base.ndims))
            for k, j in enumerate(els):
                i, tail = base.topo.transforms.index_with_tail(D.transforms[j])
                TL[k] = tail_map(tail, base.ndims, base.ndims)
            model.TL[space] = TL
        model.loc_tol = 1e-8
        return real, model

    def leaf_fitline(self, e, N):
        kind, space, seed = e
        if not N:
            raise Skip('nothing to fit')
        r = numpy.random.default_rng(seed)
        divs = [d for d in range(1, N + 1) if N % d == 0 and d <= 8]
        d = int(r.choice(divs))
        k = N // d
        if k > 60:
            raise Skip('fitline too long')
        nodes = numpy.r_[0., numpy.cumsum(r.uniform(.5, 1.5, k).round(3))].round(6).tolist()
        self.recipes.append(dict(kind='rect', nodes=[nodes]))
        rid = len(self.recipes) - 1
        scheme = 'uniform' if r.random() < .7 or d == 1 else 'bezier'
        sub = ['custom' if r.random() < .6 else 'new', space, rid, [], scheme, d, int(r.integers(0, 2**31))]
        return self.leaf_new(sub)

    # ---- driver

    def _call(self, what, fn):
        try:
            with warnings.catch_warnings():
                warnings.simplefilter('ignore')
                return fn()
        except (Rejected, Skip):
            raise
        except Exception as e:
            if is_refusal(e):
                raise Rejected(what, e)
            raise

    def run(self, e, N=None):
        real, model = self._run(e, N)
        self.nodes += 1
        self.res.count('A/constructions/' + e[0])
        self.check_structure(real, model, e[0])
        return real, model

    def _run(self, e, N=None):
        from nutils.sample import Sample
        k = e[0]
        if k in ('new', 'custom'):
            return self.leaf_new(e)
        if k in ('topomul', 'topotake'):
            return self.leaf_topomul(e)
        if k == 'locate':
            return self.leaf_locate(e, N)
        if k == 'fitline':
            return self.leaf_fitline(e, N)
        if k == 'mul':
            (ra, ma), (rb, mb) = self.run(e[1]), self.run(e[2])
            if ma.N * mb.N > HARDCAP:
                raise Skip('oversize')
            return self._call('mul', lambda: ra * rb), m_mul(ma, mb)
        if k == 'add':
            (ra, ma), (rb, mb) = self.run(e[1]), self.run(e[2])
            if any(ma.tip[s] != mb.tip[s] for s in ma.spaces):
                raise Skip('mixed dimensions in a union')
            return self._call('add', lambda: ra + rb), m_add(ma, mb)
        if k == 'addempty':
            ra, ma = self.run(e[1])
            empty = Sample.empty(ra.spaces, ra.ndims)
            return self._call('add', (lambda: ra + empty) if e[2] else (lambda: empty + ra)), ma
        if k == 'take':
            ra, ma = self.run(e[1])
            r = numpy.random.default_rng(e[2])
            n = ma.nelems
            if n == 0:
                I = numpy.zeros(0, int)
            elif e[3] == 'sorted':
                I = numpy.nonzero(r.random(n) < .6)[0]
            elif e[3] == 'any':
                I = r.permutation(n)[:int(r.integers(0 if r.random() < .05 else 1, n + 1))]
            else:
                I = r.integers(0, n, int(r.integers(1, n + 2)))
            return self._call('take_elements', lambda: ra.take_elements(I)), m_take(ma, I)
        if k == 'subset':
            ra, ma = self.run(e[1])
            if ma.N == 0:
                raise Skip('subset of an empty sample')
            r = numpy.random.default_rng(e[2])
            mask = r.random(ma.N) < r.choice([.02, .1, .4])
            if not mask.any():
                mask[int(r.integers(0, ma.N))] = True
            return self._call('subset', lambda: ra.subset(mask)), m_subset(ma, mask)
        if k == 'rename':
            ra, ma = self.run(e[1])
            r = numpy.random.default_rng(e[2])
            can = [s for s in ma.spaces if self.recipes[self.space_recipe[s]]['kind'] != 'unitsquare']     # unitsquare is tied to space X
            if not can:
                raise Skip('nothing to rename')
            old = [s for s in can if r.random() < .7] or [can[0]]
            mp = {s: s + 'x' for s in old}
            for s, t in mp.items():
                self.space_recipe[t] = self.space_recipe[s]
            return self._call('rename_spaces', lambda: ra.rename_spaces(mp)), m_rename(ma, mp)
        if k == 'zip':
            first = e[1]
            if first[0] == 'locate' and first[5] is None:
                # located sample first: the anchor is the second argument
                rb, mb = self.run(e[2])
                ra, ma = self.run(first, mb.N)
                pairs = [(ra, ma), (rb, mb)]
                rest = e[3:]
                N0 = mb.N
            else:
                ra, ma = self.run(first)
                pairs = [(ra, ma)]
                rest = e[2:]
                N0 = ma.N
            if N0 == 0 or N0 > 400:
                raise Skip('zip size')
            for p in rest:
                pairs.append(self.run(p, N0))
            return self._call('zip', lambda: Sample.zip(*[p[0] for p in pairs])), m_zip([p[1] for p in pairs])
        raise ValueError(k)

    # ---- monitors on structure

    def problem(self, monitor, detail):
        self.problems.append((monitor, detail))

    def check_structure(self, real, model, what):
        res = self.res
        res.count('A/structure_checks')
        if tuple(real.spaces) != model.spaces:
            self.problem('spaces', f'{what}: real {real.spaces} model {model.spaces}')
            return
        if real.nelems != model.nelems or real.npoints != model.N:
            self.problem('nelems/npoints', f'{what}: real nelems={real.nelems} npoints={real.npoints}, model nelems={model.nelems} npoints={model.N}')
            return
        if real.ndims != model.ndims:
            self.problem('ndims', f'{what}: real ndims={real.ndims}, model {model.ndims}')
        seen = numpy.zeros(model.N, int)
        for i in range(model.nelems):
            gi = numpy.asarray(real.getindex(i))
            res.count('A/getindex_calls')
            if gi.ndim != 1 or gi.dtype.kind not in 'iu':
                self.problem('getindex', f'{what}: getindex({i}) has shape {gi.shape} dtype {gi.dtype}')
                return
            exp = model.elems[i]
            if model.loose:
                ok = len(gi) == len(exp) and (numpy.sort(gi) == numpy.sort(exp)).all()
                if ok:
                    model.elems[i] = gi.copy()      # point order inside a zipped/located element is the sample's choice
            else:
                ok = len(gi) == len(exp) and (gi == exp).all()
            if not ok:
                self.problem('getindex', f'{what}: getindex({i})={gi.tolist()[:12]} but the model has {exp.tolist()[:12]}')
                return
            if len(gi) and (gi.min() < 0 or gi.max() >= model.N):
                self.problem('getindex', f'{what}: getindex({i}) out of range')
                return
            seen[gi] += 1
        if model.N and not (seen == 1).all():
            self.problem('getindex', f'{what}: element indices are not a partition of range(npoints)')
        model.loose = False
        try:
            idx = real.index
            if len(idx) != model.nelems or any((numpy.asarray(a) != b).any() for a, b in zip(idx, model.elems)):
                self.problem('getindex', f'{what}: sample.index disagrees with getindex')
        except Exception as e:
            if not is_refusal(e):
                raise


# =============================================================================== value monitors

def real_weights(sample, res):
    """Weights of the real sample in evaluation order, from the sample's own evaluable weights; None if unavailable."""
    from nutils import evaluable
    n = sample.nelems
    if n == 0:
        return numpy.zeros(0)
    try:
        ielem = evaluable.InRange(evaluable.Argument('ielem', (), int), evaluable.constant(n))
        f = evaluable.compile(sample.get_evaluable_weights(ielem), stats=False)
        W = numpy.zeros(sample.npoints)
        for i in range(n):
            w = numpy.asarray(f(dict(ielem=i)), float).ravel()
            W[numpy.asarray(sample.getindex(i))] = w
        return W
    except NotImplementedError:
        pass
    s1, s2 = getattr(sample, '_sample1', None), getattr(sample, '_sample2', None)
    if s1 is None or s2 is None:
        return None
    w1, w2 = real_weights(s1, res), real_weights(s2, res)
    if w1 is None or w2 is None:
        return None
    name = type(sample).__name__
    if name == '_Add':
        return numpy.concatenate([w1, w2])
    if name == '_Mul':
        return numpy.multiply.outer(w1, w2).ravel()
    return None


def leaf_values(ex, model, rng):
    """Per space: dict name -> (nutils function, expected per-point values, source)."""
    from nutils import function
    out = {}
    probs = []
    for s in model.spaces:
        b = ex.base(s)
        ie, xi, tl = model.IE[s], model.XI[s], model.TL[s]
        d = {}
        d['idx'] = (b.topo.f_index, ie.copy())
        k = int(rng.integers(0, b.ndims))
        d['xi'] = (b.topo.f_coords[k], xi[:, k].copy())
        Xn = b.X(ie, xi)
        basis, coef = b.basis
        kb = int(rng.integers(0, len(basis)))
        direct = b.direct(ie, xi, [b.geom, basis @ coef, basis[kb]]) if len(ie) else [numpy.zeros((0, b.ndims)), numpy.zeros(0), numpy.zeros(0)]
        ex.res.count('A/direct_evaluations')
        if Xn is not None:
            ex.res.count('A/numpy_geometry_oracle')
            if len(ie) and numpy.abs(Xn - direct[0]).max() > 1e-9 * max(1., numpy.abs(Xn).max()):
                probs.append(('direct evaluation vs numpy geometry', f'space {s}: max diff {numpy.abs(Xn - direct[0]).max():.3e}'))
        else:
            Xn = direct[0]
        kx = int(rng.integers(0, b.ndims))
        p = int(rng.integers(1, 4))
        d['x'] = (b.geom[kx]**p, Xn[:, kx]**p)
        d['xvec'] = (b.geom, Xn)
        d['u'] = (basis @ coef, direct[1])
        d['bk'] = (basis[kb], direct[2])
        G = b.G(ie)
        if G is not None:
            M = numpy.einsum('nij,njk->nik', G, tl)
            if M.shape[1] == M.shape[2]:
                J = numpy.abs(numpy.linalg.det(M)) if M.shape[1] else numpy.ones(len(ie))
            else:
                J = numpy.sqrt(numpy.abs(numpy.linalg.det(numpy.einsum('nji,njk->nik', M, M)))) if M.shape[2] else numpy.ones(len(ie))
            d['J'] = (function.J(b.geom), J)
        out[s] = d
    return out, probs


def make_integrands(ex, model, rng):
    leaves, probs = leaf_values(ex, model, rng)
    funcs = []
    N = model.N
    names = ['one', 'idx', 'xi', 'x', 'u', 'bk', 'J']
    # 1. sum of products of per-space factors
    for rep in range(2):
        f, E, scale, desc = 0., numpy.zeros(N), 1., []
        for t in range(int(rng.integers(1, 4))):
            c = float(rng.choice([1., -1., 2., .5, -1.5]))
            ft, Et, dt = c, numpy.full(N, c), [str(c)]
            for s in model.spaces:
                k = str(rng.choice(names, p=[.1, .15, .1, .25, .15, .05, .2]))
                if k == 'one' or k not in leaves[s]:
                    continue
                fn, ev = leaves[s][k]
                ft, Et = ft * fn, Et * ev
                dt.append(f'{k}_{s}')
            f, E = f + ft, E + Et
            scale = max(scale, float(numpy.abs(Et).max()) if N else 1.)
            desc.append('*'.join(dt))
        from nutils import function
        funcs.append(('+'.join(desc), function.Array.cast(f), E, scale))
    # 2. vector integrand: geometry of one space times a scalar of another
    s0 = model.spaces[int(rng.integers(0, len(model.spaces)))]
    fn, ev = leaves[s0]['xvec']
    f, E, desc = fn, ev.copy(), f'xvec_{s0}'
    for s in model.spaces:
        if s != s0 and rng.random() < .7:
            k = str(rng.choice(['idx', 'x', 'u', 'J']))
            if k in leaves[s]:
                f, E, desc = f * leaves[s][k][0], E * leaves[s][k][1][:, None], desc + f'*{k}_{s}'
    funcs.append((desc, f, E, max(1., float(numpy.abs(E).max()) if N else 1.)))
    # 3. pure integer integrand: product of element indices
    f, E = 1, numpy.ones(N, int)
    for s in model.spaces:
        f, E = f * (leaves[s]['idx'][0] + 1), E * (leaves[s]['idx'][1] + 1)
    funcs.append(('prod(idx+1)', f, E, max(1., float(E.max()) if N else 1.)))
    # 4. weights-only (J of every space where available): physical measure of what was sampled
    f, E = 1., numpy.ones(N)
    for s in model.spaces:
        if 'J' in leaves[s]:
            f, E = f * leaves[s]['J'][0], E * leaves[s]['J'][1]
    from nutils import function
    funcs.append(('prod(J)', function.Array.cast(f), E, max(1., float(E.max()) if N else 1.)))
    return funcs, probs


def check_values(ex, real, model, rng, tol):
    """eval / integrate of the real sample against the model table. Returns list of (monitor, detail)."""
    res = ex.res
    probs = []
    funcs, p0 = make_integrands(ex, model, rng)
    probs += p0
    fs = [f for _, f, _, _ in funcs]
    try:
        with warnings.catch_warnings():
            warnings.simplefilter('ignore')
            vals = real.eval(fs)
    except Exception as e:
        if is_refusal(e):
            res.count('A/rejected_at_eval')
            res.add('A/rejected_kinds', f'eval:{type(e).__name__}:{str(e)[:60]}')
            return probs, False
        raise
    res.count('A/evals')
    loc_tol = getattr(model, 'loc_tol', None)
    for (desc, f, E, scale), v in zip(funcs, vals):
        v = numpy.asarray(v)
        res.count('A/eval_comparisons')
        verdict, det = tol.compare(v, E, scale=scale, check_kind=True) if loc_tol is None else tol.compare(v, E, scale=scale, rtol_pass=loc_tol, check_kind=True)
        if verdict == tol.VIOLATION:
            probs.append(('eval order/value', f'eval({desc}) differs from the model table: {det}'))
        elif verdict == tol.MARGINAL:
            res.count('A/marginal')
    # model-free cross-check: values at positions getindex(i) are the values of the one-element sample take_elements([i])
    if model.nelems and rng.random() < .5:
        i = int(rng.integers(0, model.nelems))
        try:
            with warnings.catch_warnings():
                warnings.simplefilter('ignore')
                sub = real.take_elements(numpy.array([i]))
                subvals = sub.eval(fs[:3])
            gi = numpy.asarray(real.getindex(i))
            res.count('A/element_crosschecks')
            for (desc, f, E, scale), v, sv in zip(funcs, vals, subvals):
                verdict, det = tol.compare(numpy.asarray(sv), numpy.asarray(v)[gi], scale=scale)
                if verdict == tol.VIOLATION:
                    probs.append(('eval[getindex(i)] == eval on take_elements([i])', f'element {i}, {desc}: {det}'))
        except Exception as e:
            if not is_refusal(e):
                raise
            res.count('A/element_crosscheck_rejected')
    if model.W is None:
        res.count('A/no_weights_integration_skipped')
        return probs, True
    try:
        with warnings.catch_warnings():
            warnings.simplefilter('ignore')
            ints = real.integrate(fs)
    except Exception as e:
        if is_refusal(e):
            res.count('A/rejected_at_integrate')
            return probs, True
        raise
    res.count('A/integrations')
    Wr = None
    try:
        Wr = real_weights(real, res)
    except Exception as e:
        if not is_refusal(e):
            raise
    if Wr is not None:
        res.count('A/real_weight_tables')
        verdict, det = tol.compare(Wr, model.W, scale=float(numpy.abs(model.W).max()) if model.N else 1.)
        if verdict == tol.VIOLATION:
            probs.append(('weights', f'weights of the sample differ from the model: {det}'))
    else:
        res.count('A/real_weights_unavailable')
    for (desc, f, E, scale), v, I in zip(funcs, vals, ints):
        I = numpy.asarray(I)
        v = numpy.asarray(v)
        Ef = E.astype(float)
        ref = numpy.einsum('n,n...->...', model.W, Ef)
        s = max(1., float(numpy.einsum('n,n...->...', numpy.abs(model.W), numpy.abs(Ef)).max()) if model.N else 1.)
        res.count('A/integral_comparisons')
        kw = {} if loc_tol is None else dict(rtol_pass=loc_tol)
        verdict, det = tol.compare(I, ref, scale=s, check_kind=False, **kw)
        if verdict == tol.VIOLATION:
            probs.append(('integrate == sum w f (model weights)', f'integrate({desc}): {det}; observed {I.tolist()} expected {ref.tolist()}'))
        elif verdict == tol.MARGINAL:
            res.count('A/marginal')
        ref2 = numpy.einsum('n,n...->...', model.W, v.astype(float))
        verdict, det = tol.compare(I, ref2, scale=s, check_kind=False)
        if verdict == tol.VIOLATION:
            probs.append(('integrate == sum w eval(f)', f'integrate({desc}) vs model weights times sample.eval: {det}'))
        if Wr is not None:
            ref3 = numpy.einsum('n,n...->...', Wr, v.astype(float))
            verdict, det = tol.compare(I, ref3, scale=s, check_kind=False)
            res.count('A/integral_vs_own_weights')
            if verdict == tol.VIOLATION:
                probs.append(('integrate == sum w eval(f) (sample weights)', f'integrate({desc}) vs the sample\'s own weights times sample.eval: {det}'))
    return probs, True


# =============================================================================== topology-level exactness (part B2)

def physical_exact(base, a, per_elem=None):
    """Exact integral of the monomial x^a over the whole base mesh (numpy / Duffy only)."""
    if base.recipe['kind'] == 'rect':
        v = 1.
        for n, k in zip(base.nodes, a):
            v *= (n[-1]**(k + 1) - n[0]**(k + 1)) / (k + 1)
        return v
    return X.integrate_region(base.coords[base.cnodes], a)


def check_topology_exactness(recipe, ops_list, degree, res, tol):
    """Gauss samples of topologies covering the same domain integrate physical monomials exactly."""
    from nutils import function
    probs = []
    base = Base(recipe, 'A')
    nd = base.ndims
    monos = X.monomials_total(nd, degree)
    x = base.geom
    Jx = function.J(x)
    exact = numpy.array([physical_exact(base, a) for a in monos])
    scale = max(1., float(numpy.abs(exact).max()))
    for ops in ops_list:
        trim = [o for o in ops if o[0] == 'trim']
        try:
            topos = [derive(base, ops)]
            if trim:
                neg = [[o[0], dict(o[1], c=[-c for c in o[1]['c']], q=-o[1].get('q', 0.)), o[2]] if o[0] == 'trim' else o for o in ops]
                try:
                    topos.append(derive(base, neg))
                except Skip:
                    pass
        except Skip:
            if not trim:
                continue
            topos = []
            neg = [[o[0], dict(o[1], c=[-c for c in o[1]['c']], q=-o[1].get('q', 0.)), o[2]] if o[0] == 'trim' else o for o in ops]
            topos.append(derive(base, neg))
        except Exception as e:
            if is_refusal(e):
                res.count('B/rejected')
                continue
            raise
        total = numpy.zeros(len(monos))
        for T in topos:
            with warnings.catch_warnings():
                warnings.simplefilter('ignore')
                smp = T.sample('gauss', degree)
                # polynomial moments from the sample's own points, weights and Jacobian (numpy); the integrate path is
                # exercised with the measure itself
                xv, Jv = smp.eval([x, Jx])
                W = real_weights(smp, res)
                total = total + X.moments(xv, W * Jv, monos)
                vol = float(smp.integrate(Jx))
                if abs(vol - float(W @ Jv)) > 1e-9 * max(1., abs(vol)):
                    probs.append(('integrate == sum w eval(f) (sample weights)', f'{recipe["kind"]} ops={[o[0] for o in ops]} gauss{degree}: integrate(J)={vol!r} but sum w J={float(W @ Jv)!r}'))
        res.count('B/topology_integrals')
        res.count('B/topology_triples', len(monos))
        res.add('B/topology_kinds', recipe['kind'] + ':' + '/'.join(o[0] for o in ops))
        err = float(numpy.abs(total - exact).max()) / scale
        if err > 1e-9:
            k = int(numpy.abs(total - exact).argmax())
            probs.append(('physical exactness', f'{recipe["kind"]} ops={[o[0] for o in ops]} gauss{degree}: monomial {monos[k]} integrates to {total[k]!r}, exact {exact[k]!r}'))
        elif err > 1e-11:
            res.count('B/marginal')
    return probs
