"""C17 helper: classes used as corpus material.  ``c17_mod_b`` defines classes with
the SAME names (different module; some with different fields) so that the corpus
contains same-named types from different modules."""

import collections, dataclasses, enum
from nutils import types


class Plain:
    pass


class Other:
    pass


class MetaM(type):
    pass


class WithMeta(metaclass=MetaM):
    pass


@dataclasses.dataclass(frozen=True)
class DC:
    x: object
    y: object


@dataclasses.dataclass(frozen=True)
class DC1:
    x: object


@dataclasses.dataclass(frozen=True)
class DCalt:       # same fields as DC, other name
    x: object
    y: object


P = collections.namedtuple('P', ['a', 'b'])
Q = collections.namedtuple('Q', ['a', 'b'])


class MyInt(int):
    pass


class MyStr(str):
    pass


class MyTuple(tuple):
    pass


class Color(enum.IntEnum):
    RED = 1
    GREEN = 2


class Imm2(types.Immutable):
    def __init__(self, x, y):
        self.x, self.y = x, y

    def meth(self):
        return 'meth'

    def other(self):
        return 'other'


class Imm2b(types.Immutable):
    def __init__(self, x, y):
        self.x, self.y = x, y


class ImmD(types.Immutable):
    def __init__(self, x, y=3):
        self.x, self.y = x, y


class ImmKw(types.Immutable):
    def __init__(self, x, y, **kwargs):
        self.x, self.y, self.kwargs = x, y, kwargs


class ImmKwo(types.Immutable):
    def __init__(self, x, y, *, z):
        self.x, self.y, self.z = x, y, z


def _init_xy(self, x, y):
    self.x, self.y = x, y


# the same module-qualified name at two versions ("the class was changed and its version bumped")
ImmV0 = types.ImmutableMeta('ImmV', (types.Immutable,), {'__init__': _init_xy, '__module__': __name__, '__qualname__': 'ImmV'}, version=0)
ImmV = types.ImmutableMeta('ImmV', (types.Immutable,), {'__init__': _init_xy, '__module__': __name__, '__qualname__': 'ImmV'}, version=1)


class Sing2(types.Singleton):
    def __init__(self, x, y):
        self.x, self.y = x, y

    def meth(self):
        return 'meth'


class Sing2b(types.Singleton):
    def __init__(self, x, y):
        self.x, self.y = x, y


class SingD(types.Singleton):
    def __init__(self, x, y=3):
        self.x, self.y = x, y


class SingKw(types.Singleton):
    def __init__(self, x, **kwargs):
        self.x, self.kwargs = x, kwargs


class Data2(types.DataClass):
    x: object
    y: object

    def meth(self):
        return 'meth'


class Data2alt(types.DataClass):
    x: object
    y: object


class Data3(Data2):
    z: object = 3


class Data1(types.DataClass):
    x: object


def f_plus(a, b):
    return a + b


def f_times(a, b):
    return a * b


@types.hashable_function
def src_plus(a, b):
    return a + b


@types.hashable_function
def src_times(a, b):
    return a * b
