"""Independent small multivariate-polynomial class for the C08 oracle (numpy only).

A :class:`Poly` is a sparse map ``exponent tuple -> float coefficient`` in a
fixed number of variables.  It gives exact (up to float rounding) values,
derivatives, products, compositions and integrals over axis-aligned boxes and
over simplices.  Nothing in here imports nutils.
"""

import math, itertools
import numpy


class Poly:

    __slots__ = 'n', 'terms'

    def __init__(self, n, terms=None):
        self.n = int(n)
        t = {}
        if terms:
            items = terms.items() if isinstance(terms, dict) else terms
            for e, c in items:
                e = tuple(int(k) for k in e)
                assert len(e) == self.n and min(e, default=0) >= 0
                c = float(c)
                if c != 0.:
                    v = t.get(e, 0.) + c
                    if v == 0.:
                        t.pop(e, None)
                    else:
                        t[e] = v
        self.terms = t

    # -- constructors

    @classmethod
    def const(cls, n, c):
        return cls(n, {(0,) * n: c})

    @classmethod
    def var(cls, n, i):
        return cls(n, {tuple(1 if j == i else 0 for j in range(n)): 1.})

    # -- JSON

    def tojson(self):
        return [[list(e), c] for e, c in sorted(self.terms.items())]

    @classmethod
    def fromjson(cls, n, j):
        return cls(n, [(tuple(e), c) for e, c in j])

    # -- algebra

    def __add__(self, other):
        if not isinstance(other, Poly):
            other = Poly.const(self.n, other)
        assert other.n == self.n
        t = dict(self.terms)
        for e, c in other.terms.items():
            v = t.get(e, 0.) + c
            if v == 0.:
                t.pop(e, None)
            else:
                t[e] = v
        r = Poly(self.n)
        r.terms = t
        return r

    __radd__ = __add__

    def __neg__(self):
        return self * -1.

    def __sub__(self, other):
        return self + (-other if isinstance(other, Poly) else -float(other))

    def __rsub__(self, other):
        return (-self) + other

    def __mul__(self, other):
        r = Poly(self.n)
        if not isinstance(other, Poly):
            c = float(other)
            if c != 0.:
                r.terms = {e: v * c for e, v in self.terms.items()}
            return r
        assert other.n == self.n
        t = {}
        for e1, c1 in self.terms.items():
            for e2, c2 in other.terms.items():
                e = tuple(a + b for a, b in zip(e1, e2))
                t[e] = t.get(e, 0.) + c1 * c2
        r.terms = {e: c for e, c in t.items() if c != 0.}
        return r

    __rmul__ = __mul__

    def __pow__(self, k):
        assert isinstance(k, int) and k >= 0
        r = Poly.const(self.n, 1.)
        for _ in range(k):
            r = r * self
        return r

    def degree(self):
        'total degree (-1 for the zero polynomial)'
        return max((sum(e) for e in self.terms), default=-1)

    def degree_per_var(self):
        return [max((e[i] for e in self.terms), default=-1) for i in range(self.n)]

    def iszero(self):
        return not self.terms

    def diff(self, i):
        t = {}
        for e, c in self.terms.items():
            if e[i]:
                f = e[:i] + (e[i] - 1,) + e[i + 1:]
                t[f] = t.get(f, 0.) + c * e[i]
        r = Poly(self.n)
        r.terms = t
        return r

    def compose(self, subs):
        'substitute variable i by the polynomial subs[i] (all in the same number of variables)'
        assert len(subs) == self.n
        m = subs[0].n if subs else 0
        cache = [{0: Poly.const(m, 1.)} for _ in subs]

        def pw(i, k):
            c = cache[i]
            if k not in c:
                c[k] = pw(i, k - 1) * subs[i]
            return c[k]
        r = Poly(m)
        for e, c in self.terms.items():
            term = Poly.const(m, c)
            for i, k in enumerate(e):
                if k:
                    term = term * pw(i, k)
            r = r + term
        return r

    # -- values

    def __call__(self, X):
        'X: (..., n) -> (...)'
        X = numpy.asarray(X, dtype=float)
        assert X.shape[-1] == self.n
        out = numpy.zeros(X.shape[:-1])
        for e, c in self.terms.items():
            m = numpy.full(X.shape[:-1], c)
            for i, k in enumerate(e):
                if k:
                    m = m * X[..., i]**k
            out = out + m
        return out

    def absval(self, X):
        'sum of absolute values of the monomials at X: the magnitude entering cancellations'
        X = numpy.abs(numpy.asarray(X, dtype=float))
        out = numpy.zeros(X.shape[:-1])
        for e, c in self.terms.items():
            m = numpy.full(X.shape[:-1], abs(c))
            for i, k in enumerate(e):
                if k:
                    m = m * X[..., i]**k
            out = out + m
        return out

    # -- integrals

    def integrate_box(self, lo, hi):
        'exact integral over the box prod_i [lo_i, hi_i] (signed if hi<lo)'
        assert len(lo) == len(hi) == self.n
        tot = 0.
        for e, c in self.terms.items():
            v = c
            for i, k in enumerate(e):
                v *= (hi[i]**(k + 1) - lo[i]**(k + 1)) / (k + 1)
            tot += v
        return tot

    def integrate_refsimplex(self):
        'exact integral over the unit simplex {xi>=0, sum xi<=1}: int xi^a = a!/(|a|+n)!'
        tot = 0.
        for e, c in self.terms.items():
            num = 1.
            for k in e:
                num *= math.factorial(k)
            tot += c * num / math.factorial(sum(e) + self.n)
        return tot

    def integrate_simplex(self, verts):
        'exact integral over the simplex with the given (n+1) x n vertices (unsigned volume)'
        verts = numpy.asarray(verts, dtype=float)
        n = self.n
        assert verts.shape == (n + 1, n)
        L = (verts[1:] - verts[0]).T  # x = v0 + L xi
        subs = []
        for i in range(n):
            p = Poly.const(n, verts[0, i])
            for j in range(n):
                p = p + Poly.var(n, j) * L[i, j]
            subs.append(p)
        return self.compose(subs).integrate_refsimplex() * abs(numpy.linalg.det(L))


# ---- arrays of polynomials (numpy object arrays)

def parray(n, shape, fn):
    a = numpy.empty(shape, dtype=object)
    for idx in numpy.ndindex(*shape):
        a[idx] = fn(idx)
    return a


def peval(P, X):
    'P: object array of Poly with shape S; X: (npoints, n) -> (npoints, *S)'
    P = numpy.asarray(P, dtype=object)
    X = numpy.asarray(X, dtype=float)
    out = numpy.empty(X.shape[:-1] + P.shape)
    for idx in numpy.ndindex(*P.shape):
        out[(Ellipsis,) + idx] = P[idx](X)
    return out


def pabs(P, X):
    P = numpy.asarray(P, dtype=object)
    X = numpy.asarray(X, dtype=float)
    out = numpy.empty(X.shape[:-1] + P.shape)
    for idx in numpy.ndindex(*P.shape):
        out[(Ellipsis,) + idx] = P[idx].absval(X)
    return out


def pgrad(P, n=None):
    'derivative: shape S -> S + (n,)  (value axes first, derivative axis last)'
    P = numpy.asarray(P, dtype=object)
    if n is None:
        n = P.flat[0].n
    out = numpy.empty(P.shape + (n,), dtype=object)
    for idx in numpy.ndindex(*P.shape):
        for i in range(n):
            out[idx + (i,)] = P[idx].diff(i)
    return out


def pcompose(P, subs):
    P = numpy.asarray(P, dtype=object)
    out = numpy.empty(P.shape, dtype=object)
    for idx in numpy.ndindex(*P.shape):
        out[idx] = P[idx].compose(subs)
    return out


def pdet(M):
    'determinant of a square object matrix of Poly (Laplace expansion, n<=4)'
    M = numpy.asarray(M, dtype=object)
    n = M.shape[0]
    assert M.shape == (n, n)
    if n == 0:
        raise ValueError
    if n == 1:
        return M[0, 0]
    tot = None
    for j in range(n):
        minor = numpy.delete(numpy.delete(M, 0, axis=0), j, axis=1)
        term = M[0, j] * pdet(minor) * (-1.)**j
        tot = term if tot is None else tot + term
    return tot


def pcofactor(M):
    'cofactor matrix C with C_ij = (-1)^(i+j) det(minor_ij), so that M^-T = C / det M'
    M = numpy.asarray(M, dtype=object)
    n = M.shape[0]
    C = numpy.empty((n, n), dtype=object)
    for i in range(n):
        for j in range(n):
            if n == 1:
                C[i, j] = Poly.const(M[0, 0].n, 1.)
            else:
                minor = numpy.delete(numpy.delete(M, i, axis=0), j, axis=1)
                C[i, j] = pdet(minor) * (-1.)**(i + j)
    return C


def pmaxdegree(P):
    P = numpy.asarray(P, dtype=object)
    return max((p.degree() for p in P.flat), default=-1)


def ptojson(P):
    P = numpy.asarray(P, dtype=object)
    return dict(shape=list(P.shape), n=int(P.flat[0].n) if P.size else 0, comps=[p.tojson() for p in P.flat])


def pfromjson(j):
    out = numpy.empty(len(j['comps']), dtype=object)
    for i, c in enumerate(j['comps']):
        out[i] = Poly.fromjson(j['n'], c)
    return out.reshape(j['shape'])


def selftest():
    'cheap internal consistency test of the oracle itself; returns list of problems'
    probs = []
    rng = numpy.random.default_rng(1)
    for n in (1, 2, 3):
        p = Poly(n, {tuple(rng.integers(0, 4, n)): rng.normal() for _ in range(5)})
        q = Poly(n, {tuple(rng.integers(0, 3, n)): rng.normal() for _ in range(4)})
        X = rng.uniform(-1, 1, (7, n))
        if abs((p * q)(X) - p(X) * q(X)).max() > 1e-12:
            probs.append(f'product n={n}')
        if abs((p + q)(X) - p(X) - q(X)).max() > 1e-12:
            probs.append(f'sum n={n}')
        h = 1e-6
        for i in range(n):
            E = numpy.zeros(n)
            E[i] = h
            fd = (p(X + E) - p(X - E)) / (2 * h)
            if abs(fd - p.diff(i)(X)).max() > 1e-6:
                probs.append(f'diff n={n} i={i}')
        subs = [Poly(n, {tuple(rng.integers(0, 3, n)): rng.normal() for _ in range(3)}) for _ in range(n)]
        Y = numpy.stack([s(X) for s in subs], -1)
        if abs(p.compose(subs)(X) - p(Y)).max() > 1e-9 * (1 + abs(p(Y)).max()):
            probs.append(f'compose n={n}')
        # box integral against tensor Gauss-Legendre
        lo, hi = rng.uniform(-1, 0, n), rng.uniform(.5, 2, n)
        gx, gw = numpy.polynomial.legendre.leggauss(6)
        pts = numpy.stack(numpy.meshgrid(*[(gx + 1) / 2 * (hi[i] - lo[i]) + lo[i] for i in range(n)], indexing='ij'), -1).reshape(-1, n)
        wts = numpy.ones(1)
        for i in range(n):
            wts = numpy.multiply.outer(wts, gw / 2 * (hi[i] - lo[i]))
        num = (p(pts) * wts.reshape(-1)).sum()
        if abs(num - p.integrate_box(lo, hi)) > 1e-10 * (1 + abs(num)):
            probs.append(f'integrate_box n={n}')
        # simplex integral against Duffy-collapsed Gauss
        verts = rng.normal(size=(n + 1, n))
        L = (verts[1:] - verts[0]).T
        g01x, g01w = (gx + 1) / 2, gw / 2
        grid = numpy.stack(numpy.meshgrid(*[g01x] * n, indexing='ij'), -1).reshape(-1, n)
        wfull = numpy.ones(1)
        for i in range(n):
            wfull = numpy.multiply.outer(wfull, g01w)
        wfull = wfull.reshape(-1).copy()
        xi = numpy.empty_like(grid)
        rem = numpy.ones(len(grid))
        for i in range(n):
            xi[:, i] = grid[:, i] * rem          # xi_i = u_i prod_{j<i} (1-u_j)
            wfull *= rem                         # d xi_i / d u_i
            rem = rem * (1 - grid[:, i])
        num = (p(verts[0] + xi @ L.T) * wfull).sum() * abs(numpy.linalg.det(L))
        if abs(num - p.integrate_simplex(verts)) > 1e-9 * (1 + abs(num)):
            probs.append(f'integrate_simplex n={n}: {num} vs {p.integrate_simplex(verts)}')
    M = parray(2, (3, 3), lambda idx: Poly(2, {(idx[0] % 2, idx[1] % 2): float(idx[0] + 2 * idx[1] + 1), (1, 0): .3}))
    X = rng.uniform(-1, 1, (4, 2))
    Mv = peval(M, X)
    if abs(pdet(M)(X) - numpy.linalg.det(Mv)).max() > 1e-10:
        probs.append('pdet')
    C = peval(pcofactor(M), X)
    if abs(C - numpy.linalg.det(Mv)[:, None, None] * numpy.linalg.inv(Mv).transpose(0, 2, 1)).max() > 1e-9:
        probs.append('pcofactor')
    return probs
