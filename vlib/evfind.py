"""Known-finding reproducers and mechanism classifiers for the G-ev based checks (C01-C06)."""
import numpy, warnings


def _ev():
    from nutils import evaluable as ev
    return ev


TERMINATION_MODES = ('step-budget', 'line-budget', 'exception')
K1 = 'C01-diagonalize-inflate-rewrite-cycle'


def classify_c01(case, mode, detail, fired=None):
    """Mechanism signature by CALL SITE: a termination failure in which the two swap rules that feed each other
    (Diagonalize._take re-creating an Inflate with the taken index, Inflate._takediag/_take re-creating a Take with the
    dofmap) both fired repeatedly is the known rewrite cycle.  Anything else is unclassified (-> VIOLATION)."""
    if fired is None:
        from vlib import evmon
        fired = evmon.CASE_FIRED
    if mode in TERMINATION_MODES:
        if mode == 'exception' and not ('caught in a loop' in detail or 'RecursionError' in detail):
            return None
        if fired.get('Diagonalize._take', 0) >= 2 and (fired.get('Inflate._takediag', 0) >= 2 or fired.get('Inflate._take', 0) >= 2):
            return K1
    return None


def _terminates(make, steps=5000, lines=2 * 10**6):
    """returns (ok, how)"""
    from vlib import evmon
    evmon.install_step_counter()
    old = evmon.BUDGET['steps']
    evmon.BUDGET['steps'] = steps
    try:
        status, r, n = evmon.line_clock(lambda: make().simplified, lines, wall_s=120)
    finally:
        evmon.BUDGET['steps'] = old
    if status == 'done':
        return True, f'terminates after {n} lines'
    if status == 'budget':
        return False, f'still rewriting after {n} executed lines'
    if status == 'wall':
        return None, 'wall watchdog'
    return False, f'{type(r).__name__}: {str(r)[:80]}'


def repro_k1():
    ev = _ev()
    c = ev.constant
    a2 = ev.Argument('a', (c(2),), float)
    a3 = ev.Argument('a', (c(3),), float)
    A = ev.Argument('A', (c(3), c(3)), float)
    b = ev.Argument('b', (c(2), c(2)), float)
    cases = {
        'Inflate(Diagonalize(a),[1,0],2)**2': lambda: ev.power(ev.Inflate(ev.Diagonalize(a2), c([1, 0]), c(2)), c(2.)),
        'abs(concatenate([diagonalize(a**2), b], 1))': lambda: ev.abs(ev.concatenate([ev.diagonalize(ev.power(a2, c(2.))), b], 1)),
        'TakeDiag(Inflate(A,[0,0,2],3)*Diagonalize(d))': lambda: ev.TakeDiag(ev.Inflate(A, c([0, 0, 2]), c(3)) * ev.Diagonalize(a3)),
    }
    bad, inconclusive = [], []
    for name, mk in cases.items():
        ok, how = _terminates(mk)
        if ok is False:
            bad.append(f'{name}: {how}')
        elif ok is None:
            inconclusive.append(name)
    if bad:
        return True, '; '.join(bad)
    if inconclusive:
        return None, 'wall watchdog on ' + ', '.join(inconclusive)
    return False, 'all three expressions simplify in finite steps'


def repro_takediag_inflated_diagonal():
    ev = _ev()
    c = ev.constant
    a2 = ev.Argument('a', (c(2),), float)
    a3 = ev.Argument('a', (c(3),), float)
    idx = ev.Argument('i', (c(2),), int)
    cases = {
        'takediag(take(diagonalize(a), idx, 1))': lambda: ev.takediag(ev.take(ev.diagonalize(a2), idx, 1)),
        'sum(takediag(inflate(diagonalize(a),[0,0,2],3)))': lambda: ev.sum(ev.takediag(ev._inflate(ev.diagonalize(a3), c([0, 0, 2]), c(3), 1), 1, 0), 0),
    }
    bad = []
    for name, mk in cases.items():
        ok, how = _terminates(mk)
        if ok is False:
            bad.append(f'{name}: {how}')
        elif ok is None:
            return None, 'wall watchdog'
    # value check for the first
    f = cases['takediag(take(diagonalize(a), idx, 1))']()
    av, iv = numpy.array([2., 3.]), numpy.array([1, 1])
    if not bad:
        r = ev.eval_once(f, arguments=dict(a=av, i=iv))
        ref = numpy.diagonal(numpy.diag(av)[:, iv])
        if not numpy.allclose(r, ref):
            bad.append(f'wrong value {r} != {ref}')
    return bool(bad), '; '.join(bad) or 'both simplify in finite steps with the right value'


def repro_loopsum_capture():
    ev = _ev()
    i = ev.loop_index('i', 3)
    a = ev.Argument('a', (ev.constant(3),), float)
    av = numpy.array([1., 2., 3.])
    v = ev.loop_sum(ev._inflate(ev.Take(a, i), i, ev.constant(3), 0), i)
    r = ev.eval_once(v * v, _optimize=False, arguments=dict(a=av))
    ok = numpy.allclose(r, av * av)
    return (not ok), f'(sum_i Inflate(a[i], i, 3))**2 at a=[1,2,3] -> {r.tolist()} (expected [1,4,9])'


def repro_loopconcat_capture():
    ev = _ev()
    c = ev.constant
    i = ev.loop_index('i', 2)
    X = ev._inflate(c(numpy.array([-.5, 0.])), i + 1, c(4), 0)   # (4,2): row i+1 holds the vector
    f = ev.Sum(ev.loop_concatenate(X, i)) * ev.Sum(ev.loop_sum(X, i))
    r = ev.eval_once(f, _optimize=False)
    ok = numpy.allclose(r, [0., .25, .25, 0.])
    return (not ok), f'sum(loop_concatenate(X_i)) * sum(loop_sum(X_i)), X_i = Inflate(v, i+1, 4) -> {r.tolist()} (expected [0, .25, .25, 0])'


def repro_bool_empty_insertaxis():
    ev = _ev()
    b = ev.Argument('b', (ev.constant(3),), bool)
    bv = numpy.array([True, False, True])
    infl = ev._inflate(b, ev.constant(0), ev.constant(2), 0)
    k = ev.Argument('k', (), int)
    g = ev.get(infl, 0, ev.InRange(k, ev.constant(2)))
    r = ev.eval_once(g, _optimize=False, arguments=dict(b=bv, k=numpy.array(1)))
    return bool(r.any()), f'Take(Inflate(b, 0, 2), 1) -> {r.tolist()} (expected all False)'


def repro_choose_takediag():
    ev = _ev()
    rng = numpy.random.default_rng(0)
    shape = (3, 3, 3)
    a, b, i = rng.normal(size=shape), rng.normal(size=shape), rng.integers(0, 2, size=shape)
    A = ev.Argument('a', tuple(map(ev.constant, shape)), float)
    B = ev.Argument('b', tuple(map(ev.constant, shape)), float)
    I = ev.Argument('i', tuple(map(ev.constant, shape)), int)
    bad = []
    for ax in [(0, 1), (0, 2), (1, 2)]:
        f = ev.takediag(ev.Choose(I, ev.stack([A, B], -1)), *ax)
        ref = numpy.moveaxis(numpy.diagonal(numpy.choose(i, [a, b]), axis1=ax[0], axis2=ax[1]), -1, ax[0])
        try:
            r = ev.eval_once(f, arguments=dict(a=a, b=b, i=i))
            if not numpy.allclose(r, ref):
                bad.append(f'axes {ax}: wrong values')
        except Exception as e:
            bad.append(f'axes {ax}: {type(e).__name__}')
    return bool(bad), 'takediag(Choose(i,[a,b])) on (3,3,3): ' + ('; '.join(bad) or 'correct for all axis pairs')


def repro_power_abs():
    ev = _ev()
    x = ev.Argument('x', (ev.constant(3),), float)
    xv = numpy.array([-1.5, .5, 2.])
    four = ev.IntToFloat(ev.constant(4))
    bad = []
    for name, f, ref in [('sqrt(sqrt(x**4))', ev.sqrt(ev.sqrt(ev.power(x, four))), abs(xv)),
                         ('(x**4.)**.25', ev.power(ev.power(x, ev.constant(4.)), ev.constant(.25)), abs(xv)),
                         ('(x**-2.)**.5', ev.power(ev.power(x, ev.constant(-2.)), ev.constant(.5)), 1 / abs(xv))]:
        r = ev.eval_once(f, arguments=dict(x=xv))
        if not numpy.allclose(r, ref):
            bad.append(f'{name} -> {r.tolist()} expected {ref.tolist()}')
    return bool(bad), '; '.join(bad) or 'nested powers keep the absolute value'


def repro_cast_bool_inflate():
    ev = _ev()
    b = ev.Argument('b', (ev.constant(3),), bool)
    f = ev.astype(ev._inflate(b, ev.constant([0, 0, 1]), ev.constant(2), 0), float)
    r = ev.eval_once(f, _optimize=False, arguments=dict(b=numpy.array([True, True, False])))
    return (not numpy.allclose(r, [1., 0.])), f'astype(Inflate([T,T,F],[0,0,1],2), float) -> {r.tolist()} (expected [1,0])'


C01_REPRODUCERS = {'C01-cast-bool-inflate-overlap': repro_cast_bool_inflate, 'C01-choose-takediag-axis': repro_choose_takediag, 'C01-power-power-abs': repro_power_abs, K1: repro_k1,
                   'C01-takediag-inflated-diagonal': repro_takediag_inflated_diagonal, 'C01-loopsum-take-capture': repro_loopsum_capture, 'C01-loopconcatenate-take-capture': repro_loopconcat_capture,
                   'C01-bool-any-all-empty-insertaxis': repro_bool_empty_insertaxis}


# ---------------------------------------------------------------------------
# C02

def classify_c02(case, config, exc, detail):
    return None


def repro_assemble_scalar_index():
    ev = _ev()
    rng = numpy.random.default_rng(0)
    bad = []
    for shape in [(2, 2, 2), (2, 3, 2), (3, 3, 3)]:
        a, b = rng.normal(size=shape), rng.normal(size=shape)
        A = ev.Argument('a', tuple(map(ev.constant, shape)), float)
        B = ev.Argument('b', tuple(map(ev.constant, shape)), float)
        perm = numpy.arange(shape[1])[::-1].copy()
        f = ev.stack([ev._inflate(A, ev.constant(perm), ev.constant(shape[1]), 1), B], len(shape))
        ref = numpy.stack([a[:, ::-1][:, numpy.argsort(perm)][:, perm] if False else _scatter(a, perm), b], len(shape))
        try:
            r = ev.eval_once(f, arguments=dict(a=a, b=b))
            if not numpy.allclose(r, ref):
                bad.append(f'{shape}: wrong values in optimised mode')
        except Exception as e:
            bad.append(f'{shape}: {type(e).__name__}: {str(e)[:60]}')
    return bool(bad), 'stack([scatter(a, perm, axis=1), b], -1): ' + ('; '.join(bad) or 'correct')


def _scatter(a, perm):
    out = numpy.zeros_like(a)
    out[:, perm] = a
    return out


def repro_assemble_merge():
    ev = _ev()
    c = ev.constant
    d = ev.Argument('d', (c(2),), int)
    C = c(numpy.array([[1, 2], [3, 4]]))
    x = ev._inflate(C, ev.InRange(d, c(4)), c(4), 0)
    f = ev._inflate(ev._inflate(x, c(1), c(4), 0), c(2), c(3), 2)
    av = dict(d=numpy.array([1, 3]))
    r0 = ev.eval_once(f, _simplify=False, _optimize=False, arguments=av)
    try:
        r = ev.eval_once(f, arguments=av)
    except Exception as e:
        return True, f'inflate(inflate(Inflate(C, d, 4), 1, 4, 0), 2, 3, 2): {type(e).__name__}: {str(e)[:80]}'
    return (not numpy.array_equal(r, r0)), 'optimised result ' + ('equals' if numpy.array_equal(r, r0) else 'differs from') + ' the raw evaluation'


C02_REPRODUCERS = {'C02-assemble-scalar-advanced-index': repro_assemble_scalar_index, 'C02-assemble-merge-axis-count': repro_assemble_merge}


# ---------------------------------------------------------------------------
# C06

def classify_c06(e, problem):
    return None


def repro_inflate_intbounds():
    ev = _ev()
    a = ev.Argument('a', (ev.constant(3),), int)
    f = ev.Inflate(ev.InRange(a, ev.constant(5)), ev.constant([0, 0, 1]), ev.constant(2))
    lo, hi = f._intbounds
    v = ev.eval_once(f, _simplify=False, _optimize=False, arguments=dict(a=numpy.array([4, 4, 1])))
    return bool(v.max() > hi or v.min() < lo), f'Inflate(x in [0,4], [0,0,1], 2): announced range [{lo},{hi}], evaluates to {v.tolist()}'


def repro_einsum_intbounds():
    ev = _ev()
    n = ev.InRange(ev.Argument('n', (), int), ev.constant(4))
    a = ev.Range(n) + ev.constant(2)
    e = ev.Einsum((a, a), ((0,), (0,)), ())
    lo, hi = e._intbounds
    vals = [int(ev.eval_once(e, arguments=dict(n=numpy.array(k)))) for k in range(4)]
    bad = [v for v in vals if not lo <= v <= hi]
    return bool(bad), f'Einsum(a,a) with a = Range(n)+2, n in [0,3]: announced range [{lo},{hi}], values {vals}'


C06_REPRODUCERS = {'C06-einsum-intbounds-variable-length': repro_einsum_intbounds, 'C06-inflate-intbounds-duplicates': repro_inflate_intbounds}
