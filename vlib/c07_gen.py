"""C07 helper: random generation of programs (G-fn), the rejection monitor, hostile corners and replay."""

import json, copy
import numpy
from vlib import tolerance, c07_env
from vlib.c07_core import Case, Status, enc, dec, kind_of, structure_hash, prune, NPTYPE
from vlib.c07_ops import OPS, NumpyRefuses

MAXSIZE = 48
HOSTILE = ('oob_slice', 'multi_array', 'transpose_negative', 'abs_bool', 'interp_int_fp_float_lr')


class Gen:

    def __init__(self, case, rng, maxdepth=4):
        self.case, self.rng, self.maxdepth = case, rng, maxdepth
        self.freshonly = False
        self.force_fn = False      # targeted cases: negative function-valued index into a sparse (scattered) operand
        self.pending = []
        self.argcount = 0

    # ----- bookkeeping that is committed only when the operation was built

    def note_dtypes(self, opname, nodes):
        self.pending.append(('count', f'dtypes/{opname}/' + ''.join(n.kind for n in nodes)))
        self.pending.append(('count', 'dtype_pairs/' + ''.join(n.kind for n in nodes[:2])) if len(nodes) >= 2 else ('count', 'dtype_single/' + nodes[0].kind))

    def note_bcast(self, a, b):
        nd = max(len(a.shape), len(b.shape))
        sa = (None,) * (nd - len(a.shape)) + tuple(a.shape)
        sb = (None,) * (nd - len(b.shape)) + tuple(b.shape)
        pat = ''
        for x, y in zip(sa, sb):
            pat += '<' if x is None else '>' if y is None else '1' if x == y == 1 else 'L' if x == 1 else 'R' if y == 1 else '='
        self.pending.append(('add', 'bcast_patterns', f'{len(a.shape)}{len(b.shape)}:{pat}'))
        self.pending.append(('count', 'broadcast_pairs'))

    def note_index(self, tag):
        self.pending.append(('count', 'index_form/' + tag))

    def commit(self):
        for what, *a in self.pending:
            if what == 'count':
                self.case.res.count(a[0])
            else:
                self.case.res.add(*a)
        self.pending = []

    # ----- shapes

    def rand_shape(self, ndim=(0, 3)):
        rng = self.rng
        lo, hi = ndim
        p = numpy.array([.15, .35, .3, .2])[lo:hi + 1]
        nd = int(rng.choice(range(lo, hi + 1), p=p / p.sum()))
        while True:
            sh = tuple(int(n) for n in rng.choice([1, 2, 3, 4], size=nd, p=[.2, .3, .3, .2]))
            if numpy.prod(sh, dtype=int) <= MAXSIZE:
                return sh

    def compatible_shape(self, shape, maxndim=3):
        """a random shape that broadcasts with `shape` (singletons, dropped leading axes, extra leading axes)"""
        rng = self.rng
        shape = tuple(shape)
        nd = int(rng.integers(0, maxndim + 1)) if rng.random() < .6 else len(shape)
        nd = min(nd, maxndim)
        out = []
        for k in range(1, nd + 1):
            if k <= len(shape):
                n = shape[-k]
                if n == 1:
                    out.append(int(rng.choice([1, 1, 2, 3])))
                else:
                    out.append(n if rng.random() < .7 else 1)
            else:
                out.append(int(rng.choice([1, 2, 3])))
        out = tuple(reversed(out))
        try:
            full = numpy.broadcast_shapes(shape, out)
        except ValueError:
            return shape
        if numpy.prod(full, dtype=int) > 2 * MAXSIZE:
            return shape
        return out

    def square_shape(self):
        rng = self.rng
        n = int(rng.integers(1, 4))
        r = rng.random()
        if r < .5:
            return (n, n)
        m = int(rng.integers(1, 4))
        return [(m, n, n), (n, m, n), (n, n, m)][int(rng.integers(3))]

    def shape_with_singleton(self):
        sh = list(self.rand_shape((1, 3)))
        sh[int(self.rng.integers(len(sh)))] = 1
        return tuple(sh)

    # ----- values

    def values(self, kind, shape, dist='std'):
        rng = self.rng
        shape = tuple(shape)
        r3 = lambda a: numpy.round(a, 3)
        if dist in ('diagdom', 'eigdiag', 'eigsym'):
            n = shape[-1]
            batch = shape[:-2]
            if kind == 'i':
                off = rng.integers(-1, 2, size=shape)
            else:
                amp = {'diagdom': 1., 'eigdiag': .3, 'eigsym': .2}[dist]
                off = r3(rng.uniform(-amp, amp, size=shape))
                if kind == 'c':
                    off = off + 1j * r3(rng.uniform(-amp, amp, size=shape))
            v = numpy.array(off, dtype=NPTYPE[kind])
            eye = numpy.eye(n, dtype=bool)
            for idx in numpy.ndindex(*batch):
                if dist == 'diagdom':
                    d = rng.choice([-1, 1], size=n) * (rng.integers(4, 6, size=n) if kind == 'i' else r3(rng.uniform(n + 1, n + 2.5, size=n)))
                else:
                    lad = numpy.array([-4, -2, 0, 2, 4][:max(n, 1)]) if kind == 'i' else numpy.array([-3., -1.5, 0., 1.5, 3.][:max(n, 1)])
                    lad = lad[:n] if len(lad) >= n else numpy.arange(n) * 2
                    d = rng.permutation(lad) * (1 if dist == 'eigdiag' else .5)
                    if kind == 'i' and dist == 'eigsym':
                        d = rng.permutation(numpy.array([-2, -1, 0, 1, 2][:n]))
                m = v[idx]
                m[eye] = d
            return v
        if kind == 'b':
            if dist in ('pos', 'nonzero'):
                return numpy.ones(shape, dtype=bool)
            if dist == 'unit':
                return numpy.zeros(shape, dtype=bool)
            return rng.integers(0, 2, size=shape).astype(bool)
        if kind == 'i':
            if dist == 'pos':
                return rng.integers(1, 5, size=shape)
            if dist == 'nonzero':
                return rng.choice([-3, -2, -1, 1, 2, 3], size=shape).astype(numpy.int64)
            if dist == 'unit':
                return numpy.zeros(shape, dtype=numpy.int64)
            if dist == 'nonneg_int':
                return rng.integers(0, 4, size=shape)
            return rng.integers(-3, 4, size=shape)
        if kind == 'f':
            if dist == 'pos':
                return r3(rng.uniform(.2, 2., size=shape))
            if dist == 'nonzero':
                return r3(rng.uniform(.2, 2., size=shape)) * rng.choice([-1., 1.], size=shape)
            if dist == 'unit':
                return r3(rng.uniform(-.85, .85, size=shape))
            return r3(rng.uniform(-2, 2, size=shape))
        if kind == 'c':
            if dist == 'pos':
                return r3(rng.uniform(.2, 2., size=shape)) + 1j * r3(rng.uniform(-1, 1, size=shape))
            if dist == 'nonzero':
                return (r3(rng.uniform(.2, 2., size=shape)) * rng.choice([-1., 1.], size=shape)) + 1j * r3(rng.uniform(-1, 1, size=shape))
            if dist == 'unit':
                return r3(rng.uniform(-.6, .6, size=shape)) + 1j * r3(rng.uniform(-.6, .6, size=shape))
            return r3(rng.uniform(-1.5, 1.5, size=shape)) + 1j * r3(rng.uniform(-1.5, 1.5, size=shape))
        raise ValueError(kind)

    # ----- nodes

    def fresh(self, kind, shape, dist='std', values=None, leafkinds=None):
        rng = self.rng
        v = numpy.asarray(values if values is not None else self.values(kind, shape, dist), dtype=NPTYPE[kind])
        leafkinds = leafkinds or (('arg', 'arg', 'const', 'raw') if self.case.env.sample is None else ('arg', 'const', 'const', 'raw'))
        lk = str(rng.choice(leafkinds))
        spec = dict(leaf=lk if lk != 'pyscalar' else 'raw', value=enc(v))
        if lk == 'arg':
            self.argcount += 1
            spec['name'] = f'a{self.case.nextid}'
        elif lk == 'raw':
            spec['style'] = str(rng.choice(['ndarray', 'list'])) if v.ndim else str(rng.choice(['ndarray', 'pyscalar']))
        elif lk == 'pyscalar':
            spec['style'] = 'pyscalar' if v.ndim == 0 else 'ndarray'
        self.case.res.count('leaf/' + spec['leaf'])
        return self.case.add_leaf(spec)

    def pool(self, kinds, ndim=(0, 3), pred=None, need_array=False):
        out = []
        for n in self.case.nodes.values():
            if n.terminal or n.vals is None or n.depth >= self.maxdepth:
                continue
            if n.kind not in kinds or not (ndim[0] <= len(n.shape) <= ndim[1]):
                continue
            if numpy.prod(n.shape, dtype=int) > MAXSIZE or 0 in n.shape:
                continue
            if need_array and n.f is None:
                continue
            if pred and not pred(n):
                continue
            out.append(n)
        return out

    def _choose(self, cands):
        w = numpy.array([(1. + n.depth) ** 2 + (2. if n.leaf == 'topo' else 0.) for n in cands])
        return cands[int(self.rng.choice(len(cands), p=w / w.sum()))]

    def operand(self, kinds, ndim=(0, 3), dist='std', pred=None, need_array=False, fresh_shape=None, p_fresh=.18, prefer=None):
        rng = self.rng
        if not self.freshonly and rng.random() > p_fresh:
            cands = self.pool(kinds, ndim, pred, need_array)
            if prefer:
                pref = [n for n in cands if prefer(n)]
                if pref and (rng.random() < .7 or self.force_fn):
                    cands = pref
            if cands:
                return self._choose(cands)
        kind = str(rng.choice(list(kinds)))
        shape = fresh_shape() if fresh_shape else self.rand_shape(ndim)
        lk = ('arg', 'const') if need_array else None
        return self.fresh(kind, shape, dist, leafkinds=lk)

    def second(self, first, kinds, dist='std', p_fresh=.4):
        rng = self.rng
        if not self.freshonly and rng.random() > p_fresh:
            def ok(n):
                try:
                    full = numpy.broadcast_shapes(first.shape, n.shape)
                except ValueError:
                    return False
                return len(full) <= 3 and numpy.prod(full, dtype=int) <= 2 * MAXSIZE and n is not first
            cands = self.pool(kinds, (0, 3), ok)
            if cands:
                return self._choose(cands)
        return self.fresh(str(rng.choice(list(kinds))), self.compatible_shape(first.shape), dist)

    def shaped(self, kinds, shape, dist='std', p_fresh=.5):
        rng = self.rng
        shape = tuple(shape)
        if not self.freshonly and rng.random() > p_fresh:
            cands = self.pool(kinds, (len(shape), len(shape)), lambda n: tuple(n.shape) == shape)
            if cands:
                return self._choose(cands)
        return self.fresh(str(rng.choice(list(kinds))), shape, dist)

    def try_op(self, opname, form, ids, params):
        try:
            node = self.case.add_op(opname, form, ids, params)
        except (Status, NumpyRefuses):
            return None
        self.case.res.count('op_built/' + opname)
        self.case.res.count(f'form/{opname}/{form}')
        return node

    def square_operand(self, kinds, dist):
        """a square matrix operand: a fresh well-conditioned matrix, optionally perturbed by a pool node (so that the
        matrix depends on the topology / other operations)"""
        rng = self.rng
        kind = str(rng.choice(list(kinds)))
        n = int(rng.choice([1, 2, 3, 3]))
        batch = () if rng.random() < .6 else (int(rng.integers(1, 3)),)
        m = self.fresh(kind, batch + (n, n), dist)
        if self.freshonly or rng.random() < .35:
            return m
        def ok(t):
            try:
                return numpy.broadcast_shapes(m.shape, t.shape) == tuple(m.shape)
            except ValueError:
                return False
        cands = self.pool('ifc' if kind != 'i' else 'i', (0, 3), ok)
        if not cands:
            return m
        t = self._choose(cands)
        if t.kind != 'i' and dist != 'diagdom':
            c = self.fresh('f', (), values=numpy.array(.1), leafkinds=('raw',))
            t2 = self.try_op('multiply', 'ufunc', [t.id, c.id], {})
            if t2 is None:
                return m
            t = t2
        s = self.try_op('add', 'ufunc', [m.id, t.id], {})
        return s if s is not None else m

    def index_node(self, n, shape=None, nonneg=False, pointdep_ok=False):
        """an int node with provable bounds inside [-n, n-1] that does not depend on the point coordinates"""
        rng = self.rng
        case = self.case
        ok = lambda x: (pointdep_ok or x.pointindep) and (shape is None or tuple(x.shape) == tuple(shape)) and len(x.shape) <= 2
        # already bounded nodes (element indices, earlier mod results, integer constants)
        cands = [x for x in self.pool('i', (0, 2), ok) if x.bounds and (0 if nonneg else -n) <= x.bounds[0] and x.bounds[1] <= n - 1 and x.f is not None]
        if cands and rng.random() < .4 and not self.force_fn:
            return self._choose(cands)
        src = self.pool('i', (0, 2), ok)
        if src and rng.random() < .7 and not self.freshonly:
            s = self._choose(src)
        else:
            s = self.fresh('i', shape if shape is not None else [(), (2,), (3,), (2, 2)][int(rng.integers(4))], values=None, dist='std', leafkinds=('arg',))
            if rng.random() < .5:
                # spread the values so that the modulo is non-trivial
                pass
        c = self.fresh('i', (), values=numpy.array(n), leafkinds=('raw', 'const'))
        m = self.try_op('mod', str(rng.choice(['ufunc', 'operator'])), [s.id, c.id], {})
        if m is None or m.bounds is None:
            return None
        if not nonneg and (rng.random() < .5 or self.force_fn):
            c2 = self.fresh('i', (), values=numpy.array(n), leafkinds=('raw', 'const'))
            m2 = self.try_op('subtract', str(rng.choice(['ufunc', 'operator'])), [m.id, c2.id], {})
            if m2 is not None and m2.bounds is not None:
                return m2
        return m


# ----------------------------------------------------------------------------------------------------------------------

OPNAMES = sorted(OPS)


def op_weights():
    w = numpy.array([OPS[n].weight for n in OPNAMES], dtype=float)
    return w / w.sum()


def is_sparse(n):
    """operands that nutils represents by scattered blocks (bases, stacks, concatenations): indexing them takes other code paths"""
    if n.leaf == 'topo':
        return 'basis' in n.spec['name'] or 'ivec' in n.spec['name']
    return n.opname in ('stack', 'concatenate', 'choose')


def seed_pool(g, env, rng):
    """put a few topology leaves (and nothing else) in the pool"""
    names = sorted(env.leaves)
    if not names:
        return
    k = int(rng.integers(1, 4))
    for name in rng.choice(names, size=min(k, len(names)), replace=False):
        g.case.add_leaf(dict(leaf='topo', name=str(name)))
        g.case.res.count('leaf/topo')


def grow(g, opname, hostile=None):
    """try to add one operation node; returns the node or None"""
    op = OPS[opname]
    case = g.case
    for attempt in range(4):
        g.freshonly = attempt >= 2
        g.pending = []
        try:
            spec = op.gen(g, hostile) if hostile else op.gen(g)
        except (Status, NumpyRefuses):
            spec = None
        if spec is None:
            case.res.count('gen_declined')
            continue
        form, ids, params = spec
        form = str(form)
        try:
            node = case.add_op(opname, form, ids, params)
        except NumpyRefuses:
            case.res.count('numpy_refuses')
            case.res.count('numpy_refuses_by_op/' + opname)
            continue
        except Status as s:
            case.res.count('status/' + s.what)
            if s.what == 'violation':
                return 'violation'
            if s.what.startswith('refused'):
                return None
            continue
        g.commit()
        case.res.count('op_built/' + opname)
        case.res.count(f'form/{opname}/{form}')
        return node
    return None


def generate(envname, rng, res, target=None, nops=None, hostile=None, force_fn=False):
    """Generate (and build) one valid-mode case.  Returns the Case."""
    case = Case(envname, res)
    g = Gen(case, rng)
    seed_pool(g, case.env, rng)
    if force_fn:
        have = {n.spec.get('name') for n in case.nodes.values()}
        for name in sorted(case.env.leaves):
            if ('basis' in name or 'ivec' in name) and name not in have and rng.random() < .7:
                case.add_leaf(dict(leaf='topo', name=name))
    if nops is None:
        nops = int(rng.choice([1, 2, 3, 4], p=[.2, .3, .3, .2]))
    w = op_weights()
    for k in range(nops):
        last = k == nops - 1
        if last and hostile:
            name = {'oob_slice': 'getitem', 'multi_array': 'getitem', 'transpose_negative': 'transpose', 'abs_bool': 'absolute',
                    'interp_int_fp_float_lr': 'interp'}[hostile]
            if hostile == 'abs_bool':
                node = grow_abs_bool(g)
            else:
                node = grow(g, name, hostile={'oob_slice': 'oob_slice', 'multi_array': 'multi_array', 'transpose_negative': True,
                                              'interp_int_fp_float_lr': True}[hostile])
        else:
            name = target if (last and target) else str(rng.choice(OPNAMES, p=w))
            g.force_fn = bool(force_fn and last)
            if force_fn and not last:
                name = str(rng.choice(['stack', 'concatenate', 'multiply', 'choose']))
            node = grow(g, name)
        if node == 'violation':
            break
    prune(case.prog)
    return case


def grow_abs_bool(g):
    x = g.operand('b', need_array=True)
    try:
        node = g.case.add_op('absolute', str(g.rng.choice(['ufunc', 'operator'])), [x.id], dict(hostile='abs_bool'))
    except NumpyRefuses:
        return None
    except Status as s:
        return 'violation' if s.what == 'violation' else None
    g.case.res.count('op_built/absolute')
    return node


# ----------------------------------------------------------------------------------------------------------------------
# integer-range-sensitive compositions: nutils infers integer bounds for every int expression and uses them to simplify
# minimum / maximum / mod / index normalisation; a too narrow inferred range gives silently wrong values.  The operands are
# integer constants (and element indices) of one sign class, combined through scattering operations (stack, concatenate,
# choose: their zero-filled positions matter) and arithmetic, then consumed by a range-sensitive operation whose other
# operand sits at the edge of the true range.

SIGN_CLASSES = ('neg', 'pos', 'mixed', 'nonneg', 'nonpos')
INT_COMBINERS = ('stack', 'concatenate', 'choose', 'add', 'subtract', 'multiply', 'negative', 'none', 'stack+take', 'concatenate+sum', 'broadcast_to', 'absolute')
INT_CONSUMERS = ('minimum', 'maximum', 'clip', 'mod', 'floor_divide', 'greater', 'less', 'equal', 'take_index', 'getitem_index', 'sign', 'power_exponent',
                 'choose_selector', 'where_like')


def _int_values(rng, cls, shape):
    lo, hi = {'neg': (-6, -1), 'pos': (1, 6), 'mixed': (-4, 4), 'nonneg': (0, 4), 'nonpos': (-4, 0)}[cls]
    return rng.integers(lo, hi + 1, size=shape)


def _provably_nonneg(case, n):
    """nutils demands an integer exponent whose range is non-negative by interval inference at construction: true whenever the
    exponent is built from non-negative leaves by operations that preserve non-negativity (or is an absolute value); an exponent
    that is non-negative only by cancellation (e.g. [-1,-3] - [-2,-4]) is refused by design and not generated"""
    if n.opname is None:
        return n.vals is not None and (n.vals.size == 0 or n.vals.min() >= 0)
    args = [case.nodes[a] for a in n.spec['args'] if a in case.nodes]
    if n.opname == 'absolute':
        return True
    if n.opname in ('add', 'multiply', 'stack', 'concatenate', 'broadcast_to', 'positive', 'sum'):
        return all(_provably_nonneg(case, a) for a in args)
    if n.opname in ('take', 'getitem'):
        return bool(args) and _provably_nonneg(case, args[0])
    return False


def generate_intrange(envname, rng, res, combiner=None, consumer=None):
    case = Case(envname, res)
    g = Gen(case, rng)
    res_count = res.count
    cls = str(rng.choice(SIGN_CLASSES, p=[.35, .2, .2, .125, .125]))
    combiner = combiner or str(rng.choice(INT_COMBINERS))
    consumer = consumer or str(rng.choice(INT_CONSUMERS))
    if combiner == 'choose' and consumer in ('take_index', 'getitem_index', 'power_exponent', 'choose_selector'):
        combiner = 'stack'      # nutils infers no range for a choose result: not usable where a provable range is demanded
    shape = [(), (2,), (3,), (2, 2), (1, 3)][int(rng.integers(5))]
    if combiner.startswith('concatenate') and shape == ():
        shape = (2,)

    def part(shape, cls):
        # an integer constant of the sign class, or (with a topology) an element-index expression of that class
        r = rng.random()
        topo = [n for n in sorted(case.env.leaves) if n.endswith('.findex') or n.endswith('.ivec')]
        if topo and r < .3:
            name = str(rng.choice(topo))
            t = case.add_leaf(dict(leaf='topo', name=name))
            if cls in ('neg', 'nonpos', 'mixed'):
                k = g.fresh('i', (), values=numpy.array(int(rng.integers(2, 7)) if cls != 'mixed' else 1), leafkinds=('raw', 'const'))
                t2 = g.try_op('subtract', 'operator', [t.id, k.id], {})
                if t2 is not None:
                    t = t2
            elif cls == 'pos':
                k = g.fresh('i', (), values=numpy.array(1), leafkinds=('raw', 'const'))
                t = g.try_op('add', 'operator', [t.id, k.id], {}) or t
            if tuple(t.shape) != tuple(shape):
                try:
                    numpy.broadcast_shapes(t.shape, shape)
                    if len(shape) >= len(t.shape) and numpy.broadcast_shapes(t.shape, shape) == tuple(shape):
                        t = g.try_op('broadcast_to', 'func', [t.id], dict(shape=list(shape))) or t
                except ValueError:
                    pass
            if tuple(t.shape) == tuple(shape):
                return t
        return g.fresh('i', shape, values=_int_values(rng, cls, shape), leafkinds=('const', 'const', 'raw'))

    def cls2():
        return cls if rng.random() < .75 else str(rng.choice(SIGN_CLASSES))

    a = part(shape, cls)
    x = a
    if combiner in ('stack', 'stack+take'):
        parts = [a] + [part(shape, cls2()) for _ in range(int(rng.integers(1, 3)))]
        x = g.try_op('stack', 'func', [p.id for p in parts], dict(axis=int(rng.integers(-len(shape) - 1, len(shape) + 1))))
        if x is not None and combiner == 'stack+take':
            nd = len(x.shape)
            ax = int(rng.integers(nd))
            x = g.try_op('take', 'func', [x.id], dict(axis=ax, const=dict(k='i', s=[], d=[int(rng.integers(-x.shape[ax], x.shape[ax]))]), style='int')) or x
    elif combiner in ('concatenate', 'concatenate+sum'):
        parts = [a]
        for _ in range(int(rng.integers(1, 3))):
            sh = (int(rng.integers(1, 4)),) + tuple(shape[1:])
            parts.append(part(sh, cls2()))
        order = rng.permutation(len(parts))
        x = g.try_op('concatenate', 'func', [parts[i].id for i in order], dict(axis=0))
        if x is not None and combiner == 'concatenate+sum' and len(x.shape) >= 1:
            x = g.try_op('sum', 'func', [x.id], dict(axis=int(rng.integers(len(x.shape))))) or x
    elif combiner == 'choose':
        k = int(rng.integers(2, 4))
        sel = g.index_node(k, shape=None, nonneg=True, pointdep_ok=True)
        if sel is not None:
            parts = [a] + [part(shape, cls2()) for _ in range(k - 1)]
            try:
                numpy.broadcast_shapes(sel.shape, shape)
                x = g.try_op('choose', 'func', [sel.id] + [p.id for p in parts], {})
            except ValueError:
                x = a
    elif combiner in ('add', 'subtract', 'multiply'):
        b = part(g.compatible_shape(shape) if rng.random() < .5 else shape, cls2())
        x = g.try_op(combiner, str(rng.choice(['ufunc', 'operator'])), [a.id, b.id], {})
    elif combiner in ('negative', 'absolute'):
        x = g.try_op(combiner, 'ufunc', [a.id], {})
    elif combiner == 'broadcast_to':
        x = g.try_op('broadcast_to', 'func', [a.id], dict(shape=[int(rng.integers(1, 4))] + list(shape)))
    if x is None:
        x = a
    if x.f is None:      # a raw constant: make it a function array
        x = g.try_op('positive', 'ufunc', [x.id], {}) or x
        if x.f is None:
            prune(case.prog)
            return case
    vals = x.vals
    lo, hi = int(vals.min()), int(vals.max())
    edge = lambda: int(rng.choice([lo - 1, lo, lo + 1, hi - 1, hi, hi + 1, 0, (lo + hi) // 2]))

    def const(v, shape=()):
        v = numpy.asarray(v)
        return g.fresh('i', v.shape, values=v, leafkinds=('raw', 'const', 'pyscalar') if v.ndim == 0 else ('raw', 'const'))

    def thresholds():
        if rng.random() < .6:
            return const(edge())
        sh = g.compatible_shape(x.shape)
        return const(numpy.array([edge() for _ in range(int(numpy.prod(sh, dtype=int)))]).reshape(sh))

    form = lambda: str(rng.choice(['ufunc', 'operator']))
    swap = lambda ids: ids[::-1] if rng.random() < .5 else ids
    node = None
    if consumer in ('minimum', 'maximum'):
        node = g.try_op(consumer, 'ufunc', swap([x.id, thresholds().id]), {})
    elif consumer == 'clip':
        a_, b_ = sorted([edge(), edge()])
        m = g.try_op('maximum', 'ufunc', swap([x.id, const(a_).id]), {})
        node = g.try_op('minimum', 'ufunc', swap([m.id, const(b_).id]), {}) if m is not None else None
    elif consumer in ('mod', 'floor_divide'):
        d = int(rng.choice([hi + 1, hi, hi + 2, 2, 3, max(1, -lo), max(1, -lo) + 1, -2, -3]))
        if d == 0:
            d = 2
        if rng.random() < .25:
            node = g.try_op(consumer, form(), [const(edge() or 1).id, x.id], {})      # the range-carrying array as divisor (zero entries: out of domain)
        if node is None:
            node = g.try_op(consumer, form(), [x.id, const(d).id], {})
    elif consumer in ('greater', 'less', 'equal'):
        node = g.try_op(consumer, form(), swap([x.id, thresholds().id]), {})
    elif consumer == 'sign':
        node = g.try_op('sign', 'ufunc', [x.id], {})
    elif consumer == 'power_exponent' and lo >= 0 and hi <= 4 and x.pointindep and _provably_nonneg(case, x):
        base = const(_int_values(rng, 'mixed', g.compatible_shape(x.shape)))
        node = g.try_op('power', form(), [base.id, x.id], {})
    elif consumer in ('take_index', 'getitem_index') and x.pointindep and len(x.shape) <= 2:
        # long enough for any range that nutils may infer by summing the ranges of scattered terms
        # (scattered terms are summed, and a scatter through a non-constant index multiplies the range by the number of entries)
        S = sum(int(numpy.abs(n.vals).max()) for n in case.nodes.values() if n.kind == 'i' and n.vals is not None and n.vals.size) + 2
        n = min(2 * S * 9 + 2, 700)
        arr = g.fresh('i', (n,), values=rng.integers(-3, 4, size=n), leafkinds=('const', 'arg'))
        if consumer == 'take_index':
            node = g.try_op('take', 'func', [arr.id, x.id], dict(axis=0, fnindex=True))
        else:
            node = g.try_op('getitem', 'getitem', [arr.id, x.id], dict(items=[{'r': 1}], bare=True))
    elif consumer == 'choose_selector' and lo >= 0 and hi <= 3:
        choices = [g.fresh(str(rng.choice(['i', 'f'])), g.compatible_shape(x.shape)) for _ in range(hi + 1)]
        try:
            numpy.broadcast_shapes(x.shape, *(c.shape for c in choices))
            node = g.try_op('choose', 'func', [x.id] + [c.id for c in choices], {})
        except ValueError:
            node = None
    elif consumer == 'where_like':
        # numpy.choose(x > t, [a, x]): a where built from a comparison of the range-carrying array
        cnd = g.try_op('greater', form(), [x.id, thresholds().id], {})
        if cnd is not None and rng.random() < .5:
            cnd = g.try_op('multiply', 'ufunc', [cnd.id, const(1).id], {})     # selector as int; otherwise the boolean selector itself (numpy.choose(f > t, [a, b]))
        if cnd is not None:
            other = const(edge())
            try:
                node = g.try_op('choose', 'func', [cnd.id, other.id, x.id] if rng.random() < .5 else [cnd.id, x.id, other.id], {})
            except Exception:
                node = None
    if node is None:
        # fall back to the consumers that always apply
        node = g.try_op(str(rng.choice(['minimum', 'maximum'])), 'ufunc', swap([x.id, thresholds().id]), {})
    # one more range-sensitive step on top (the inferred range of the first result feeds the second simplification)
    if node is not None and node.kind == 'i' and rng.random() < .5:
        v = node.vals
        lo, hi = int(v.min()), int(v.max())
        op2 = str(rng.choice(['minimum', 'maximum', 'mod']))
        if op2 == 'mod':
            g.try_op('mod', form(), [node.id, const(int(rng.choice([hi + 1, max(hi, 1), 2, 3]))).id], {})
        else:
            g.try_op(op2, 'ufunc', swap([node.id, const(edge()).id]), {})
    res_count(f'intrange/combiner/{combiner}')
    res_count(f'intrange/consumer/{consumer}')
    res_count(f'intrange/class/{cls}')
    prune(case.prog)
    return case


# ----------------------------------------------------------------------------------------------------------------------
# sibling family: BINOP(OP(x; p), OP(y; q)) with (x, p) != (y, q).  Rewrite rules that merge two results of the same operation
# (Choose._multiply, Take / Inflate / Transpose pairs under Add or Multiply, ...) must look at the parameters of BOTH nodes.

SIBLING_BINOPS = ('multiply', 'add', 'subtract', 'multiply', 'maximum', 'add', 'equal', 'multiply', 'minimum')     # products and sums twice/thrice: the rewrite rules are _multiply / _add
SIBLING_VARIANTS = ('diff_param', 'diff_operand', 'both')
SIBLING_OPS = sorted(n for n in OPS if not OPS[n].static and not OPS[n].terminal)
SIBLING_KEY_OPS = ('choose', 'take', 'getitem', 'stack', 'concatenate', 'minimum', 'maximum', 'mod', 'power', 'einsum', 'transpose', 'swapaxes', 'sum',
                   'prod', 'interp', 'searchsorted', 'multiply', 'add')


def _index_positions(spec):
    """positions in args of operands that are used as selector / index"""
    op, params = spec['op'], spec['params']
    if op == 'choose':
        return [0]
    if op == 'take' and params.get('fnindex'):
        return [1]
    if op == 'getitem':
        return [it['r'] for it in params['items'] if isinstance(it, dict) and 'r' in it]
    return []


def _like(g, a):
    """a fresh leaf with the shape, kind and value range of node a (so that the domain of the operation is kept)"""
    rng = g.rng
    v = numpy.asarray(a.vals)
    shape = tuple(a.shape)
    r3 = lambda x: numpy.round(x, 3)
    if a.kind == 'b':
        new = numpy.ones(shape, dtype=bool) if v.all() else numpy.zeros(shape, dtype=bool) if not v.any() else rng.integers(0, 2, size=shape).astype(bool)
    elif a.kind == 'i':
        new = rng.integers(int(v.min()), int(v.max()) + 1, size=shape) if v.size else numpy.zeros(shape, dtype=int)
    elif a.kind == 'f':
        lo, hi = (float(v.min()), float(v.max())) if v.size else (0., 1.)
        if hi - lo < .2:
            lo, hi = lo - .1 * (lo > .3 or lo < 0), hi + .1
        new = r3(rng.uniform(lo, hi, size=shape))
        if len(shape) >= 2 and shape[-1] == shape[-2] and v.size:
            # keep the diagonal of square matrices (conditioning / eigenvalue separation)
            base = v[0] if a.uniform else v[int(rng.integers(len(v)))]
            eye = numpy.eye(shape[-1], dtype=bool)
            new[..., eye] = r3(base[..., eye] + rng.uniform(-.2, .2, size=base[..., eye].shape))
    else:
        re, im = v.real, v.imag
        new = r3(rng.uniform(re.min(), re.max() + .1, size=shape)) + 1j * r3(rng.uniform(im.min(), im.max() + .1, size=shape))
    if a.leaf and v.ndim == 2 and a.uniform and len(shape) == 1 and v.size > 1 and (numpy.diff(v[0]) > 0).all():
        new = numpy.sort(new)       # sorted 1-D operand (searchsorted) stays sorted
        if (numpy.diff(new) <= 0).any():
            new = v[0] + (1 if a.kind == 'i' else .137)
    # constants stay constants (nutils needs a provable integer range for exponents / selectors: an Argument has none)
    if a.f is None:
        kinds = ('raw',)
    elif a.leaf == 'const' or (a.kind in 'bi' and a.bounds is not None):
        kinds = ('const',)
    else:
        kinds = ('const', 'arg')
    return g.fresh(a.kind, shape, values=new, leafkinds=kinds)


def _sibling_index(g, a, opname):
    """another selector / index with the shape and admissible range of node a: constant or function valued"""
    rng = g.rng
    if a.bounds is None:
        return None
    lo, hi = a.bounds
    v = numpy.asarray(a.vals)
    if v.size:
        lo, hi = min(lo, int(v.min())), max(hi, int(v.max()))
    if rng.random() < .3 or (lo < 0 <= hi):
        for _ in range(3):
            new = rng.integers(lo, hi + 1, size=tuple(a.shape))
            if not (a.uniform and (new == v[0]).all()) or hi == lo:
                break
        g.case.res.count('sibling_index/constant')
        return g.fresh('i', tuple(a.shape), values=new, leafkinds=('const',))
    n = hi + 1 if lo >= 0 else -lo
    g.case.res.count('sibling_index/function-valued')
    keep, g.force_fn = g.force_fn, lo < 0
    try:
        return g.index_node(n, shape=tuple(a.shape), nonneg=lo >= 0, pointdep_ok=(opname == 'choose'))
    finally:
        g.force_fn = keep


def _sibling_operands(g, n1, spec=None, positions=None):
    """same operation, form and parameters; some operands replaced by different ones of the same shape and kind"""
    rng = g.rng
    case = g.case
    spec = spec or n1.spec
    ids = list(spec['args'])
    idxpos = _index_positions(spec)
    if positions is None:
        cand = list(range(len(ids)))
        if idxpos and rng.random() < .8:
            positions = [idxpos[int(rng.integers(len(idxpos)))]]
        else:
            k = int(rng.integers(1, len(cand) + 1))
            positions = sorted(int(i) for i in rng.choice(cand, size=k, replace=False))
    for k in positions:
        a = case.nodes[ids[k]]
        new = _sibling_index(g, a, spec['op']) if k in idxpos else _like(g, a)
        if new is None:
            return None
        ids[k] = new.id
    return g.try_op(spec['op'], spec['form'], ids, spec['params'])


def _mutate_params(g, n1):
    """same operation and operands, different parameters (result shape must stay broadcast compatible); returns a spec or None"""
    rng = g.rng
    case = g.case
    spec = n1.spec
    op, form, params = spec['op'], spec['form'], copy.deepcopy(spec['params'])
    args = [case.nodes[i] for i in spec['args']]
    ids = list(spec['args'])
    x = args[0] if args else None
    nd = len(x.shape) if x is not None and x.shape is not None else 0
    if op in ('stack', 'concatenate') and len(ids) >= 2 and len({tuple(a.shape) for a in args}) == 1 and len(set(ids)) > 1:
        perm = list(rng.permutation(len(ids)))
        if perm == list(range(len(ids))):
            perm = perm[::-1]
        ids = [ids[i] for i in perm]
    elif op in ('transpose',) and nd >= 2 and form in ('func', 'method'):
        for _ in range(8):
            axes = [int(a) for a in rng.permutation(nd)]
            if axes != [a % nd for a in params['axes']] and tuple(x.shape[a] for a in axes) == tuple(n1.shape):
                params['axes'] = axes
                break
        else:
            return None
    elif op == 'swapaxes' and nd >= 2:
        for _ in range(8):
            a, b = (int(rng.integers(-nd, nd)) for _ in range(2))
            sh = list(x.shape)
            sh[a], sh[b] = sh[b], sh[a]
            if tuple(sh) == tuple(n1.shape) and {a % nd, b % nd} != {params['a'] % nd, params['b'] % nd}:
                params['a'], params['b'] = a, b
                break
        else:
            return None
    elif op in ('sum', 'prod', 'all', 'any', 'linalg.norm') and nd >= 1 and form not in ('noaxis', 'default', 'ord'):
        old = params['axis']
        norm = lambda ax: tuple(sorted(a % nd for a in (ax if isinstance(ax, list) else [ax]))) if ax is not None else tuple(range(nd))
        for _ in range(10):
            if isinstance(old, list):
                ax = [int(a) for a in rng.choice(nd, size=len(old), replace=False)]
            elif old is None:
                return None
            else:
                ax = int(rng.integers(nd))
            if norm(ax) != norm(old) and tuple(n for i, n in enumerate(x.shape) if i not in norm(ax)) == tuple(n1.shape):
                params['axis'] = ax
                break
        else:
            return None
    elif op == 'take' and 'const' in params:
        n = int(numpy.prod(x.shape, dtype=int)) if params['axis'] is None else x.shape[params['axis']]
        old = numpy.array(params['const']['d']).reshape(params['const']['s'])
        for _ in range(5):
            new = rng.integers(-n, n, size=old.shape)
            if (new % n != old % n).any():
                params['const'] = dict(params['const'], d=new.ravel().tolist())
                break
        else:
            return None
    elif op == 'getitem':
        items = params['items']
        nexplicit = sum(1 for it in items if it != 'e' and it != 'n')
        ax, changed = 0, False
        for k, it in enumerate(items):
            if it == 'e':
                ax += nd - nexplicit
                continue
            if it == 'n':
                continue
            n = x.shape[ax] if ax < nd else 1
            if isinstance(it, dict) and 'i' in it and n > 1:
                it['i'] = int((it['i'] % n + int(rng.integers(1, n))) % n) - (n if rng.random() < .5 else 0)
                changed = True
            elif isinstance(it, dict) and 'a' in it and it['a']['k'] == 'i' and n > 1:
                old = numpy.array(it['a']['d'])
                new = (old % n + rng.integers(1, n, size=old.shape)) % n - (n if rng.random() < .5 else 0)
                it['a'] = dict(it['a'], d=[int(v) for v in new])
                changed = True
            elif isinstance(it, dict) and 's' in it and it['s'][2] in (None, 1) and not changed:
                lo, hi, _ = slice(*it['s']).indices(n)
                if hi - lo < n and hi > lo:
                    shift = int(rng.integers(1, n - (hi - lo) + 1))
                    lo2 = (lo + shift) % (n - (hi - lo) + 1)
                    if lo2 != lo:
                        it['s'] = [lo2, lo2 + hi - lo, it['s'][2]]
                        changed = True
            ax += 1
        if not changed:
            return None
    elif op == 'interp':
        r = rng.random()
        if form == 'lr' and r < .4:
            for k in ('left', 'right'):
                if params.get(k) is not None:
                    params[k] = type(params[k])(params[k] + int(rng.integers(1, 4)))
        elif not params.get('fpc'):
            isint = all(isinstance(v, int) for v in params['fp'])
            params['fp'] = [int(v + rng.integers(1, 3)) if isint else round(float(v + rng.uniform(.2, 1.)), 2) for v in params['fp']]
        else:
            return None
    elif op == 'searchsorted' and 'a' in params and form != 'sorter':
        if rng.random() < .4:
            params['side'] = 'right' if params['side'] == 'left' else 'left'
            params['defaultside'] = False
            if form == 'right':
                form = 'func'
        else:
            isint = all(isinstance(v, int) for v in params['a'])
            params['a'] = [v + 1 if isint else round(v + .37, 2) for v in params['a']]
    elif op in ('trace',):
        n = min(x.shape[params['axis1']], x.shape[params['axis2']])
        offs = [o for o in range(-n + 1, n) if o != params['offset']]
        if not offs or form == 'default':
            return None
        params['offset'] = int(rng.choice(offs))
    elif op == 'diagonal' and params.get('offset'):
        if form == 'default':
            return None
        params['offset'] = -params['offset']
    elif op == 'compress':
        cond = list(params['cond'])
        perm = [bool(cond[i]) for i in rng.permutation(len(cond))]
        if perm == cond:
            return None
        params['cond'] = perm
    elif op == 'divmod':
        params['out'] = 1 - params['out']
    elif op == 'einsum' and '->' in params['subscripts']:
        lhs, out = params['subscripts'].split('->')
        core = out.replace('...', '')
        if len(core) < 2:
            return None
        for _ in range(6):
            new = ''.join(rng.permutation(list(core)))
            if new != core:
                params['subscripts'] = lhs + '->' + ('...' if out.startswith('...') else '') + new
                break
        else:
            return None
    elif op == 'cross' and form == 'axes':
        return None
    elif op == 'repeat':
        return None
    elif op == 'broadcast_to' or op == 'reshape':
        return None
    else:
        return None
    return dict(op=op, form=form, args=ids, params=params)


def _broadcastable(a, b):
    try:
        full = numpy.broadcast_shapes(tuple(a), tuple(b))
    except ValueError:
        return False
    return len(full) <= 4 and numpy.prod(full, dtype=int) <= 4 * MAXSIZE


def generate_sibling(envname, rng, res, opname, binop, variant):
    """BINOP(OP(x; p), OP(y; q)) with (x, p) != (y, q); returns the Case"""
    case = Case(envname, res)
    g = Gen(case, rng)
    seed_pool(g, case.env, rng)
    if rng.random() < .3:
        grow(g, str(rng.choice(OPNAMES, p=op_weights())))     # something that is not a leaf in the pool
    n1 = None
    for _ in range(3):
        n1 = grow(g, opname)
        if n1 == 'violation':
            prune(case.prog)
            return case
        if n1 is not None and n1.vals is not None and 0 not in n1.shape and numpy.prod(n1.shape, dtype=int) <= MAXSIZE:
            break
        n1 = None
    if n1 is None:
        res.count('sibling_not_built/' + opname)
        prune(case.prog)
        return case
    n2, used = None, None
    order = [variant] + [v for v in SIBLING_VARIANTS if v != variant] + ['regrow']
    for v in order:
        g.freshonly = False
        if v == 'diff_param':
            spec = _mutate_params(g, n1)
            n2 = g.try_op(spec['op'], spec['form'], spec['args'], spec['params']) if spec else None
        elif v == 'diff_operand':
            n2 = _sibling_operands(g, n1)
        elif v == 'both':
            spec = _mutate_params(g, n1)
            n2 = _sibling_operands(g, n1, spec=spec) if spec else None
        else:
            for _ in range(4):
                n2 = grow(g, opname)
                if n2 == 'violation':
                    prune(case.prog)
                    return case
                if n2 is not None and n2.vals is not None and n2 is not n1 and _broadcastable(n1.shape, n2.shape):
                    break
                n2 = None
        if n2 is not None and n2.vals is not None and _broadcastable(n1.shape, n2.shape) and 0 not in n2.shape:
            used = v
            break
        n2 = None
    if case.violations:
        prune(case.prog)
        return case
    if n2 is None:
        res.count('sibling_not_built/' + opname)
        prune(case.prog)
        return case
    kinds = n1.kind + n2.kind
    allowed = [binop]
    if 'c' in kinds:
        allowed = [b for b in allowed if b in ('multiply', 'add', 'subtract', 'equal')]
    if kinds == 'bb':
        allowed = [b for b in allowed if b != 'subtract']
    allowed += ['add', 'multiply']
    ids = [n1.id, n2.id] if rng.random() < .7 else [n2.id, n1.id]
    node = None
    for b in allowed:
        node = g.try_op(b, str(rng.choice(OPS[b].forms)), ids, {})
        if node is not None:
            res.count('sibling_binop/' + b)
            break
    if node is None:
        res.count('sibling_not_built/' + opname)
    else:
        res.count('sibling/' + opname)
        res.count('sibling_variant/' + used)
        same_values = n1.vals.shape == n2.vals.shape and bool((numpy.asarray(n1.vals) == numpy.asarray(n2.vals)).all())
        res.count('sibling_values/' + ('equal' if same_values else 'different'))
    prune(case.prog)
    return case


# ----------------------------------------------------------------------------------------------------------------------
# replay: rebuild a case from its program

def execute(prog, res):
    """Re-run a recorded program (valid or reject mode).  Returns the Case (with .violations filled)."""
    if prog.get('mode') == 'reject':
        return execute_reject(prog, res)
    case = Case(prog['env'], res)
    for s in prog['nodes']:
        if 'leaf' in s:
            case.add_leaf(s)
        else:
            case.nextid = max(case.nextid, s['id'])
            try:
                case.add_op(s['op'], s['form'], s['args'], s['params'], record=True)
            except NumpyRefuses as e:
                res.note(f'replay: numpy refuses node {s["id"]}: {e}')
                break
            except Status as st:
                if st.what != 'violation':
                    res.note(f'replay: node {s["id"]} {st.what}: {st.detail}')
                break
    case.verify()
    return case


# ----------------------------------------------------------------------------------------------------------------------
# rejection monitor

SHAPE_SENSITIVE = [n for n in OPNAMES if OPS[n].shape_sensitive]


def generate_reject(envname, rng, res, target):
    """A valid depth-1 application of `target` to fresh leaves, then one axis length of one operand perturbed.
    Returns a program in reject mode, or None."""
    case = Case(envname, res.__class__())     # scratch result: the valid precursor is not counted
    g = Gen(case, rng)
    g.freshonly = True
    op = OPS[target]
    node = None
    for attempt in range(4):
        g.pending = []
        try:
            spec = op.gen(g)
        except (Status, NumpyRefuses):
            continue
        if spec is None:
            continue
        form, ids, params = spec
        try:
            node = case.add_op(target, str(form), ids, params)
        except (Status, NumpyRefuses):
            node = None
            continue
        break
    if node is None:
        return None
    prog = prune(copy.deepcopy(case.prog))
    opspec = [s for s in prog['nodes'] if s.get('id') == node.id][0]
    # only direct leaf operands of the final operation can be perturbed
    leaves = [s for s in prog['nodes'] if 'leaf' in s and s['leaf'] != 'topo' and s['id'] in opspec['args'] and any(n >= 2 for n in s['value']['s'])]
    leaves = [s for s in leaves if sum(1 for t in prog['nodes'] if 'op' in t and s['id'] in t['args']) == 1]
    if not leaves:
        return None
    s = leaves[int(rng.integers(len(leaves)))]
    shape = list(s['value']['s'])
    axes = [k for k, n in enumerate(shape) if n >= 2]
    ax = axes[int(rng.integers(len(axes)))]
    old = shape[ax]
    singleton = rng.random() < .15
    new = 1 if singleton else old + 1
    shape[ax] = new
    v = dec(s['value'])
    if new == 1:
        v2 = numpy.take(v, [0], axis=ax)
    else:
        v2 = numpy.concatenate([v, numpy.take(v, [0], axis=ax)], axis=ax)
    s['value'] = enc(v2)
    prog['mode'] = 'reject'
    prog['perturbed'] = dict(leaf=s['id'], operand=opspec['args'].index(s['id']), axis=ax, old=old, new=new, singleton=bool(singleton))
    prog['nodes'] = [t for t in prog['nodes'] if 'leaf' in t or t['id'] == node.id or t['id'] in _ancestors(prog, node.id)]
    return prog


def _ancestors(prog, nid):
    byid = {s['id']: s for s in prog['nodes']}
    out, todo = set(), [nid]
    while todo:
        s = byid[todo.pop()]
        for a in s.get('args', []):
            if a not in out:
                out.add(a)
                todo.append(a)
    return out


def execute_reject(prog, res):
    """numpy must reject the final operation for shape reasons; then nutils must reject it when the expression is built."""
    from nutils import function
    import warnings
    case = Case(prog['env'], res)
    case.prog['mode'] = 'reject'
    case.prog['perturbed'] = prog.get('perturbed')
    ops = [s for s in prog['nodes'] if 'op' in s]
    final = ops[-1]
    for s in prog['nodes']:
        if 'leaf' in s:
            case.add_leaf(s)
        elif s is not final:
            try:
                case.add_op(s['op'], s['form'], s['args'], s['params'])
            except (Status, NumpyRefuses):
                res.count('reject/precursor_failed')
                return case
    opname, form, params = final['op'], final['form'], final['params']
    op = OPS[opname]
    args = [case.nodes[i] for i in final['args']]
    case.prog['nodes'].append(final)
    # numpy on the perturbed shapes (one point is enough: shapes do not depend on the point)
    try:
        with warnings.catch_warnings():
            warnings.simplefilter('ignore')
            with numpy.errstate(all='ignore'):
                op.ref(form, params, [a.value_at(0) for a in args])
        res.count('reject/still_valid_for_numpy')
        return case
    except ValueError as e:      # includes LinAlgError, AxisError
        npmsg = f'{type(e).__name__}: {str(e)[:120]}'
    except Exception as e:
        res.count('reject/numpy_other_exception')
        return case
    res.count('reject/numpy_rejects')
    res.count('reject_by_op/' + opname)
    if (prog.get('perturbed') or {}).get('singleton'):
        res.count('reject/singleton_perturbations')
    fargs = [a.f if a.f is not None else a.raw for a in args]
    if not any(isinstance(x, function.Array) for x in fargs):
        fargs[0] = function.Array.cast(fargs[0])
    try:
        with warnings.catch_warnings():
            warnings.simplefilter('ignore')
            f = op.call(form, params, fargs, function.Array.cast)
    except Exception as e:
        res.count('reject/rejected_at_build')
        res.add('reject_exception_types', type(e).__name__)
        return case
    # built: violation.  For the report, see what evaluation does.
    try:
        with warnings.catch_warnings():
            warnings.simplefilter('ignore')
            fs = [x for x in (f if isinstance(f, (tuple, list)) else [f]) if isinstance(x, function.Array)]
            out = case.env.eval(fs, case.arguments)
        later = f'and evaluates (result shape {out[0].shape[1:] if out else None})'
    except Exception as e:
        later = f'and only fails at evaluation ({type(e).__name__}: {str(e)[:80]})'
    n = type('N', (), {})()
    n.id = final['id']
    case.violation('numpy-rejected shapes accepted at build',
                   f"numpy rejects {opname}/{form} for operand shapes {[list(a.shape) for a in args]} ({npmsg}); nutils builds the expression "
                   f"(shape {getattr(f, 'shape', None)}) {later}", n)
    return case
