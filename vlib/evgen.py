"""G-ev: typed random evaluable-DAG generator with a shadow NumPy interpreter.

A *case* is a JSON-serialisable recipe::

    {'nodes': [{'op': str, 'args': [int,...], 'p': {...}, 'shape': [...], 'kind': 'b|i|f|c', 'loops': [names]}, ...],
     'outputs': [int, ...]}

``build(case)`` turns it into real nutils evaluables (one per node),
``shadow(case, argvals)`` evaluates its *numpy meaning* with closures that never
call nutils.  Every op is described once in ``OPS`` by (gen, build, shadow).
Shadows raise ``OutOfDomain`` when an assignment leaves the domain on which the
property quantifies (finite values, denominators away from zero, ...).
"""

import itertools, math, json, hashlib
import numpy

KINDS = 'bifc'
NPDT = {'b': numpy.bool_, 'i': numpy.int64, 'f': numpy.float64, 'c': numpy.complex128}
MAXMAG = 1e4


class OutOfDomain(Exception):
    pass


class Reject(Exception):
    'construction not applicable to this pool'


def pydtype(kind):
    return {'b': bool, 'i': int, 'f': float, 'c': complex}[kind]


# ---------------------------------------------------------------------------
# op registry

OPS = {}


def op(name, weight=1., profiles=('all',)):
    def deco(cls):
        cls.name = name
        cls.weight = weight
        cls.profiles = profiles
        OPS[name] = cls
        return cls
    return deco


class N:
    """light view of a node dict"""
    __slots__ = 'i', 'd'

    def __init__(self, i, d):
        self.i, self.d = i, d

    shape = property(lambda s: tuple(s.d['shape']))
    kind = property(lambda s: s.d['kind'])
    ndim = property(lambda s: len(s.d['shape']))
    loops = property(lambda s: frozenset(s.d.get('loops', ())))
    op = property(lambda s: s.d['op'])


class Pool:
    def __init__(self, rng, maxdim=3):
        self.rng = rng
        self.nodes = []
        self.nargs = 0
        self.nloops = 0
        self.maxdim = maxdim
        self.open_loops = {}   # name -> length
        self.closed = set()    # names of loops that can no longer be closed

    def view(self, i):
        return N(i, self.nodes[i])

    def add(self, opname, args, p, shape, kind):
        loops = set()
        for a in args:
            loops |= set(self.nodes[a].get('loops', ()))
        if opname == 'loopindex':
            loops.add(p['name'])
        if opname in ('loop_sum', 'loop_concat'):
            loops.discard(p['name'])
        depth = 1 + max((self.nodes[a]['depth'] for a in args), default=-1)
        self.nodes.append(dict(op=opname, args=list(args), p=p, shape=[int(n) for n in shape], kind=kind, loops=sorted(loops), depth=depth))
        return len(self.nodes) - 1

    def pick(self, pred=lambda n: True, recent_bias=True):
        cands = [i for i in range(len(self.nodes)) if not (self.closed and self.closed & set(self.nodes[i].get('loops', ()))) and pred(self.view(i))]
        if not cands:
            raise Reject
        if recent_bias and self.rng.random() < .8:
            w = numpy.array([(1. + self.nodes[i]['depth']) ** 2 * (1. + 2. * (i + 1) / len(self.nodes)) for i in cands])
            return self.view(int(self.rng.choice(cands, p=w / w.sum())))
        return self.view(int(self.rng.choice(cands)))

    def dim(self, allow0=False):
        r = self.rng.random()
        if allow0 and r < .03:
            return 0
        return int(self.rng.choice([1, 2, 3, 4], p=[.15, .35, .35, .15]))

    def shape(self, ndim=None, allow0=False):
        if ndim is None:
            ndim = int(self.rng.choice([0, 1, 2, 3], p=[.15, .4, .35, .1]))
        return tuple(self.dim(allow0) for _ in range(ndim))


def _num(v):
    return v.dtype.kind in 'ifc'


def _check(v):
    a = numpy.asarray(v)
    if a.dtype.kind in 'fc':
        if not numpy.isfinite(a).all():
            raise OutOfDomain('non-finite')
        if a.size and numpy.abs(a).max() > MAXMAG:
            raise OutOfDomain('too large')
    elif a.dtype.kind == 'i':
        if a.size and numpy.abs(a).max() > 10**9:
            raise OutOfDomain('int too large')
    return a


# ---- leaves ---------------------------------------------------------------

@op('arg', 3.)
class Arg:
    @staticmethod
    def gen(pool, want_kind=None, shape=None):
        kind = want_kind or str(pool.rng.choice(list('bifc'), p=[.08, .2, .6, .12]))
        shape = pool.shape() if shape is None else shape
        name = f'a{pool.nargs}'
        pool.nargs += 1
        return pool.add('arg', [], dict(name=name), shape, kind)

    @staticmethod
    def build(ev, kids, p, node, ctx):
        return ev.Argument(p['name'], tuple(ev.constant(n) for n in node['shape']), pydtype(node['kind']))

    @staticmethod
    def shadow(vals, p, node, ctx):
        return ctx['args'][p['name']]


def _const_value(rng, shape, kind, style):
    size = int(numpy.prod(shape)) if shape else 1
    if kind == 'b':
        v = rng.random(shape) < .5
        if style == 'uniform':
            v = numpy.full(shape, bool(rng.random() < .5))
        return v
    if kind == 'i':
        if style == 'uniform':
            v = numpy.full(shape, int(rng.integers(-3, 4)))
        elif style == 'arange':
            v = numpy.arange(size).reshape(shape) + int(rng.integers(-2, 3))
        elif style == '01':
            v = rng.integers(0, 2, size=shape)
        else:
            v = rng.integers(-4, 5, size=shape)
        return v.astype(numpy.int64)
    if style == 'uniform':
        v = numpy.full(shape, float(rng.choice([0., 1., -1., 2., .5, -2.5])))
    elif style == 'arange':
        v = (numpy.arange(size).reshape(shape) - 1.) * .5
    elif style == '01':
        v = rng.integers(0, 2, size=shape).astype(float)
    elif style == 'repeat' and len(shape) >= 1 and shape[-1] > 0:
        v = numpy.repeat(rng.normal(size=shape[:-1] + (1,)), shape[-1], -1)
    else:
        v = numpy.round(rng.normal(size=shape) * 1.5, 2)
    v = numpy.asarray(v, dtype=float)
    if kind == 'c':
        v = v + 1j * numpy.round(rng.normal(size=shape), 2) * (0. if style == 'uniform' and rng.random() < .5 else 1.)
    return v


@op('const', 1.5)
class Const:
    @staticmethod
    def gen(pool, want_kind=None, shape=None):
        kind = want_kind or str(pool.rng.choice(list('bifc'), p=[.08, .25, .57, .1]))
        shape = pool.shape(allow0=True) if shape is None else shape
        style = str(pool.rng.choice(['random', 'uniform', 'arange', '01', 'repeat']))
        v = _const_value(pool.rng, tuple(shape), kind, style)
        return pool.add('const', [], dict(v=encode(v)), shape, kind)

    @staticmethod
    def build(ev, kids, p, node, ctx):
        return ev.constant(decode(p['v']))

    @staticmethod
    def shadow(vals, p, node, ctx):
        return decode(p['v'])


@op('zeros', .4)
class Zeros:
    @staticmethod
    def gen(pool):
        kind = str(pool.rng.choice(list('bifc')))
        return pool.add('zeros', [], {}, pool.shape(allow0=True), kind)

    @staticmethod
    def build(ev, kids, p, node, ctx):
        return ev.zeros(tuple(ev.constant(n) for n in node['shape']), pydtype(node['kind']))

    @staticmethod
    def shadow(vals, p, node, ctx):
        return numpy.zeros(node['shape'], NPDT[node['kind']])


@op('ones', .3)
class Ones:
    @staticmethod
    def gen(pool):
        kind = str(pool.rng.choice(list('bifc')))
        return pool.add('ones', [], {}, pool.shape(), kind)

    @staticmethod
    def build(ev, kids, p, node, ctx):
        return ev.ones(tuple(ev.constant(n) for n in node['shape']), pydtype(node['kind']))

    @staticmethod
    def shadow(vals, p, node, ctx):
        return numpy.ones(node['shape'], NPDT[node['kind']])


@op('range', .5)
class Range:
    @staticmethod
    def gen(pool):
        n = pool.dim(allow0=True)
        return pool.add('range', [], dict(offset=int(pool.rng.integers(-2, 3)) if pool.rng.random() < .4 else 0), (n,), 'i')

    @staticmethod
    def build(ev, kids, p, node, ctx):
        r = ev.Range(ev.constant(node['shape'][0]))
        return r + p['offset'] if p['offset'] else r

    @staticmethod
    def shadow(vals, p, node, ctx):
        return numpy.arange(node['shape'][0], dtype=numpy.int64) + p['offset']


@op('loopindex', 0.)   # created by the generator's loop logic only
class LoopIndex:
    @staticmethod
    def build(ev, kids, p, node, ctx):
        if kids:   # run-time length: an integer argument in [0, p['length']]
            return ev.loop_index(p['name'], ev.InRange(kids[0], ev.constant(p['length'] + 1)))
        return ev.loop_index(p['name'], p['length'])

    @staticmethod
    def shadow(vals, p, node, ctx):
        return numpy.int64(ctx['env'][p['name']])


# ---- pointwise unary --------------------------------------------------------

def _away(x, lo, what):
    if x.size and numpy.abs(x).min() < lo:
        raise OutOfDomain(what)


def _dom_sign(x):
    # sign jumps at 0: a float operand that is zero only up to rounding (x - x after re-association) is not a point of the domain
    if x.dtype.kind == 'f' and x.size and numpy.abs(x).min() < 1e-6:
        raise OutOfDomain('sign at its jump')


def _dom_arctan2(a, b):
    _away(numpy.hypot(a, b), .1, 'arctan2 near origin')
    a, b = numpy.broadcast_arrays(a, b)
    # branch cut: arctan2(+-0, x<0) = +-pi, and the sign of a zero (or of a rounding-size y) is not part of the denoted value
    if a.size and (numpy.abs(a[b < 0]) < 1e-6).any():
        raise OutOfDomain('arctan2 on the branch cut')


UNARY = {
    # name: (kinds allowed, nutils builder, numpy shadow, domain check, result kind map)
    'neg': ('ifc', lambda ev, a: ev.negative(a), numpy.negative, None),
    'abs': ('if', lambda ev, a: ev.abs(a), numpy.abs, None),
    'cabs': ('c', lambda ev, a: ev.abs(a), numpy.abs, lambda x: _away(x, .05, 'cabs near 0')),
    'sign': ('if', lambda ev, a: ev.sign(a), numpy.sign, lambda x: _dom_sign(x)),
    'sqrt': ('f', lambda ev, a: ev.sqrt(a), lambda x: numpy.power(x, .5), lambda x: _pos(x)),
    'reciprocal': ('fc', lambda ev, a: ev.reciprocal(a), lambda x: 1 / x, lambda x: _away(x, .1, 'reciprocal near 0')),
    'exp': ('fc', lambda ev, a: ev.exp(a), numpy.exp, lambda x: _lt(x, 6)),
    'sin': ('fc', lambda ev, a: ev.sin(a), numpy.sin, lambda x: _lt(x, 6)),
    'cos': ('fc', lambda ev, a: ev.cos(a), numpy.cos, lambda x: _lt(x, 6)),
    'tan': ('f', lambda ev, a: ev.tan(a), numpy.tan, lambda x: _lt(x, 1.2)),
    'arcsin': ('f', lambda ev, a: ev.arcsin(a), numpy.arcsin, lambda x: _lt(x, .9)),
    'arccos': ('f', lambda ev, a: ev.arccos(a), numpy.arccos, lambda x: _lt(x, .9)),
    'arctan': ('f', lambda ev, a: ev.arctan(a), numpy.arctan, None),
    'sinh': ('f', lambda ev, a: ev.sinh(a), numpy.sinh, lambda x: _lt(x, 6)),
    'cosh': ('f', lambda ev, a: ev.cosh(a), numpy.cosh, lambda x: _lt(x, 6)),
    'tanh': ('f', lambda ev, a: ev.tanh(a), numpy.tanh, None),
    'arctanh': ('f', lambda ev, a: ev.arctanh(a), numpy.arctanh, lambda x: _lt(x, .9)),
    'ln': ('f', lambda ev, a: ev.ln(a), numpy.log, lambda x: _pos(x)),
    'log2': ('f', lambda ev, a: ev.log2(a), numpy.log2, lambda x: _pos(x)),
    'log10': ('f', lambda ev, a: ev.log10(a), numpy.log10, lambda x: _pos(x)),
    'sinc': ('f', lambda ev, a: ev.sinc(a), lambda x: numpy.sinc(x / numpy.pi), None),
    'not': ('b', lambda ev, a: ev.LogicalNot(a), numpy.logical_not, None),
    'conj': ('ifc', lambda ev, a: ev.conjugate(a), numpy.conjugate, None),
    'guard': ('bifc', lambda ev, a: ev.Guard(a), lambda x: x, None),
}
UNARY_RESKIND = {'cabs': 'f'}


def _pos(x):
    if x.size and x.min() < .1:
        raise OutOfDomain('needs > 0.1')


def _lt(x, m):
    if x.size and numpy.abs(x).max() > m:
        raise OutOfDomain('too large for function')


@op('unary', 5.)
class Unary:
    @staticmethod
    def gen(pool, a=None, f=None):
        a = a or pool.pick()
        names = [n for n, s in UNARY.items() if a.kind in s[0]]
        if f is None:
            f = str(pool.rng.choice(names))
        elif a.kind not in UNARY[f][0]:
            raise Reject
        return pool.add('unary', [a.i], dict(f=f), a.shape, UNARY_RESKIND.get(f, a.kind))

    @staticmethod
    def build(ev, kids, p, node, ctx):
        return UNARY[p['f']][1](ev, kids[0])

    @staticmethod
    def shadow(vals, p, node, ctx):
        x = vals[0]
        dom = UNARY[p['f']][3]
        if dom:
            dom(x)
        if p['f'] in ('abs', 'sign') and ctx.get('trace') is not None:
            ctx['trace'].append(numpy.sign(x).astype(int).tobytes())
            if x.dtype.kind == 'f' and x.size and numpy.abs(x).min() < ctx.get('kink', 0):
                raise OutOfDomain('near kink')
        with numpy.errstate(all='raise'):
            try:
                return UNARY[p['f']][2](x)
            except FloatingPointError as e:
                raise OutOfDomain(str(e))


@op('realimag', .8)
class RealImag:
    @staticmethod
    def gen(pool):
        a = pool.pick(lambda n: n.kind in 'ifc')
        f = str(pool.rng.choice(['real', 'imag']))
        return pool.add('realimag', [a.i], dict(f=f), a.shape, 'f' if a.kind == 'c' else a.kind)

    @staticmethod
    def build(ev, kids, p, node, ctx):
        return getattr(ev, p['f'])(kids[0])

    @staticmethod
    def shadow(vals, p, node, ctx):
        x = vals[0]
        if p['f'] == 'real':
            return x.real.copy()
        return x.imag.copy() if x.dtype.kind == 'c' else numpy.zeros_like(x)


@op('astype', 1.5)
class AsType:
    @staticmethod
    def gen(pool, a=None, to=None):
        a = a or pool.pick(lambda n: n.kind != 'c')
        if a.kind == 'c':
            raise Reject
        if to is None:
            to = str(pool.rng.choice([k for k in KINDS if KINDS.index(k) > KINDS.index(a.kind)]))
        if KINDS.index(to) <= KINDS.index(a.kind):
            raise Reject
        return pool.add('astype', [a.i], dict(to=to), a.shape, to)

    @staticmethod
    def build(ev, kids, p, node, ctx):
        return ev.astype(kids[0], pydtype(p['to']))

    @staticmethod
    def shadow(vals, p, node, ctx):
        return vals[0].astype(NPDT[p['to']])


@op('powconst', 2.5)
class PowConst:
    EXPS = [2, 3, 4, 0, 1, -1, -2, .5, 1.5, -.5, .25, 2., 4.]

    @staticmethod
    def gen(pool, a=None, e=None):
        a = a or pool.pick(lambda n: n.kind in 'if')
        if a.kind not in 'if':
            raise Reject
        if a.kind == 'i':
            e = int(pool.rng.choice([0, 1, 2, 3])) if e is None or not float(e).is_integer() or e < 0 else int(e)
            via = 'int'
        else:
            if e is None:
                e = PowConst.EXPS[int(pool.rng.integers(len(PowConst.EXPS)))]
            # 'cast': exponent reaches Power as IntToFloat(constant(int)); 'lit': float literal
            via = 'cast' if float(e).is_integer() and e >= 0 and pool.rng.random() < .5 else 'lit'
        return pool.add('powconst', [a.i], dict(e=e, via=via), a.shape, a.kind)

    @staticmethod
    def build(ev, kids, p, node, ctx):
        a = kids[0]
        if p['via'] == 'int':
            return ev.power(a, ev.constant(int(p['e'])))
        if p['via'] == 'cast':
            return ev.power(a, ev.IntToFloat(ev.constant(int(p['e']))))
        return ev.power(a, ev.constant(float(p['e'])))

    @staticmethod
    def shadow(vals, p, node, ctx):
        x = vals[0]
        e = p['e']
        if x.dtype.kind == 'i':
            return numpy.power(x, int(e))
        if not float(e).is_integer():
            _pos(x)
        elif e < 0:
            _away(x, .1, 'negative power near 0')
        with numpy.errstate(all='raise'):
            try:
                return numpy.power(x, float(e))
            except FloatingPointError as ex:
                raise OutOfDomain(str(ex))


# ---- pointwise binary -------------------------------------------------------

def _b_or(a, b):
    return numpy.logical_or(a, b) if a.dtype.kind == 'b' else a + b


def _b_and(a, b):
    return numpy.logical_and(a, b) if a.dtype.kind == 'b' else a * b


def _dom_div(a, b):
    _away(b, .1, 'divisor near 0')


def _dom_pow(a, b):
    _pos(a)
    _lt(b, 4)


def _dom_mod(a, b):
    if b.dtype.kind == 'i':
        if b.size and (b == 0).any():
            raise OutOfDomain('mod 0')
    else:
        _away(b, .1, 'mod near 0')
        # stay away from the kinks of mod
        with numpy.errstate(all='ignore'):
            r = numpy.mod(a, b) / b
        if r.size and (numpy.minimum(r, 1 - r).min() < 1e-3):
            raise OutOfDomain('mod kink')


def _dom_cmp(a, b):
    if a.dtype.kind in 'fc' and a.size and numpy.abs(a - b).min() < 1e-6:
        raise OutOfDomain('comparison too close')


BINARY = {
    # name: (kinds, builder, shadow, domain, result kind or None)
    'add': ('bifc', lambda ev, a, b: ev.add(a, b), _b_or, None, None),
    'mul': ('bifc', lambda ev, a, b: ev.multiply(a, b), _b_and, None, None),
    'sub': ('ifc', lambda ev, a, b: ev.subtract(a, b), numpy.subtract, None, None),
    'div': ('fc', lambda ev, a, b: ev.divide(a, b), numpy.divide, _dom_div, None),
    'pow': ('f', lambda ev, a, b: ev.power(a, b), numpy.power, _dom_pow, None),
    'mod': ('if', lambda ev, a, b: ev.mod(a, b), numpy.mod, _dom_mod, None),
    'floordiv': ('i', lambda ev, a, b: ev.FloorDivide(a, b), numpy.floor_divide, _dom_mod, None),
    'min': ('if', lambda ev, a, b: ev.Minimum(a, b), numpy.minimum, None, None),
    'max': ('if', lambda ev, a, b: ev.Maximum(a, b), numpy.maximum, None, None),
    'greater': ('if', lambda ev, a, b: ev.Greater(a, b), numpy.greater, _dom_cmp, 'b'),
    'less': ('if', lambda ev, a, b: ev.Less(a, b), numpy.less, _dom_cmp, 'b'),
    'equal': ('bifc', lambda ev, a, b: ev.Equal(a, b), numpy.equal, _dom_cmp, 'b'),
    'arctan2': ('f', lambda ev, a, b: ev.arctan2(a, b), numpy.arctan2, _dom_arctan2, None),
}
# constructors that do not broadcast scalars themselves
RAW_BINARY = {'floordiv', 'min', 'max', 'greater', 'less', 'equal'}


@op('binary', 8.)
class Binary:
    @staticmethod
    def gen(pool, a=None, b=None, f=None):
        chainmode = a is not None
        a = a or pool.pick()
        same = pool.rng.random() < .12
        if b is None:
            if same:
                b = a
            elif chainmode and pool.rng.random() < .6:   # systematic mixer: mostly a fresh, independent second operand
                b = pool.view(Arg.gen(pool, want_kind=a.kind, shape=a.shape if pool.rng.random() < .8 else ()))
            else:
                try:
                    b = pool.pick(lambda n: n.kind == a.kind and (n.shape == a.shape or n.ndim == 0 or a.ndim == 0))
                except Reject:
                    bi = Const.gen(pool, want_kind=a.kind, shape=a.shape) if pool.rng.random() < .5 else Arg.gen(pool, want_kind=a.kind, shape=a.shape)
                    b = pool.view(bi)
        if b.kind != a.kind or not (b.shape == a.shape or b.ndim == 0 or a.ndim == 0):
            raise Reject
        names = [n for n, s in BINARY.items() if a.kind in s[0]]
        if f is None:
            f = str(pool.rng.choice(names))
        elif a.kind not in BINARY[f][0]:
            raise Reject
        if f in RAW_BINARY and a.shape != b.shape:
            raise Reject
        if pool.rng.random() < .5:
            a, b = b, a
        shape = a.shape if a.ndim >= b.ndim else b.shape
        return pool.add('binary', [a.i, b.i], dict(f=f), shape, BINARY[f][4] or a.kind)

    @staticmethod
    def build(ev, kids, p, node, ctx):
        return BINARY[p['f']][1](ev, kids[0], kids[1])

    @staticmethod
    def shadow(vals, p, node, ctx):
        a, b = vals
        dom = BINARY[p['f']][3]
        if dom:
            dom(a, b)
        if ctx.get('trace') is not None and p['f'] in ('min', 'max', 'greater', 'less', 'equal', 'mod', 'floordiv') and a.dtype.kind == 'f':
            with numpy.errstate(all='ignore'):
                if p['f'] in ('mod', 'floordiv'):
                    ctx['trace'].append(numpy.floor_divide(a, b).astype(int).tobytes())
                else:
                    ctx['trace'].append(numpy.sign(a - b).astype(int).tobytes())
                    if numpy.size(a - b) and numpy.abs(a - b).min() < ctx.get('kink', 0):
                        raise OutOfDomain('near kink')
        with numpy.errstate(all='raise'):
            try:
                return BINARY[p['f']][2](a, b)
            except FloatingPointError as e:
                raise OutOfDomain(str(e))


# ---- axis manipulation ------------------------------------------------------

@op('insertaxis', 2.)
class InsertAxis:
    @staticmethod
    def gen(pool, a=None):
        a = a or pool.pick(lambda n: n.ndim < pool.maxdim + 1)
        if a.ndim >= pool.maxdim + 1:
            raise Reject
        axis = int(pool.rng.integers(0, a.ndim + 1))
        length = pool.dim(allow0=True)
        return pool.add('insertaxis', [a.i], dict(axis=axis, length=length), a.shape[:axis] + (length,) + a.shape[axis:], a.kind)

    @staticmethod
    def build(ev, kids, p, node, ctx):
        return ev.insertaxis(kids[0], p['axis'], ev.constant(p['length']))

    @staticmethod
    def shadow(vals, p, node, ctx):
        return numpy.repeat(numpy.expand_dims(vals[0], p['axis']), p['length'], p['axis'])


@op('transpose', 2.)
class Transpose:
    @staticmethod
    def gen(pool, a=None):
        a = a or pool.pick(lambda n: n.ndim >= 2)
        if a.ndim < 2:
            raise Reject
        while True:
            perm = [int(i) for i in pool.rng.permutation(a.ndim)]
            if perm != list(range(a.ndim)):
                break
        return pool.add('transpose', [a.i], dict(perm=perm), tuple(a.shape[i] for i in perm), a.kind)

    @staticmethod
    def build(ev, kids, p, node, ctx):
        return ev.transpose(kids[0], p['perm'])

    @staticmethod
    def shadow(vals, p, node, ctx):
        return vals[0].transpose(p['perm'])


@op('sum', 3.)
class Sum:
    @staticmethod
    def gen(pool, a=None):
        a = a or pool.pick(lambda n: n.ndim >= 1)
        if a.ndim < 1:
            raise Reject
        axis = int(pool.rng.integers(0, a.ndim))
        kind = a.kind
        return pool.add('sum', [a.i], dict(axis=axis), a.shape[:axis] + a.shape[axis + 1:], kind)

    @staticmethod
    def build(ev, kids, p, node, ctx):
        return ev.sum(kids[0], p['axis'])

    @staticmethod
    def shadow(vals, p, node, ctx):
        x = vals[0]
        return x.any(p['axis']) if x.dtype.kind == 'b' else x.sum(p['axis'])


@op('product', 1.)
class Product:
    @staticmethod
    def gen(pool, a=None):
        a = a or pool.pick(lambda n: n.ndim >= 1)
        if a.ndim < 1:
            raise Reject
        axis = int(pool.rng.integers(0, a.ndim))
        return pool.add('product', [a.i], dict(axis=axis), a.shape[:axis] + a.shape[axis + 1:], a.kind)

    @staticmethod
    def build(ev, kids, p, node, ctx):
        return ev.product(kids[0], p['axis'])

    @staticmethod
    def shadow(vals, p, node, ctx):
        x = vals[0]
        return x.all(p['axis']) if x.dtype.kind == 'b' else x.prod(p['axis'])


@op('takediag', 2.5)
class TakeDiag:
    @staticmethod
    def gen(pool, a=None):
        def ok(n):
            return any(n.shape[i] == n.shape[j] for i in range(n.ndim) for j in range(i + 1, n.ndim))
        a = a or pool.pick(ok)
        pairs = [(i, j) for i in range(a.ndim) for j in range(a.ndim) if i != j and a.shape[i] == a.shape[j]]
        if not pairs:
            raise Reject
        axis, rmaxis = pairs[int(pool.rng.integers(len(pairs)))]
        shape = list(a.shape)
        del shape[rmaxis]
        return pool.add('takediag', [a.i], dict(axis=axis, rmaxis=rmaxis), shape, a.kind)

    @staticmethod
    def build(ev, kids, p, node, ctx):
        return ev.takediag(kids[0], p['axis'], p['rmaxis'])

    @staticmethod
    def shadow(vals, p, node, ctx):
        x = vals[0]
        axis, rmaxis = p['axis'], p['rmaxis']
        # result: diagonal placed at position of `axis` after removing `rmaxis`
        d = numpy.diagonal(x, axis1=axis, axis2=rmaxis)  # diagonal axis last
        return numpy.moveaxis(d, -1, axis - (axis > rmaxis)).copy()


@op('diagonalize', 2.)
class Diagonalize:
    @staticmethod
    def gen(pool, a=None):
        a = a or pool.pick(lambda n: 1 <= n.ndim <= pool.maxdim)
        if not 1 <= a.ndim <= pool.maxdim:
            raise Reject
        axis = int(pool.rng.integers(0, a.ndim))
        newaxis = int(pool.rng.integers(0, a.ndim + 1))
        # positions in the result: the original `axis` and the new axis `newaxis` (cf evaluable.diagonalize)
        shape = list(a.shape)
        shape.insert(newaxis, a.shape[axis])
        return pool.add('diagonalize', [a.i], dict(axis=axis, newaxis=newaxis), shape, a.kind)

    @staticmethod
    def build(ev, kids, p, node, ctx):
        return ev.diagonalize(kids[0], p['axis'], p['newaxis'])

    @staticmethod
    def shadow(vals, p, node, ctx):
        x = vals[0]
        axis, newaxis = p['axis'], p['newaxis']
        n = x.shape[axis]
        # result axes: original axes with new axis inserted at `newaxis`; original `axis` ends up at axis+(axis>=newaxis)
        pos = axis + (axis >= newaxis)
        xe = numpy.expand_dims(x, newaxis)
        eye_shape = [1] * xe.ndim
        eye_shape[pos] = n
        eye_shape[newaxis] = n
        eye = numpy.eye(n, dtype=bool).reshape(eye_shape) if pos < newaxis else numpy.eye(n, dtype=bool).T.reshape(eye_shape)
        return numpy.where(eye, xe, numpy.zeros((), x.dtype)) if x.dtype.kind != 'b' else numpy.logical_and(eye, xe)


@op('take', 3.)
class Take:
    @staticmethod
    def gen(pool, a=None, style=None):
        a = a or pool.pick(lambda n: n.ndim >= 1 and max(n.shape) > 0)
        axes = [i for i in range(a.ndim) if a.shape[i] > 0]
        if not axes:
            raise Reject
        axis = int(pool.rng.choice(axes))
        n = a.shape[axis]
        style = style or str(pool.rng.choice(['const', 'const', 'neg', 'mask', 'arg', 'slice', 'get', 'range']))
        p = dict(axis=axis, style=style)
        args = [a.i]
        if style in ('const', 'neg'):
            m = int(pool.rng.integers(0, 5))
            idx = pool.rng.integers(-n if style == 'neg' else 0, n, size=m)
            if pool.rng.random() < .3 and m:
                idx = numpy.sort(idx)
            p['idx'] = [int(i) for i in idx]
            newshape = (m,)
        elif style == 'mask':
            mask = pool.rng.random(n) < .6
            p['mask'] = [bool(b) for b in mask]
            newshape = (int(mask.sum()),)
        elif style == 'arg':
            m = pool.dim()
            ishape = (m,) if pool.rng.random() < .8 else (m, pool.dim())
            ii = Arg.gen(pool, want_kind='i', shape=ishape)
            pool.nodes[ii]['p']['range'] = [0, n]   # value domain for the drawer
            args.append(ii)
            newshape = ishape
        elif style == 'slice':
            start = int(pool.rng.integers(0, n + 1))
            stop = int(pool.rng.integers(start, n + 1))
            step = int(pool.rng.choice([1, 1, 2, -1]))
            if step == -1:
                p['slice'] = [None, None, -1]
            else:
                p['slice'] = [start, stop, step]
            newshape = (len(range(*slice(*p['slice']).indices(n))),)
        elif style == 'get':
            p['item'] = int(pool.rng.integers(0, n))
            newshape = ()
        else:  # range + offset
            m = int(pool.rng.integers(0, n + 1))
            off = int(pool.rng.integers(0, n - m + 1))
            p['m'], p['off'] = m, off
            newshape = (m,)
        return pool.add('take', args, p, a.shape[:axis] + tuple(newshape) + a.shape[axis + 1:], a.kind)

    @staticmethod
    def build(ev, kids, p, node, ctx):
        a, axis, style = kids[0], p['axis'], p['style']
        if style in ('const', 'neg'):
            return ev.take(a, ev.constant(numpy.array(p['idx'], dtype=int)), axis)
        if style == 'mask':
            return ev.take(a, ev.constant(numpy.array(p['mask'], dtype=bool)), axis)
        if style == 'arg':
            idx = kids[1]
            if idx.ndim == 1:
                return ev.take(a, idx, axis)
            return ev._take(a, ev.InRange(idx, a.shape[axis]), axis)
        if style == 'slice':
            return ev._takeslice(a, slice(*p['slice']), axis)
        if style == 'get':
            return ev.get(a, axis, ev.constant(p['item']))
        return ev.take(a, ev.Range(ev.constant(p['m'])) + p['off'], axis)

    @staticmethod
    def shadow(vals, p, node, ctx):
        x, axis, style = vals[0], p['axis'], p['style']
        n = x.shape[axis]
        if style in ('const', 'neg'):
            return numpy.take(x, numpy.array(p['idx'], dtype=int), axis)
        if style == 'mask':
            return numpy.compress(numpy.array(p['mask'], dtype=bool), x, axis)
        if style == 'arg':
            idx = vals[1]
            if idx.size and (idx.min() < 0 or idx.max() >= n):
                raise OutOfDomain('index out of range')
            return numpy.take(x, idx, axis)
        if style == 'slice':
            sl = [slice(None)] * x.ndim
            sl[axis] = slice(*p['slice'])
            return x[tuple(sl)].copy()
        if style == 'get':
            return numpy.take(x, p['item'], axis)
        return numpy.take(x, numpy.arange(p['m']) + p['off'], axis)


@op('inflate', 3.)
class Inflate:
    @staticmethod
    def gen(pool, a=None, style=None):
        a = a or pool.pick(lambda n: n.kind != 'x')
        style = style or str(pool.rng.choice(['const1', 'const1', 'const0', 'const2', 'const3', 'arg1', 'perm']))
        nd = {'const0': 0, 'const1': 1, 'const2': 2, 'const3': 3, 'arg1': 1, 'perm': 1}[style]
        if a.ndim < nd:
            raise Reject
        axis = int(pool.rng.integers(0, a.ndim - nd + 1))
        dshape = a.shape[axis:axis + nd]
        size = int(numpy.prod(dshape)) if nd else 1
        cache = pool.__dict__.setdefault('dofcache', {})
        prev = cache.get((tuple(dshape), style))
        if style != 'arg1' and prev is not None and pool.rng.random() < .5:
            # re-use a scatter map that another node of this case already uses (rules compare dofmaps by identity)
            length, dof = prev
        elif style == 'perm':
            length = size
            dof = pool.rng.permutation(size).reshape(dshape)
        else:
            length = int(pool.rng.integers(max(1, size - 1), size + 3))
            dof = pool.rng.integers(0, length, size=dshape)   # duplicates allowed
            if pool.rng.random() < .3 and nd == 1:
                dof = numpy.sort(dof)
        if style != 'arg1':
            cache[(tuple(dshape), style)] = (length, dof)
        p = dict(axis=axis, style=style, length=length, nd=nd)
        args = [a.i]
        if style == 'arg1':
            ii = Arg.gen(pool, want_kind='i', shape=dshape)
            pool.nodes[ii]['p']['range'] = [0, length]
            args.append(ii)
        else:
            p['dof'] = encode(numpy.asarray(dof, dtype=numpy.int64))
        return pool.add('inflate', args, p, a.shape[:axis] + (length,) + a.shape[axis + nd:], a.kind)

    @staticmethod
    def build(ev, kids, p, node, ctx):
        if p['style'] == 'arg1':
            dof = ev.InRange(kids[1], ev.constant(p['length']))
        else:
            dof = ev.constant(decode(p['dof']))
        return ev._inflate(kids[0], dof, ev.constant(p['length']), p['axis'])

    @staticmethod
    def shadow(vals, p, node, ctx):
        x, axis, nd, length = vals[0], p['axis'], p['nd'], p['length']
        dof = vals[1] if p['style'] == 'arg1' else decode(p['dof'])
        dof = numpy.asarray(dof)
        if dof.size and (dof.min() < 0 or dof.max() >= length):
            raise OutOfDomain('dof out of range')
        # move the dof axes to the end
        xm = numpy.moveaxis(x, list(range(axis, axis + nd)), list(range(x.ndim - nd, x.ndim)))
        out = numpy.zeros(xm.shape[:xm.ndim - nd] + (length,), x.dtype)
        if x.dtype.kind == 'b':
            acc = numpy.zeros(out.shape, int)
            numpy.add.at(acc, (..., dof), xm.astype(int))
            out = acc > 0
        else:
            numpy.add.at(out, (..., dof), xm)
        return numpy.moveaxis(out, -1, axis)


@op('concat', 2.5)
class Concat:
    @staticmethod
    def gen(pool, a=None):
        a = a or pool.pick(lambda n: n.ndim >= 1)
        if a.ndim < 1:
            raise Reject
        axis = int(pool.rng.integers(0, a.ndim))
        def ok(n):
            return n.kind == a.kind and n.ndim == a.ndim and all(n.shape[i] == a.shape[i] for i in range(a.ndim) if i != axis)
        others = []
        for _ in range(int(pool.rng.integers(1, 3))):
            try:
                others.append(pool.pick(ok))
            except Reject:
                shape = list(a.shape)
                shape[axis] = pool.dim(allow0=True)
                others.append(pool.view(Arg.gen(pool, want_kind=a.kind, shape=tuple(shape))))
        parts = [a] + others
        pool.rng.shuffle(parts)
        shape = list(a.shape)
        shape[axis] = sum(q.shape[axis] for q in parts)
        return pool.add('concat', [q.i for q in parts], dict(axis=axis), shape, a.kind)

    @staticmethod
    def build(ev, kids, p, node, ctx):
        return ev.concatenate(kids, p['axis'])

    @staticmethod
    def shadow(vals, p, node, ctx):
        return numpy.concatenate(vals, p['axis'])


@op('stack', 2.5)
class Stack:
    @staticmethod
    def gen(pool, a=None):
        a = a or pool.pick(lambda n: n.ndim <= pool.maxdim)
        if a.ndim > pool.maxdim:
            raise Reject
        others = []
        for _ in range(int(pool.rng.integers(1, 3))):
            try:
                others.append(pool.pick(lambda n: n.kind == a.kind and n.shape == a.shape))
            except Reject:
                others.append(pool.view(Arg.gen(pool, want_kind=a.kind, shape=a.shape)))
        parts = [a] + others
        pool.rng.shuffle(parts)
        axis = int(pool.rng.integers(0, a.ndim + 1))
        return pool.add('stack', [q.i for q in parts], dict(axis=axis), a.shape[:axis] + (len(parts),) + a.shape[axis:], a.kind)

    @staticmethod
    def build(ev, kids, p, node, ctx):
        return ev.stack(kids, p['axis'])

    @staticmethod
    def shadow(vals, p, node, ctx):
        return numpy.stack(vals, p['axis'])


@op('ravel', 1.5)
class Ravel:
    @staticmethod
    def gen(pool, a=None):
        a = a or pool.pick(lambda n: n.ndim >= 2)
        if a.ndim < 2:
            raise Reject
        axis = int(pool.rng.integers(0, a.ndim - 1))
        return pool.add('ravel', [a.i], dict(axis=axis), a.shape[:axis] + (a.shape[axis] * a.shape[axis + 1],) + a.shape[axis + 2:], a.kind)

    @staticmethod
    def build(ev, kids, p, node, ctx):
        return ev.ravel(kids[0], p['axis'])

    @staticmethod
    def shadow(vals, p, node, ctx):
        return vals[0].reshape(node['shape'])


@op('unravel', 1.5)
class Unravel:
    @staticmethod
    def gen(pool, a=None):
        def ok(n):
            return n.ndim <= pool.maxdim and any(s in (0, 2, 3, 4, 6, 8, 9, 12, 16, 1) for s in n.shape) and n.ndim >= 1
        a = a or pool.pick(ok)
        if a.ndim < 1 or a.ndim > pool.maxdim:
            raise Reject
        axis = int(pool.rng.integers(0, a.ndim))
        n = a.shape[axis]
        facs = [(i, n // i) for i in range(1, n + 1) if n % i == 0] if n else [(0, 2), (3, 0)]
        s = facs[int(pool.rng.integers(len(facs)))]
        return pool.add('unravel', [a.i], dict(axis=axis, s=list(s)), a.shape[:axis] + tuple(s) + a.shape[axis + 1:], a.kind)

    @staticmethod
    def build(ev, kids, p, node, ctx):
        return ev.unravel(kids[0], p['axis'], tuple(ev.constant(n) for n in p['s']))

    @staticmethod
    def shadow(vals, p, node, ctx):
        return vals[0].reshape(node['shape'])


@op('detinv', 1.2)
class DetInv:
    @staticmethod
    def gen(pool, a=None):
        # fresh, diagonally dominant operand: M = B + 4 n I with |B| small is built from an argument
        n = int(pool.rng.choice([1, 2, 3]))
        lead = pool.shape(ndim=int(pool.rng.integers(0, 2)))
        def ok(q):
            return q.kind in 'f' and q.ndim >= 2 and q.shape[-1] == q.shape[-2] and 1 <= q.shape[-1] <= 3
        try:
            if a is None:
                a = pool.pick(ok)
            elif not ok(a):
                raise Reject
        except Reject:
            a = pool.view(Arg.gen(pool, want_kind='f', shape=lead + (n, n)))
        f = str(pool.rng.choice(['det', 'inv']))
        shape = a.shape[:-2] if f == 'det' else a.shape
        return pool.add('detinv', [a.i], dict(f=f), shape, 'f')

    @staticmethod
    def build(ev, kids, p, node, ctx):
        return ev.determinant(kids[0]) if p['f'] == 'det' else ev.inverse(kids[0])

    @staticmethod
    def shadow(vals, p, node, ctx):
        x = vals[0]
        if p['f'] == 'det':
            return numpy.linalg.det(x) if x.shape[-1] else numpy.ones(x.shape[:-2])
        if x.size:
            try:
                c = numpy.linalg.cond(x)
            except numpy.linalg.LinAlgError:
                raise OutOfDomain('singular')
            if not numpy.isfinite(c).all() or c.max() > 50:
                raise OutOfDomain('ill conditioned')
        return numpy.linalg.inv(x)


@op('choose', 1.5)
class Choose:
    @staticmethod
    def gen(pool, a=None):
        a = a or pool.pick(lambda n: n.kind != 'x')
        nch = int(pool.rng.integers(2, 4))
        others = []
        for _ in range(nch - 1):
            try:
                if pool.rng.random() < .5:
                    raise Reject
                used = {a.i} | {q.i for q in others}
                others.append(pool.pick(lambda n: n.kind == a.kind and n.shape == a.shape and (n.i not in used or pool.rng.random() < .15)))
            except Reject:
                others.append(pool.view(Arg.gen(pool, want_kind=a.kind, shape=a.shape)))
        ii = Arg.gen(pool, want_kind='i', shape=a.shape)
        pool.nodes[ii]['p']['range'] = [0, nch]
        return pool.add('choose', [ii, a.i] + [q.i for q in others], dict(), a.shape, a.kind)

    @staticmethod
    def build(ev, kids, p, node, ctx):
        return ev.Choose(ev.InRange(kids[0], ev.constant(len(kids) - 1)), ev.stack(kids[1:], -1))

    @staticmethod
    def shadow(vals, p, node, ctx):
        idx = vals[0]
        if idx.size and (idx.min() < 0 or idx.max() >= len(vals) - 1):
            raise OutOfDomain('choose index')
        return numpy.choose(idx, vals[1:])


@op('einsum', 2.)
class Einsum:
    @staticmethod
    def gen(pool, a=None):
        a = a or pool.pick(lambda n: n.kind in 'ifc' and 1 <= n.ndim <= 3)
        if a.kind not in 'ifc' or not 1 <= a.ndim <= 3:
            raise Reject
        letters = 'ijklmn'
        la = letters[:a.ndim]
        # b shares 1..ndim letters with a, possibly with a new letter
        nshare = int(pool.rng.integers(1, a.ndim + 1))
        share = [int(i) for i in pool.rng.choice(a.ndim, size=nshare, replace=False)]
        lb = [la[i] for i in share]
        bshape = [a.shape[i] for i in share]
        if pool.rng.random() < .5 and len(lb) < 3:
            lb.append('z')
            bshape.append(pool.dim())
        order = [int(i) for i in pool.rng.permutation(len(lb))]
        lb = ''.join(lb[i] for i in order)
        bshape = tuple(bshape[i] for i in order)
        try:
            b = pool.pick(lambda n: n.kind == a.kind and n.shape == bshape)
        except Reject:
            b = pool.view(Arg.gen(pool, want_kind=a.kind, shape=bshape))
        allletters = sorted(set(la) | set(lb))
        keep = [l for l in allletters if pool.rng.random() < .6]
        pool.rng.shuffle(keep)
        lout = ''.join(keep)
        dims = dict(zip(la, a.shape))
        dims.update(zip(lb, bshape))
        fmt = f'{la},{lb}->{lout}'
        return pool.add('einsum', [a.i, b.i], dict(fmt=fmt), tuple(dims[l] for l in lout), a.kind)

    @staticmethod
    def build(ev, kids, p, node, ctx):
        return ev.einsum(p['fmt'], *kids)

    @staticmethod
    def shadow(vals, p, node, ctx):
        return numpy.einsum(p['fmt'], *vals)


@op('intops', 2., profiles=('int',))
class IntOps:
    """integer-range heavy constructors: NormDim, InRange, RavelIndex, Sign/Abs chains are covered by unary"""
    @staticmethod
    def gen(pool, a=None):
        f = str(pool.rng.choice(['normdim', 'ravelindex', 'inrange']))
        if f == 'normdim':
            n = int(pool.rng.integers(1, 6))
            ii = Arg.gen(pool, want_kind='i', shape=pool.shape())
            pool.nodes[ii]['p']['range'] = [-n, n]
            return pool.add('intops', [ii], dict(f=f, n=n), pool.nodes[ii]['shape'], 'i')
        if f == 'inrange':
            n = int(pool.rng.integers(1, 6))
            ii = Arg.gen(pool, want_kind='i', shape=pool.shape())
            pool.nodes[ii]['p']['range'] = [0, n]
            return pool.add('intops', [ii], dict(f=f, n=n), pool.nodes[ii]['shape'], 'i')
        na, nb = int(pool.rng.integers(1, 5)), int(pool.rng.integers(1, 5))
        ia = Arg.gen(pool, want_kind='i', shape=pool.shape(ndim=int(pool.rng.integers(0, 2))))
        ib = Arg.gen(pool, want_kind='i', shape=pool.shape(ndim=int(pool.rng.integers(0, 2))))
        pool.nodes[ia]['p']['range'] = [0, na]
        pool.nodes[ib]['p']['range'] = [0, nb]
        return pool.add('intops', [ia, ib], dict(f=f, na=na, nb=nb), tuple(pool.nodes[ia]['shape']) + tuple(pool.nodes[ib]['shape']), 'i')

    @staticmethod
    def build(ev, kids, p, node, ctx):
        if p['f'] == 'normdim':
            k = kids[0]
            length = ev.constant(p['n'])
            for i, n in enumerate(k.shape):
                length = ev.insertaxis(length, i, n)
            return ev.NormDim(length, k)
        if p['f'] == 'inrange':
            return ev.InRange(kids[0], ev.constant(p['n']))
        return ev.RavelIndex(kids[0], kids[1], ev.constant(p['na']), ev.constant(p['nb']))

    @staticmethod
    def shadow(vals, p, node, ctx):
        if p['f'] == 'normdim':
            i = vals[0]
            if i.size and (i.min() < -p['n'] or i.max() >= p['n']):
                raise OutOfDomain('normdim')
            return numpy.where(i < 0, i + p['n'], i)
        if p['f'] == 'inrange':
            i = vals[0]
            if i.size and (i.min() < 0 or i.max() >= p['n']):
                raise OutOfDomain('inrange')
            return i
        ia, ib = vals
        if ia.size and (ia.min() < 0 or ia.max() >= p['na']) or ib.size and (ib.min() < 0 or ib.max() >= p['nb']):
            raise OutOfDomain('ravelindex')
        return ia.reshape(ia.shape + (1,) * ib.ndim) * p['nb'] + ib


@op('polyval', 1.2)
class Polyval:
    @staticmethod
    def gen(pool, a=None):
        nvars = int(pool.rng.choice([1, 2]))
        degree = int(pool.rng.integers(0, 4))
        ncoeffs = math.comb(nvars + degree, degree)
        cshape = pool.shape(ndim=int(pool.rng.integers(0, 2))) + (ncoeffs,)
        xshape = pool.shape(ndim=int(pool.rng.integers(0, 2))) + (nvars,)
        def okx(n):
            return n.kind == 'f' and n.shape == xshape
        try:
            x = pool.pick(okx) if a is None else a if okx(a) else (_ for _ in ()).throw(Reject())
        except Reject:
            x = pool.view(Arg.gen(pool, want_kind='f', shape=xshape))
        c = pool.view(Arg.gen(pool, want_kind='f', shape=cshape) if pool.rng.random() < .7 else Const.gen(pool, want_kind='f', shape=cshape))
        return pool.add('polyval', [x.i, c.i], dict(nvars=nvars), x.shape[:-1] + c.shape[:-1], 'f')

    @staticmethod
    def build(ev, kids, p, node, ctx):
        return ev.Polyval(kids[1], kids[0])

    @staticmethod
    def shadow(vals, p, node, ctx):
        import nutils_poly
        return nutils_poly.eval_outer(vals[1], vals[0])


@op('legendre', .6)
class Legendre:
    @staticmethod
    def gen(pool, a=None):
        a = a or pool.pick(lambda n: n.kind == 'f' and n.ndim <= 2)
        if a.kind != 'f' or a.ndim > 2:
            raise Reject
        d = int(pool.rng.integers(0, 4))
        return pool.add('legendre', [a.i], dict(d=d), a.shape + (d + 1,), 'f')

    @staticmethod
    def build(ev, kids, p, node, ctx):
        return ev.Legendre(kids[0], p['d'])

    @staticmethod
    def shadow(vals, p, node, ctx):
        return numpy.polynomial.legendre.legvander(vals[0], p['d']).reshape(vals[0].shape + (p['d'] + 1,))


@op('fem', 1.2)
class Fem:
    """FEM-assembly shaped composite: sum over elements of element blocks (Elemwise data of element-dependent size)
    scattered by element-dependent dof lists; the loop-dependent shapes stay inside the composite."""
    @staticmethod
    def gen(pool, a=None):
        rng = pool.rng
        nelems = int(rng.integers(1, 5))
        n = int(rng.integers(2, 7))
        rank = int(rng.choice([1, 2]))
        kind = str(rng.choice(['f', 'f', 'i']))
        same_size = rng.random() < .3
        size0 = int(rng.integers(1, 4))
        dofs, blocks = [], []
        for e in range(nelems):
            m = size0 if same_size else int(rng.integers(1, 4))
            d = rng.integers(0, n, size=m) if rng.random() < .3 else rng.permutation(n)[:m]
            d = numpy.asarray(d, dtype=numpy.int64)
            m = len(d)
            if kind == 'f':
                b = numpy.round(rng.normal(size=(m,) * rank), 2)
            else:
                b = rng.integers(-3, 4, size=(m,) * rank)
            dofs.append(encode(d))
            blocks.append(encode(numpy.asarray(b, dtype=NPDT[kind])))
        name = f'i{pool.nloops}'
        pool.nloops += 1
        args = []
        scale = str(rng.choice(['none', 'perelem', 'scalar']))
        if scale == 'perelem':
            args.append(Arg.gen(pool, want_kind=kind, shape=(nelems,)))
        elif scale == 'scalar':
            try:
                args.append(pool.pick(lambda q: q.kind == kind and q.ndim == 0 and not q.loops).i)
            except Reject:
                args.append(Arg.gen(pool, want_kind=kind, shape=()))
        return pool.add('fem', args, dict(name=name, nelems=nelems, n=n, rank=rank, dofs=dofs, blocks=blocks, scale=scale), (n,) * rank, kind)

    @staticmethod
    def build(ev, kids, p, node, ctx):
        from nutils import types
        i = ev.loop_index(p['name'], p['nelems'])
        dofs = ev.Elemwise(tuple(types.arraydata(decode(d)) for d in p['dofs']), i, int)
        vals = ev.Elemwise(tuple(types.arraydata(decode(b)) for b in p['blocks']), i, pydtype(node['kind']))
        if p['scale'] == 'perelem':
            vals = ev.multiply(vals, ev.Take(kids[0], i))
        elif p['scale'] == 'scalar':
            vals = ev.multiply(vals, kids[0])
        n = ev.constant(p['n'])
        if p['rank'] == 1:
            r = ev._inflate(vals, dofs, n, 0)
        else:
            r = ev._inflate(ev._inflate(vals, dofs, n, 1), dofs, n, 0)
        return ev.loop_sum(r, i)

    @staticmethod
    def shadow(vals, p, node, ctx):
        out = numpy.zeros(node['shape'], NPDT[node['kind']])
        for e in range(p['nelems']):
            d = decode(p['dofs'][e])
            b = decode(p['blocks'][e])
            if p['scale'] == 'perelem':
                b = b * vals[0][e]
            elif p['scale'] == 'scalar':
                b = b * vals[0]
            if p['rank'] == 1:
                numpy.add.at(out, d, b)
            else:
                numpy.add.at(out, (d[:, None], d[None, :]), b)
        return out


@op('scattersum', 1.2)
class ScatterSum:
    """balanced sum ((t1+t2)+(t3+t4)) of arrays scattered on axis 0 (and optionally axis 1) by scatter maps drawn from a small
    SHARED set, so that the two halves of the sum have partially overlapping map sets"""
    @staticmethod
    def gen(pool, a=None):
        rng = pool.rng
        n0, n1 = int(rng.integers(3, 7)), int(rng.integers(2, 4))
        m = int(rng.integers(1, 4))
        nmaps = int(rng.choice([3, 3, 4, 2]))
        maps0 = [[int(x) for x in rng.permutation(n0)[:m]] if rng.random() < .7 else [int(x) for x in rng.integers(0, n0, size=m)] for _ in range(nmaps)]
        maps1 = [[int(x) for x in rng.permutation(n1)[:min(m, n1)]] for _ in range(2)]
        kind = str(rng.choice(['f', 'f', 'i']))
        nterms = int(rng.choice([4, 4, 4, 2, 3, 5, 6]))
        terms, args = [], []
        for t in range(nterms):
            i0 = int(rng.integers(nmaps))
            two = rng.random() < .5
            if two:
                i1 = int(rng.integers(2))
                args.append(Arg.gen(pool, want_kind=kind, shape=(len(maps0[i0]), len(maps1[i1]))))
                terms.append(dict(m0=i0, m1=i1))
            else:
                args.append(Arg.gen(pool, want_kind=kind, shape=(len(maps0[i0]),)))
                terms.append(dict(m0=i0, m1=None))
        return pool.add('scattersum', args, dict(n0=n0, n1=n1, maps0=maps0, maps1=maps1, terms=terms), (n0, n1), kind)

    @staticmethod
    def build(ev, kids, p, node, ctx):
        c = ev.constant
        d0 = [c(numpy.array(mp, dtype=int)) for mp in p['maps0']]     # one object per map: shared between terms
        d1 = [c(numpy.array(mp, dtype=int)) for mp in p['maps1']]
        built = []
        for k, t in zip(kids, p['terms']):
            if t['m1'] is None:
                built.append(ev.InsertAxis(ev.Inflate(k, d0[t['m0']], c(p['n0'])), c(p['n1'])))
            else:
                built.append(ev.Inflate(ev._inflate(k, d0[t['m0']], c(p['n0']), 0), d1[t['m1']], c(p['n1'])))
        while len(built) > 1:   # balanced tree
            built = [built[i] + built[i + 1] if i + 1 < len(built) else built[i] for i in range(0, len(built), 2)]
        return built[0]

    @staticmethod
    def shadow(vals, p, node, ctx):
        out = numpy.zeros((p['n0'], p['n1']), NPDT[node['kind']])
        for v, t in zip(vals, p['terms']):
            r = numpy.array(p['maps0'][t['m0']], dtype=int)
            if t['m1'] is None:
                numpy.add.at(out, r, numpy.repeat(v[:, None], p['n1'], 1))
            else:
                cidx = numpy.array(p['maps1'][t['m1']], dtype=int)
                numpy.add.at(out, (r[:, None], cidx[None, :]), v)
        return out


INT_ARCHETYPES = ['const-mixed', 'const-pos', 'const-neg', 'const-uniform', 'range', 'inrange', 'normdim', 'sign', 'abs', 'arg', 'sgnmul-l', 'sgnmul-r']
INT_BINOPS = ['mod', 'floordiv', 'min', 'max', 'mul', 'add', 'sub', 'greater', 'equal']


def _int_operand(pool, arch, n):
    rng = pool.rng
    if arch.startswith('const'):
        if arch == 'const-mixed':
            v = rng.integers(-4, 5, size=n)
        elif arch == 'const-pos':
            v = rng.integers(1, int(rng.choice([4, 6, 9])), size=n)
        elif arch == 'const-neg':
            v = -rng.integers(1, int(rng.choice([4, 6, 9])), size=n)
        else:
            v = numpy.full(n, int(rng.choice([-3, -1, 1, 2, 4])))
        return pool.view(pool.add('const', [], dict(v=encode(numpy.asarray(v, dtype=numpy.int64))), (n,), 'i'))
    if arch == 'range':
        return pool.view(pool.add('range', [], dict(offset=int(rng.integers(-2, 3))), (n,), 'i'))
    if arch in ('inrange', 'normdim'):
        k = int(rng.integers(1, 6))
        ii = Arg.gen(pool, want_kind='i', shape=(n,))
        pool.nodes[ii]['p']['range'] = [0, k] if arch == 'inrange' else [-k, k]
        return pool.view(pool.add('intops', [ii], dict(f=arch, n=k), (n,), 'i'))
    if arch.startswith('sgnmul'):
        # |x| spelled as a product with the Sign factor first / last (evaluable.abs only ever writes x * sign(x)); x of bounded or unbounded range
        x = _int_operand(pool, str(rng.choice(['arg', 'normdim', 'const-mixed', 'range'])), n)
        sg = pool.view(pool.add('unary', [x.i], dict(f='sign'), (n,), 'i'))
        return pool.view(pool.add('binary', [sg.i, x.i] if arch == 'sgnmul-l' else [x.i, sg.i], dict(f='mul'), (n,), 'i'))
    a = pool.view(Arg.gen(pool, want_kind='i', shape=(n,)))
    if arch == 'arg':
        return a
    return pool.view(pool.add('unary', [a.i], dict(f=arch), (n,), 'i'))


def intpair(rng, f, archa, archb, third=None):
    """systematic integer-range mixer: f(archetype A, archetype B), optionally consumed by a third range-sensitive op"""
    pool = Pool(rng)
    n = int(rng.integers(1, 7))
    a, b = _int_operand(pool, archa, n), _int_operand(pool, archb, n)
    cur = pool.view(pool.add('binary', [a.i, b.i], dict(f=f), (n,), BINARY[f][4] or 'i'))
    if third and cur.kind == 'i':
        c = _int_operand(pool, str(rng.choice(['const-pos', 'const-mixed', 'range'])), n)
        cur = pool.view(pool.add('binary', [cur.i, c.i] if rng.random() < .5 else [c.i, cur.i], dict(f=third), (n,), BINARY[third][4] or 'i'))
    return prune(dict(nodes=pool.nodes, outputs=[cur.i]))


# ---- loops -----------------------------------------------------------------

@op('loop_sum', 0.)
class LoopSum:
    @staticmethod
    def build(ev, kids, p, node, ctx):
        return ev.loop_sum(kids[0], kids[1])

    @staticmethod
    def shadow(vals, p, node, ctx):
        raise NotImplementedError  # handled by the evaluator


@op('loop_concat', 0.)
class LoopConcat:
    @staticmethod
    def build(ev, kids, p, node, ctx):
        return ev.loop_concatenate(kids[0], kids[1])

    @staticmethod
    def shadow(vals, p, node, ctx):
        raise NotImplementedError


@op('loopget', 0.)
class LoopGet:
    """a[..., i, ...] with i a loop index: get(arg, axis, index)"""
    @staticmethod
    def build(ev, kids, p, node, ctx):
        return ev.get(kids[0], p['axis'], kids[1])

    @staticmethod
    def shadow(vals, p, node, ctx):
        return numpy.take(vals[0], int(vals[1]), p['axis'])


@op('loopinflate', 0.)
class LoopInflate:
    """scatter a body to position (i + off) of a new axis of given length: Inflate(func, index, length)"""
    @staticmethod
    def build(ev, kids, p, node, ctx):
        idx = kids[1] + p['off'] if p['off'] else kids[1]
        return ev._inflate(kids[0], idx, ev.constant(p['length']), p['axis'])

    @staticmethod
    def shadow(vals, p, node, ctx):
        x = vals[0]
        out = numpy.zeros(x.shape[:p['axis']] + (p['length'],) + x.shape[p['axis']:], x.dtype)
        sl = [slice(None)] * out.ndim
        sl[p['axis']] = int(vals[1]) + p['off']
        out[tuple(sl)] = x
        return out


# ---------------------------------------------------------------------------
# encoding of arrays in JSON

def encode(a):
    a = numpy.asarray(a)
    if a.dtype.kind == 'c':
        return dict(k='c', s=list(a.shape), re=a.real.ravel().tolist(), im=a.imag.ravel().tolist())
    return dict(k=a.dtype.kind if a.dtype.kind in 'bif' else 'i', s=list(a.shape), v=a.ravel().tolist())


def decode(d):
    if d['k'] == 'c':
        return (numpy.array(d['re'], dtype=float) + 1j * numpy.array(d['im'], dtype=float)).reshape(d['s'])
    return numpy.array(d['v'], dtype=NPDT[d['k']]).reshape(d['s'])


# ---------------------------------------------------------------------------
# generation

def _weights(profile):
    names, w = [], []
    for name, cls in OPS.items():
        if cls.weight <= 0:
            continue
        if 'all' in cls.profiles or profile in cls.profiles:
            names.append(name)
            wt = cls.weight
            if profile == 'int' and name in ('intops',):
                wt *= 3
            if profile == 'sparse' and name in ('inflate', 'diagonalize', 'fem', 'insertaxis', 'ravel', 'unravel', 'stack', 'concat', 'scattersum'):
                wt *= 3
            w.append(wt)
    w = numpy.array(w)
    return names, w / w.sum()


def generate(rng, size=8, profile='all', nloops=None, maxdim=3, kinds=None):
    """Random growth.  Returns a case dict."""
    pool = Pool(rng, maxdim)
    names, w = _weights(profile)
    # seeds
    for _ in range(int(rng.integers(1, 4))):
        k = None
        if profile == 'int':
            k = 'i'
        elif profile == 'float':
            k = 'f'
        (Arg if rng.random() < .7 else Const).gen(pool, want_kind=k)
    if nloops is None:
        nloops = int(rng.choice([0, 0, 1, 1, 2, 3]))
    loop_plan = sorted(int(rng.integers(0, size)) for _ in range(nloops))
    steps = 0
    while steps < size:
        steps += 1
        while loop_plan and loop_plan[0] <= steps:
            loop_plan.pop(0)
            try:
                _open_loop(pool)
            except Reject:
                pass
        # close loops whose body has grown a bit
        for name in list(pool.open_loops):
            if rng.random() < .35:
                try:
                    _close_loop(pool, name)
                except Reject:
                    pass
        opname = str(rng.choice(names, p=w))
        try:
            OPS[opname].gen(pool)
        except Reject:
            continue
    for name in list(pool.open_loops):
        try:
            _close_loop(pool, name)
        except Reject:
            pass
    return finish(pool, rng)


def _open_loop(pool):
    rng = pool.rng
    length = int(rng.choice([0, 1, 2, 3, 4], p=[.04, .1, .3, .36, .2]))
    name = f'i{pool.nloops}'
    pool.nloops += 1
    if length > 0 and rng.random() < .25:
        # run-time loop length 0..length given by an integer argument (only closed by loop_sum: the shape stays static)
        ln = Arg.gen(pool, want_kind='i', shape=())
        pool.nodes[ln]['p']['range'] = [0, length + 1]
        idx = pool.add('loopindex', [ln], dict(name=name, length=length, var=True), (), 'i')
    else:
        idx = pool.add('loopindex', [], dict(name=name, length=length), (), 'i')
    pool.open_loops[name] = (length, idx)
    # make the index useful right away in one of several ways
    for _ in range(int(rng.integers(1, 3))):
        how = str(rng.choice(['get', 'float', 'inflate', 'raw']))
        try:
            if how == 'get' and length > 0:
                a = pool.pick(lambda n: n.ndim >= 1 and length in n.shape)
                axis = [i for i, s in enumerate(a.shape) if s == length]
                axis = int(rng.choice(axis))
                pool.add('loopget', [a.i, idx], dict(axis=axis), a.shape[:axis] + a.shape[axis + 1:], a.kind)
            elif how == 'float':
                k = str(rng.choice(['f', 'f', 'c']))
                ii = pool.add('astype', [idx], dict(to=k), (), k)
                try:
                    b = pool.pick(lambda n: n.kind == k)
                    pool.add('binary', [b.i, ii], dict(f=str(rng.choice(['add', 'mul', 'sub']))), b.shape, k)
                except Reject:
                    pass
            elif how == 'inflate':
                a = pool.pick(lambda n: n.ndim <= pool.maxdim)
                off = int(rng.integers(0, 2))
                L = length + off + int(rng.integers(0, 2))
                if L == 0:
                    raise Reject
                axis = int(rng.integers(0, a.ndim + 1))
                pool.add('loopinflate', [a.i, idx], dict(axis=axis, off=off, length=L), a.shape[:axis] + (L,) + a.shape[axis:], a.kind)
        except Reject:
            pass


def _close_loop(pool, name):
    rng = pool.rng
    length, idx = pool.open_loops[name]
    def inbody(n):
        return name in n.loops and n.op != 'loopindex'
    closers = int(rng.integers(1, 3))
    done = 0
    for _ in range(closers):
        try:
            body = pool.pick(inbody)
        except Reject:
            # loop-invariant or index-only body
            try:
                body = pool.pick(lambda n: not n.loops) if rng.random() < .5 else pool.view(idx)
            except Reject:
                break
        how = 'sum' if body.ndim == 0 or rng.random() < .6 or pool.nodes[idx]['p'].get('var') else 'concat'
        if how == 'sum' and body.kind == 'b':   # LoopSum refuses boolean bodies (constructor assertion)
            if body.ndim == 0 or pool.nodes[idx]['p'].get('var'):
                continue
            how = 'concat'
        if how == 'sum':
            pool.add('loop_sum', [body.i, idx], dict(name=name, length=length), body.shape, body.kind)
        else:
            pool.add('loop_concat', [body.i, idx], dict(name=name, length=length), body.shape[:-1] + (body.shape[-1] * length,), body.kind)
        done += 1
    # any remaining node that still depends on the loop can no longer be used: mark loop closed
    del pool.open_loops[name]
    pool.closed.add(name)
    if not done:
        raise Reject


def finish(pool, rng, nout=None):
    """choose outputs among nodes without free loops; prune unreachable nodes."""
    nodes = pool.nodes
    closed = [i for i, d in enumerate(nodes) if not d['loops'] and d['op'] not in ('arg',)]
    if not closed:
        closed = [i for i, d in enumerate(nodes) if not d['loops']]
    if nout is None:
        nout = int(rng.choice([1, 1, 1, 2, 3]))
    # prefer late nodes
    w = numpy.array([(1. + nodes[i]['depth']) ** 3 for i in closed])
    outs = sorted(set(int(i) for i in rng.choice(closed, size=min(nout, len(closed)), replace=False, p=w / w.sum())))
    return prune(dict(nodes=nodes, outputs=outs))


def prune(case):
    nodes = case['nodes']
    keep = set()
    stack = list(case['outputs'])
    while stack:
        i = stack.pop()
        if i in keep:
            continue
        keep.add(i)
        stack.extend(nodes[i]['args'])
    order = sorted(keep)
    remap = {old: new for new, old in enumerate(order)}
    newnodes = []
    for old in order:
        d = dict(nodes[old])
        d['args'] = [remap[a] for a in d['args']]
        newnodes.append(d)
    return dict(nodes=newnodes, outputs=[remap[o] for o in case['outputs']])


def chain(rng, opnames, kind=None):
    """Systematic mixer: Outer(Middle(Inner(leaf))) with random leaves.  Raises Reject if not constructible."""
    pool = Pool(rng)
    k = kind or str(rng.choice(list('if'), p=[.2, .8]))
    Arg.gen(pool, want_kind=k, shape=pool.shape(ndim=int(rng.integers(1, 4))))
    if rng.random() < .5:
        (Arg if rng.random() < .5 else Const).gen(pool, want_kind=k, shape=tuple(pool.nodes[0]['shape']))
    cur = pool.view(0)
    for name in opnames:
        forced = {}
        if ':' in name:
            name, sub = name.split(':', 1)
            key = {'unary': 'f', 'binary': 'f', 'take': 'style', 'inflate': 'style', 'powconst': 'e'}[name]
            forced = {key: float(sub) if name == 'powconst' else sub}
        cls = OPS[name]
        last = None
        for attempt in range(6):
            try:
                last = cls.gen(pool, a=cur, **forced)
                break
            except Reject:
                continue
            except TypeError:
                raise Reject
        if last is None:
            raise Reject
        cur = pool.view(last)
    return prune(dict(nodes=pool.nodes, outputs=[cur.i]))


def scatterchain(rng, opnames, inloop=False):
    """Systematic mixer with a scatter-sum source: Op(ScatterSum) or loop_sum_i Op((i+1)*ScatterSum)."""
    pool = Pool(rng)
    cur = pool.view(ScatterSum.gen(pool))
    Arg.gen(pool, want_kind=cur.kind, shape=cur.shape)     # dense partner for binary operations
    idx = None
    if inloop:
        length = int(rng.integers(1, 4))
        idx = pool.add('loopindex', [], dict(name='i0', length=length), (), 'i')
        pool.nloops = 1
        ii = idx if cur.kind == 'i' else pool.add('astype', [idx], dict(to=cur.kind), (), cur.kind)
        one = pool.add('const', [], dict(v=encode(numpy.array(1, dtype=NPDT[cur.kind]))), (), cur.kind)
        sc = pool.add('binary', [ii, one], dict(f='add'), (), cur.kind)
        cur = pool.view(pool.add('binary', [cur.i, sc], dict(f='mul'), cur.shape, cur.kind))
    for name in opnames:
        forced = {}
        if ':' in name:
            name, sub = name.split(':', 1)
            key = {'unary': 'f', 'binary': 'f', 'take': 'style', 'inflate': 'style', 'powconst': 'e'}[name]
            forced = {key: float(sub) if name == 'powconst' else sub}
        last = None
        for attempt in range(6):
            try:
                last = OPS[name].gen(pool, a=cur, **forced)
                break
            except Reject:
                continue
            except TypeError:
                raise Reject
        if last is None:
            raise Reject
        cur = pool.view(last)
    if inloop:
        if cur.kind == 'b' or 'i0' not in cur.loops:
            raise Reject
        cur = pool.view(pool.add('loop_sum', [cur.i, idx], dict(name='i0', length=length), cur.shape, cur.kind))
    return prune(dict(nodes=pool.nodes, outputs=[cur.i]))


def _gen_kind(pool, name, cur):
    forced = {}
    if ':' in name:
        name, sub = name.split(':', 1)
        key = {'unary': 'f', 'binary': 'f', 'take': 'style', 'inflate': 'style', 'powconst': 'e'}[name]
        forced = {key: float(sub) if name == 'powconst' else sub}
    for attempt in range(6):
        try:
            return pool.view(OPS[name].gen(pool, a=cur, **forced))
        except Reject:
            continue
        except TypeError:
            raise Reject
    raise Reject


def siblings(rng, k1, k2, f, shared=None):
    """Systematic mixer for binary rewrite rules between two results of (the same or different) operations:
    f(K1(x), K2(y)), x and y independent arguments of one shape (or the same argument when `shared`), the two operations with
    independently drawn parameters (different selectors, index maps, axes, ...).  Raises Reject if the shapes do not match."""
    for attempt in range(8):
        pool = Pool(rng)
        kind = str(rng.choice(list('if'), p=[.25, .75]))
        shape = pool.shape(ndim=int(rng.integers(1, 4)))
        a = pool.view(Arg.gen(pool, want_kind=kind, shape=shape))
        b = a if (shared if shared is not None else rng.random() < .3) else pool.view(Arg.gen(pool, want_kind=kind, shape=shape))
        try:
            x = _gen_kind(pool, k1, a)
            y = _gen_kind(pool, k2, b)
            if x.kind != y.kind or x.shape != y.shape:
                continue
            out = Binary.gen(pool, a=x, b=y, f=f)
        except Reject:
            continue
        return prune(dict(nodes=pool.nodes, outputs=[out]))
    raise Reject


def chain_kinds():
    'operator kinds incl. sub-kinds for the systematic mixer'
    kinds = []
    for name in CHAINABLE:
        if name == 'unary':
            kinds += ['unary:' + f for f in UNARY]
        elif name == 'binary':
            kinds += ['binary:' + f for f in BINARY]
        elif name == 'take':
            kinds += ['take:' + st for st in ('const', 'neg', 'mask', 'arg', 'slice', 'get', 'range')]
        elif name == 'inflate':
            kinds += ['inflate:' + st for st in ('const1', 'const0', 'const2', 'const3', 'arg1', 'perm')]
        elif name == 'powconst':
            kinds += ['powconst:' + str(e) for e in (2, 3, 4, 0, -1, -2, .5, 1.5, .25)]
        else:
            kinds.append(name)
    return kinds


CHAINABLE = ['unary', 'powconst', 'binary', 'insertaxis', 'transpose', 'sum', 'product', 'takediag', 'diagonalize', 'take', 'inflate',
             'concat', 'stack', 'ravel', 'unravel', 'choose', 'einsum', 'astype', 'detinv', 'legendre', 'polyval']


# ---------------------------------------------------------------------------
# building and evaluating

def build(case, ev=None):
    """returns (list of evaluables per node, tuple of outputs)"""
    if ev is None:
        from nutils import evaluable as ev
    built = []
    for d in case['nodes']:
        kids = [built[a] for a in d['args']]
        built.append(OPS[d['op']].build(ev, kids, d['p'], d, None))
    return built, tuple(built[o] for o in case['outputs'])


def argspecs(case):
    return [(d['p']['name'], tuple(d['shape']), d['kind'], d['p'].get('range')) for d in case['nodes'] if d['op'] == 'arg']


def draw_args(case, rng, style=None):
    vals = {}
    for name, shape, kind, rg in argspecs(case):
        if rg is not None:
            v = rng.integers(rg[0], rg[1], size=shape) if rg[1] > rg[0] else numpy.zeros(shape, int)
            if style == 'extreme' and v.size:
                v = rng.choice([rg[0], rg[1] - 1], size=shape)
            v = v.astype(numpy.int64)
        elif kind == 'b':
            v = rng.random(shape) < .5
        elif kind == 'i':
            v = rng.integers(-3, 4, size=shape).astype(numpy.int64)
        elif kind == 'f':
            st = style or str(rng.choice(['normal', 'pos', 'mixed']))
            if st == 'pos':
                v = rng.uniform(.3, 2., size=shape)
            elif st == 'mixed':
                v = rng.uniform(.3, 2., size=shape) * rng.choice([-1., 1.], size=shape)
            else:
                v = rng.normal(size=shape)
            v = numpy.asarray(v, dtype=float)
        else:
            v = rng.normal(size=shape) + 1j * rng.normal(size=shape)
        vals[name] = numpy.asarray(v, dtype=NPDT[kind]).reshape(shape)
    return vals


def shadow(case, argvals, want_nodes=False, trace=None, kink=0.):
    """Evaluate the numpy meaning.  Returns list of output arrays (and optionally per-node values keyed by (node, env))."""
    nodes = case['nodes']
    memo = {}
    allvals = {}
    scale = [1.]

    def val(i, env):
        d = nodes[i]
        key = (i, tuple((k, env[k]) for k in d['loops']))
        if key in memo:
            return memo[key]
        o = d['op']
        if o in ('loop_sum', 'loop_concat'):
            name, L = d['p']['name'], d['p']['length']
            idxnode = nodes[d['args'][1]]
            if idxnode['args']:   # run-time length
                L = int(val(idxnode['args'][0], env))
                if not 0 <= L <= idxnode['p']['length']:
                    raise OutOfDomain('loop length out of range')
            body = d['args'][0]
            parts = [val(body, {**env, name: k}) for k in range(L)]
            if L == 0 and idxnode['p']['length'] > 0:
                # the body is not executed, but its loop-invariant parts are (outside the loop): they must be in the domain too
                val(body, {**env, name: 0})
            if o == 'loop_sum':
                if L == 0:
                    r = numpy.zeros(d['shape'], NPDT[d['kind']])
                elif d['kind'] == 'b':
                    r = numpy.logical_or.reduce(parts)
                else:
                    r = numpy.add.reduce(parts)
            else:
                r = numpy.concatenate(parts, -1) if L else numpy.zeros(d['shape'], NPDT[d['kind']])
        else:
            kids = [val(a, env) for a in d['args']]
            r = OPS[o].shadow(kids, d['p'], d, dict(args=argvals, env=env, trace=trace, kink=kink))
        r = _check(numpy.asarray(r))
        if r.dtype != NPDT[d['kind']]:
            if r.dtype.kind != numpy.dtype(NPDT[d['kind']]).kind:
                raise AssertionError(f"shadow self-check: node {i} {o} produced dtype {r.dtype}, declared kind {d['kind']}")
            r = r.astype(NPDT[d['kind']])
        if tuple(r.shape) != tuple(d['shape']):
            raise AssertionError(f"shadow self-check: node {i} {o} produced shape {r.shape}, declared {d['shape']}")
        if r.size and r.dtype.kind in 'fc':
            scale[0] = max(scale[0], float(numpy.abs(r).max()))
        memo[key] = r
        if want_nodes:
            allvals[key] = r
        return r

    outs = [val(o, {}) for o in case['outputs']]
    if want_nodes:
        return outs, allvals, scale[0]
    return outs, scale[0]


def in_domain_args(case, rng, tries=12):
    """Draw argument values until the shadow accepts them.  Returns (argvals, outs, scale) or None."""
    for t in range(tries):
        style = None if t < 6 else 'pos'
        av = draw_args(case, rng, style)
        try:
            outs, scale = shadow(case, av)
        except OutOfDomain:
            continue
        return av, outs, scale
    return None


# ---------------------------------------------------------------------------
# descriptions

def describe(case):
    lines = []
    for i, d in enumerate(case['nodes']):
        p = {k: v for k, v in d['p'].items() if k not in ('v', 'dof')}
        if 'v' in d['p']:
            p['v'] = numpy.array2string(decode(d['p']['v']), threshold=12, precision=3).replace('\n', '')
        if 'dof' in d['p']:
            p['dof'] = decode(d['p']['dof']).tolist()
        if 'dofs' in d['p']:
            p['dofs'] = [decode(x).tolist() for x in d['p']['dofs']]
            p['blocks'] = [numpy.array2string(decode(x), precision=2).replace('\n', '') for x in d['p']['blocks']]
        lines.append(f"n{i} = {d['op']}({', '.join('n%d' % a for a in d['args'])}{', ' if d['args'] and p else ''}{p if p else ''}) :: {d['kind']}{tuple(d['shape'])}" + (f" loops={d['loops']}" if d['loops'] else ''))
    lines.append('outputs: ' + ', '.join('n%d' % o for o in case['outputs']))
    return '\n'.join(lines)


def skeleton(case):
    """operator skeleton of the case, for distinctness and classification"""
    def sk(i, depth=0):
        d = case['nodes'][i]
        name = d['op']
        if name in ('unary', 'binary', 'realimag', 'detinv', 'intops'):
            name = d['p']['f']
        elif name == 'take':
            name = 'take:' + d['p']['style']
        elif name == 'inflate':
            name = 'inflate:' + d['p']['style']
        elif name == 'powconst':
            name = f"pow[{d['p']['e']}{d['p']['via'][0]}]"
        if not d['args'] or depth > 12:
            return name
        return name + '(' + ','.join(sk(a, depth + 1) for a in d['args']) + ')'
    return ';'.join(sk(o) for o in case['outputs'])


def case_hash(case):
    return hashlib.sha1(json.dumps(case, sort_keys=True).encode()).hexdigest()[:16]


def ninner(case):
    return sum(1 for d in case['nodes'] if d['args'])


def self_test():
    """shadow identities checked against plain numpy before any nutils import"""
    rng = numpy.random.default_rng(0)
    x = rng.normal(size=(3, 2, 3))
    d = TakeDiag.shadow([x], dict(axis=0, rmaxis=2), None, None)
    assert d.shape == (3, 2) and numpy.allclose(d, numpy.einsum('iji->ij', x))
    d = TakeDiag.shadow([x], dict(axis=2, rmaxis=0), None, None)
    assert d.shape == (2, 3) and numpy.allclose(d, numpy.einsum('iji->ji', x))
    y = rng.normal(size=(2, 3))
    for axis in range(2):
        for newaxis in range(3):
            g = Diagonalize.shadow([y], dict(axis=axis, newaxis=newaxis), None, None)
            pos = axis + (axis >= newaxis)
            assert g.shape[newaxis] == g.shape[pos] == y.shape[axis]
            back = numpy.moveaxis(numpy.diagonal(g, axis1=pos, axis2=newaxis), -1, axis)
            assert numpy.allclose(back, y), (axis, newaxis)
            assert numpy.count_nonzero(g) == numpy.count_nonzero(y)
    z = Inflate.shadow([numpy.array([[1., 2., 3.]])], dict(axis=1, nd=1, length=4, style='const1', dof=encode(numpy.array([0, 0, 3]))), None, None)
    assert (z == [[3., 0., 0., 3.]]).all()
    return True
