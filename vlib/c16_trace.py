"""C16 instruments: traced shared memory + traced locks, claim log, schedule
perturbation (start barrier + jitter) and fault injection for nutils' fork-based
parallelism.  Everything attaches by rebinding attributes from the harness; the
repository is not edited:

* ``nutils.parallel.shempty``        -> traced allocator (ndarray subclass logging writes)
* ``nutils._util.function``          -> swaps the ``multiprocessing`` entry of the generated
                                        function's globals for a proxy whose ``Lock()`` is traced
* ``nutils.parallel.multiprocessing``-> proxy: traced ``Lock`` for ``parallel.range`` and a
                                        ``RawValue`` that yields between read and write
* ``nutils.parallel.range.__init__/__next__`` -> claim log, start barrier, jitter, fault injection
* ``nutils.parallel.os``             -> proxy recording forked pids (to audit join / reap children)

All cross-process monitor state is an O_APPEND file written with single
``os.write`` calls (one text line per event).
"""

import os, sys, time, mmap, signal, random, weakref
import multiprocessing as _mp
import numpy

_REAL_LOCK = _mp.Lock
_REAL_RAWVALUE = _mp.RawValue


class S:
    """Process-global tracer state (copied into children by fork)."""
    installed = False
    fd = -1                 # event log; <0: tracing off
    parent = os.getpid()
    perturb = False
    pseed = 0
    jitter_us = 200
    barrier_ms = 1500       # cap only; the barrier opens as soon as every expected worker has arrived
    parent_delay_us = 0
    fault = None            # dict(kind='raise'|'kill'|'kill_before'|'raise_parent', at=k, flag=path)
    held = []               # ids of traced locks held by this process
    active = set()          # range ids this process is currently iterating
    narr = 0
    nlock = 0
    nrange = 0
    nval = 0
    children = []           # pids forked by this (parent) process during the run
    arrays = []             # (aid, weakref) of traced arrays allocated during the run
    scripts = []            # generated scripts seen during the run
    rng = random.Random(0)
    rng_pid = None
    orig = {}


def _log(line):
    if S.fd >= 0:
        os.write(S.fd, (line + '\n').encode())


def _spin(us):
    if us <= 0:
        return
    t1 = time.perf_counter_ns() + int(us * 1000)
    while time.perf_counter_ns() < t1:
        pass


def _jitter():
    """0..jitter_us busy-wait, random per process (reseeded after fork)."""
    if not S.perturb:
        return
    pid = os.getpid()
    if S.rng_pid != pid:
        S.rng_pid = pid
        S.rng = random.Random(hash((S.pseed, pid - S.parent)))
    r = S.rng.random()
    if r < .3:
        return
    if r > .98:
        os.sched_yield()             # now and then give the cpu away
    # busy-wait rather than sleep: on a saturated machine a sleeping process pays milliseconds of
    # wake-up latency per jitter point, a spinning one pays what it asked for
    _spin(S.rng.random() * S.jitter_us)


# ------------------------------------------------------------------ locks

class TracedLock:

    def __init__(self, site):
        self._l = _REAL_LOCK()
        self.lid = S.nlock
        S.nlock += 1
        _log(f'L {self.lid} {os.getpid()} {site}')

    def acquire(self, *args, **kwargs):
        _jitter()
        ok = self._l.acquire(*args, **kwargs)
        if ok:
            S.held.append(self.lid)
            _log(f'a {self.lid} {os.getpid()}')
        return ok

    def release(self):
        _log(f'r {self.lid} {os.getpid()}')
        try:
            S.held.remove(self.lid)
        except ValueError:
            pass
        self._l.release()
        _jitter()

    def __enter__(self):
        return self.acquire()

    def __exit__(self, *exc):
        self.release()


class JitterValue:
    """RawValue proxy: logs accesses with the held lockset and yields between read and write."""

    def __init__(self, real):
        self._r = real
        self.vid = S.nval
        S.nval += 1
        _log(f'V {self.vid} {os.getpid()}')

    @property
    def value(self):
        v = self._r.value
        _log(f'vr {self.vid} {os.getpid()} {",".join(map(str, S.held)) or "-"}')
        _jitter()
        return v

    @value.setter
    def value(self, x):
        _log(f'vw {self.vid} {os.getpid()} {",".join(map(str, S.held)) or "-"}')
        self._r.value = x


class MPProxy:

    def __init__(self, site):
        self._site = site

    def Lock(self):
        return TracedLock(self._site)

    def RawValue(self, *args):
        return JitterValue(_REAL_RAWVALUE(*args))

    def __getattr__(self, name):
        return getattr(_mp, name)


class OsProxy:

    def fork(self):
        pid = os.fork()
        if pid:
            S.children.append(pid)
            _log(f'f {os.getpid()} {pid}')
        return pid

    def __getattr__(self, name):
        return getattr(os, name)


# ------------------------------------------------------------------ traced arrays

def _plain(a):
    return a.view(numpy.ndarray) if isinstance(a, TArr) else a


def _tagged(a):
    return isinstance(a, TArr) and a._c16 is not None


def _logw(a, op, key=None):
    S_active = bool(S.active)
    line = f'w {a._c16} {os.getpid()} {op} {",".join(map(str, S.held)) or "-"} {int(S_active)}'
    if key is not None:
        line += f' {key}'
    _log(line)


class TArr(numpy.ndarray):
    """ndarray that logs every write reaching the traced (shared) buffer."""

    _c16 = None

    def __array_finalize__(self, obj):
        tag = None
        if isinstance(obj, TArr) and obj._c16 is not None:
            try:
                if numpy.may_share_memory(numpy.ndarray.view(self, numpy.ndarray), numpy.ndarray.view(obj, numpy.ndarray)):
                    tag = obj._c16
            except Exception:
                tag = obj._c16
        self._c16 = tag

    def __array_ufunc__(self, ufunc, method, *inputs, out=None, **kwargs):
        targets = ()
        if out is not None:
            targets = out
        elif method == 'at':
            targets = inputs[:1]
        for t in targets:
            if _tagged(t):
                _logw(t, ufunc.__name__ + ('' if method == '__call__' else '.' + method))
        plain = tuple(_plain(i) for i in inputs)
        if out is not None:
            kwargs['out'] = tuple(_plain(o) for o in out)
        res = getattr(ufunc, method)(*plain, **kwargs)
        if out is not None:
            return out[0] if len(out) == 1 else out
        return res

    def __array_function__(self, func, types, args, kwargs):
        name = getattr(func, '__name__', '')
        if name in ('may_share_memory', 'shares_memory'):
            return func(*[_plain(a) for a in args], **kwargs)
        if name in ('copyto', 'put', 'place', 'putmask', 'fill_diagonal', 'put_along_axis'):
            dst = args[0] if args else kwargs.get('dst', kwargs.get('a'))
            if _tagged(dst):
                _logw(dst, name)
        o = kwargs.get('out')
        if o is not None:
            for t in (o if isinstance(o, tuple) else (o,)):
                if _tagged(t):
                    _logw(t, name + '.out')
        r = super().__array_function__(func, types, args, kwargs)
        if isinstance(r, numpy.ndarray) and not _tagged(r):
            # views created by C routines (einsum '...ii->...i') drop the subclass: re-tag
            stack = list(args)
            while stack:
                x = stack.pop()
                if isinstance(x, (tuple, list)):
                    stack.extend(x)
                elif _tagged(x) and numpy.may_share_memory(_plain(r), _plain(x)):
                    tag = x._c16
                    r = r.view(TArr)
                    r._c16 = tag
                    break
        return r

    def __setitem__(self, key, value):
        if self._c16 is not None:
            k = None
            if isinstance(key, (int, numpy.integer)):
                k = int(key)
            _logw(self, 'setitem', k)
        numpy.ndarray.__setitem__(self, key, value)

    def fill(self, value):
        if self._c16 is not None:
            _logw(self, 'fill')
        numpy.ndarray.fill(self, value)

    def sort(self, *args, **kwargs):
        if self._c16 is not None:
            _logw(self, 'sort')
        numpy.ndarray.sort(self, *args, **kwargs)

    def partition(self, *args, **kwargs):
        if self._c16 is not None:
            _logw(self, 'partition')
        numpy.ndarray.partition(self, *args, **kwargs)

    def put(self, *args, **kwargs):
        if self._c16 is not None:
            _logw(self, 'put')
        numpy.ndarray.put(self, *args, **kwargs)


def _root(a):
    while isinstance(a, numpy.ndarray) and a.base is not None:
        a = a.base
    if isinstance(a, memoryview):
        a = a.obj
    return a


def traced_shempty(shape, dtype=float):
    arr = S.orig['shempty'](shape, dtype)
    if S.fd < 0 or arr.size == 0:
        return arr
    shared = isinstance(_root(arr), mmap.mmap)
    f = sys._getframe(1)
    if f.f_code.co_name == 'shzeros':
        f = f.f_back
    fn = os.path.basename(f.f_code.co_filename)
    site = 'gen' if fn.startswith('function_') else fn
    t = arr.view(TArr)
    t._c16 = aid = S.narr
    S.narr += 1
    S.arrays.append((aid, weakref.ref(t)))
    _log(f'A {aid} {os.getpid()} {int(shared)} {site} {arr.nbytes} {arr.dtype.str} {"x".join(map(str, arr.shape)) or "-"}')
    return t


# ------------------------------------------------------------------ util.function / range wrappers

_ARRAY_MP = MPProxy('array')


def traced_function(script, globals={}):
    g = dict(globals)
    if S.fd >= 0:
        if 'multiprocessing' in g:
            g['multiprocessing'] = _ARRAY_MP
        S.scripts.append(script)
    return S.orig['function'](script, g)


class InjectedFault(RuntimeError):
    pass


def _range_init(self, stop):
    S.orig['range_init'](self, stop)
    self._c16_rid = f'{os.getpid()}.{S.nrange}'   # unique also for ranges created inside forked workers
    S.nrange += 1
    self._c16_me = None
    self._c16_arrived = _REAL_RAWVALUE('i', 0)
    self._c16_block = _REAL_LOCK()
    from nutils import parallel
    try:
        n = int(stop)
    except Exception:
        n = 0
    self._c16_expected = max(1, min(n, parallel.maxprocs.current))
    _log(f'R {self._c16_rid} {os.getpid()} {n} {self._c16_expected}')


def _victim(flag):
    """Atomically elect a single victim across processes."""
    try:
        os.close(os.open(flag, os.O_CREAT | os.O_EXCL | os.O_WRONLY))
        return True
    except FileExistsError:
        return False


def _peek(rng):
    v = rng._index
    return (v._r if isinstance(v, JitterValue) else v).value


def _range_next(self):
    pid = os.getpid()
    rid = getattr(self, '_c16_rid', -1)
    if S.perturb:
        if self._c16_me != pid:
            self._c16_me = pid
            with self._c16_block:
                self._c16_arrived.value += 1
                arrived = self._c16_arrived.value
            t0 = time.perf_counter()
            cap = S.barrier_ms / 1000
            while self._c16_arrived.value < self._c16_expected and time.perf_counter() - t0 < cap:
                time.sleep(0.0001)
            _log(f'b {rid} {pid} {arrived} {self._c16_arrived.value} {int((time.perf_counter() - t0) * 1e6)}')
        _jitter()
        if pid == S.parent and S.parent_delay_us:
            time.sleep(S.parent_delay_us / 1e6)
    fault = S.fault
    if fault and fault['kind'] == 'kill_before' and pid != S.parent and not S.held and _peek(self) >= fault['at'] and _victim(fault['flag']):
        _log(f'F {pid} kill_before {rid} {_peek(self)}')
        os.kill(pid, signal.SIGKILL)
        time.sleep(10)
    try:
        i = S.orig['range_next'](self)
    except StopIteration:
        S.active.discard(rid)
        _log(f's {rid} {pid}')
        raise
    S.active.add(rid)
    _log(f'c {rid} {pid} {i}')
    if fault and i >= fault['at']:
        kind = fault['kind']
        if kind in ('raise', 'kill') and pid != S.parent and not S.held and _victim(fault['flag']):
            _log(f'F {pid} {kind} {rid} {i}')
            if kind == 'kill':
                os.kill(pid, signal.SIGKILL)
                time.sleep(10)
            raise InjectedFault(f'injected failure in worker at iteration {i}')
        if kind == 'raise_parent' and pid == S.parent and _victim(fault['flag']):
            _log(f'F {pid} {kind} {rid} {i}')
            raise InjectedFault(f'injected failure in parent at iteration {i}')
    return i


# ------------------------------------------------------------------ install / run protocol

def install():
    if S.installed:
        return
    from nutils import parallel, _util
    S.parent = os.getpid()
    S.orig.update(shempty=parallel.shempty, function=_util.function, range_init=parallel.range.__init__,
                  range_next=parallel.range.__next__)
    parallel.shempty = traced_shempty
    _util.function = traced_function
    parallel.range.__init__ = _range_init
    parallel.range.__next__ = _range_next
    parallel.multiprocessing = MPProxy('range')
    parallel.os = OsProxy()
    S.installed = True


def begin_run(logpath, pseed=0, perturb=True, fault=None, parent_delay_us=0, jitter_us=200, barrier_ms=1500):
    install()
    S.parent = os.getpid()
    S.fd = os.open(logpath, os.O_WRONLY | os.O_CREAT | os.O_TRUNC | os.O_APPEND, 0o600)
    S.perturb, S.pseed, S.fault, S.parent_delay_us = perturb, pseed, fault, parent_delay_us
    S.jitter_us, S.barrier_ms = jitter_us, barrier_ms
    S.held = []
    S.active = set()
    S.narr = S.nlock = S.nrange = S.nval = 0
    S.children = []
    S.arrays = []
    S.scripts = []
    S.rng_pid = None


def end_run(returned_normally):
    """Stops tracing, audits the join, reaps every forked child, returns info."""
    fd, S.fd = S.fd, -1
    S.perturb = False
    S.fault = None
    unreaped = []
    for pid in S.children:
        try:
            p, status = os.waitpid(pid, os.WNOHANG)
        except ChildProcessError:
            continue  # properly waited for by nutils
        unreaped.append(pid)
        if p == 0:  # still running
            if returned_normally:
                # give it a moment to finish on its own so that we can tell "slow" from "stuck"
                t0 = time.time()
                while time.time() - t0 < 1.0:
                    p, status = os.waitpid(pid, os.WNOHANG)
                    if p:
                        break
                    time.sleep(0.005)
            if p == 0:
                try:
                    os.kill(pid, signal.SIGKILL)
                except ProcessLookupError:
                    pass
                try:
                    os.waitpid(pid, 0)
                except ChildProcessError:
                    pass
    os.close(fd)
    nonzero = {}
    for aid, ref in S.arrays:
        arr = ref()
        if arr is not None:
            try:
                nonzero[aid] = bool(_plain(arr).any())
            except Exception:
                pass
    info = dict(unreaped=unreaped, nchildren=len(S.children), scripts=S.scripts, nonzero=nonzero)
    S.children, S.arrays, S.scripts = [], [], []
    return info


def read_events(logpath):
    with open(logpath, 'rb') as f:
        data = f.read()
    return [l.split(' ') for l in data.decode().split('\n') if l]
