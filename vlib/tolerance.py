"""Float comparison policy (DESIGN 1.4): pass / marginal / violation bands."""
import numpy

PASS, MARGINAL, VIOLATION = 'pass', 'marginal', 'violation'
KIND = {'b': 'b', 'i': 'i', 'u': 'i', 'f': 'f', 'c': 'c'}


def kind(a):
    return KIND.get(numpy.asarray(a).dtype.kind, '?')


def compare(obs, ref, scale=1., rtol_pass=1e-9, rtol_viol=1e-5, check_kind=True):
    """Returns (verdict, detail)."""
    obs = numpy.asarray(obs)
    ref = numpy.asarray(ref)
    if obs.shape != ref.shape:
        return VIOLATION, f'shape {obs.shape} != expected {ref.shape}'
    if check_kind and kind(obs) != kind(ref):
        return VIOLATION, f'dtype kind {obs.dtype} != expected kind of {ref.dtype}'
    if ref.size == 0:
        return PASS, ''
    if kind(ref) in 'bi':
        if (obs == ref).all():
            return PASS, ''
        n = int((obs != ref).sum())
        return VIOLATION, f'{n}/{ref.size} entries differ (exact), e.g. obs={obs.ravel()[(obs != ref).ravel()][:3]} ref={ref.ravel()[(obs != ref).ravel()][:3]}'
    if not numpy.isfinite(obs).all():
        if numpy.isfinite(ref).all():
            return VIOLATION, 'non-finite entries in result where reference is finite'
    s = max(1., float(scale), float(numpy.max(numpy.abs(ref))) if numpy.isfinite(ref).all() else 1.)
    with numpy.errstate(all='ignore'):
        err = float(numpy.max(numpy.abs(obs - ref)))
    if not err <= rtol_viol * s:
        return VIOLATION, f'max abs err {err:.3e} at scale {s:.3e}'
    if err <= rtol_pass * s:
        return PASS, ''
    return MARGINAL, f'max abs err {err:.3e} at scale {s:.3e}'
