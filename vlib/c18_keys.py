"""C18 key sequences: many calls with nearly-colliding arguments share ONE cache
directory; every call must return what the uncached call returns (a key
collision between different arguments would hand out somebody else's entry).
Arguments stay within what nutils_hash documents as hashable; numpy scalars
are left out (documented to hash like their Python counterparts).
"""
import numpy
from nutils import cache
from vlib import c18_lib as L

STATE = dict(n=0)


def executions():
    return STATE['n']


@cache.function
def f_echo(a, *args, **kwargs):
    STATE['n'] += 1
    return ['echo', L.canon(a), [L.canon(x) for x in args], L.canon(kwargs)]


@cache.function
def f_echo2(a, b=1, *, c=None):
    STATE['n'] += 1
    return ['echo2', L.canon(a), L.canon(b), L.canon(c)]


@cache.function(version=1)
def f_echo3(a, b=1, *, c=None):
    STATE['n'] += 1
    return ['echo3', L.canon(a), L.canon(b), L.canon(c)]


_A = numpy.arange(6.)
POOL = [1, 1.0, True, '1', b'1', (1,), [1], {1}, frozenset([1]), {'1': 1}, {1: '1'}, 0, 0.0, -0.0, False, None, '', b'', (), [], {}, float('nan'),
        float('inf'), 1 + 0j, 2**64, -1, (1, (2,)), ((1, 2),), (1, 2), [1, [2]], [1, 2], 'a', 'b', ('a', 'b'), 'ab', ('ab',), Ellipsis, 1e-3, '0.001',
        {'a': 1, 'b': 2}, {'a': 2, 'b': 1}, {'b': 2, 'a': 1},
        _A.reshape(2, 3), _A.reshape(3, 2), _A, numpy.arange(6), numpy.arange(6, dtype='int32'), numpy.asfortranarray(_A.reshape(2, 3)),
        numpy.zeros(3), numpy.zeros((3, 1)), numpy.array(1.), numpy.array([1.]), numpy.array([True, False]), numpy.array([1, 0]), _A.reshape(2, 3).T]
NAMES = ['b', 'c', 'x', 'y', 'a1']


def gen_calls(rng, n):
    calls = []
    for _ in range(n):
        fn = ['echo', 'echo', 'echo2', 'echo3'][int(rng.integers(0, 4))]
        pick = lambda: int(rng.integers(0, len(POOL)))
        if calls and rng.random() < .3:
            calls.append(dict(calls[int(rng.integers(0, len(calls)))]))     # repeat an earlier call: a hit
            continue
        if fn == 'echo':
            c = dict(fn=fn, a=pick(), args=[pick() for _ in range(int(rng.integers(0, 3)))],
                     kwargs={NAMES[int(i)]: pick() for i in rng.choice(len(NAMES), int(rng.integers(0, 3)), replace=False)})
        else:
            style = int(rng.integers(0, 4))
            c = dict(fn=fn, a=pick(), style=style, b=pick() if rng.random() < .6 else 0, c=pick() if rng.random() < .5 else 15)
        calls.append(c)
    return calls


def make_call(c):
    if c['fn'] == 'echo':
        return lambda: f_echo(POOL[c['a']], *[POOL[i] for i in c['args']], **{k: POOL[i] for k, i in c['kwargs'].items()})
    f = f_echo2 if c['fn'] == 'echo2' else f_echo3
    a, b, cc = POOL[c['a']], POOL[c['b']], POOL[c['c']]
    default_b, default_c = c['b'] == 0, c['c'] == 15      # POOL[0] == 1 and POOL[15] is None are the defaults
    style = c['style']
    if style == 0:
        return lambda: f(a, b, c=cc)
    if style == 1:
        return lambda: f(a=a, b=b, c=cc)
    if style == 2 and default_c:
        return lambda: f(a, b)
    if style == 3 and default_b and default_c:
        return lambda: f(a)
    return lambda: f(a, c=cc, b=b)
