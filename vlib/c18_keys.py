"""C18 key sequences: many calls with nearly-colliding arguments share ONE cache
directory; every call must return what the uncached call returns (a key
collision between different arguments would hand out somebody else's entry).
Arguments stay within what nutils_hash documents as hashable; numpy scalars
are left out (documented to hash like their Python counterparts).
"""
import numpy
from nutils import cache
from vlib import c18_lib as L

STATE = dict(n=0)


def executions():
    return STATE['n']


@cache.function
def f_echo(a, *args, **kwargs):
    STATE['n'] += 1
    return ['echo', L.canon(a), [L.canon(x) for x in args], L.canon(kwargs)]


@cache.function
def f_echo2(a, b=1, *, c=None):
    STATE['n'] += 1
    return ['echo2', L.canon(a), L.canon(b), L.canon(c)]


@cache.function(version=1)
def f_echo3(a, b=1, *, c=None):
    STATE['n'] += 1
    return ['echo3', L.canon(a), L.canon(b), L.canon(c)]


_A = numpy.arange(6.)
POOL = [1, 1.0, True, '1', b'1', (1,), [1], {1}, frozenset([1]), {'1': 1}, {1: '1'}, 0, 0.0, -0.0, False, None, '', b'', (), [], {}, float('nan'),
        float('inf'), 1 + 0j, 2**64, -1, (1, (2,)), ((1, 2),), (1, 2), [1, [2]], [1, 2], 'a', 'b', ('a', 'b'), 'ab', ('ab',), Ellipsis, 1e-3, '0.001',
        {'a': 1, 'b': 2}, {'a': 2, 'b': 1}, {'b': 2, 'a': 1},
        _A.reshape(2, 3), _A.reshape(3, 2), _A, numpy.arange(6), numpy.arange(6, dtype='int32'), numpy.asfortranarray(_A.reshape(2, 3)),
        numpy.zeros(3), numpy.zeros((3, 1)), numpy.array(1.), numpy.array([1.]), numpy.array([True, False]), numpy.array([1, 0]), _A.reshape(2, 3).T]
NAMES = ['b', 'c', 'x', 'y', 'a1']


def gen_calls(rng, n):
    calls = []
    for _ in range(n):
        fn = ['echo', 'echo', 'echo2', 'echo3'][int(rng.integers(0, 4))]
        pick = lambda: int(rng.integers(0, len(POOL)))
        if calls and rng.random() < .3:
            calls.append(dict(calls[int(rng.integers(0, len(calls)))]))     # repeat an earlier call: a hit
            continue
        if fn == 'echo':
            c = dict(fn=fn, a=pick(), args=[pick() for _ in range(int(rng.integers(0, 3)))],
                     kwargs={NAMES[int(i)]: pick() for i in rng.choice(len(NAMES), int(rng.integers(0, 3)), replace=False)})
        else:
            style = int(rng.integers(0, 4))
            c = dict(fn=fn, a=pick(), style=style, b=pick() if rng.random() < .6 else 0, c=pick() if rng.random() < .5 else 15)
        calls.append(c)
    return calls


def make_call(c):
    if c['fn'] == 'echo':
        return lambda: f_echo(POOL[c['a']], *[POOL[i] for i in c['args']], **{k: POOL[i] for k, i in c['kwargs'].items()})
    f = f_echo2 if c['fn'] == 'echo2' else f_echo3
    a, b, cc = POOL[c['a']], POOL[c['b']], POOL[c['c']]
    default_b, default_c = c['b'] == 0, c['c'] == 15      # POOL[0] == 1 and POOL[15] is None are the defaults
    style = c['style']
    if style == 0:
        return lambda: f(a, b, c=cc)
    if style == 1:
        return lambda: f(a=a, b=b, c=cc)
    if style == 2 and default_c:
        return lambda: f(a, b)
    if style == 3 and default_b and default_c:
        return lambda: f(a)
    return lambda: f(a, c=cc, b=b)


# ---------------------------------------------------------------- arrays that differ only in memory layout

@cache.function
def f_arr(a, tag=0):
    """value and log both depend on the LOGICAL content of the array argument"""
    import treelog
    STATE['n'] += 1
    c = L.canon(a)
    w = numpy.arange(1, a.size + 1).reshape(a.shape) if a.dtype.kind in 'biuf' and a.size else None
    treelog.info('array argument {} {} {}'.format(c[1], c[2], c[3]))
    return ['arr', c, tag, None if w is None else float(numpy.sum(numpy.asarray(a, dtype=float) * w))]


def layout_families(rng):
    """lists of arrays; inside a family members share bytes / values / shapes in every combination:
    same memory image but other logical order (A vs A.T, (2,3,2) vs transpose(2,1,0)), same logical array in another
    layout (C vs Fortran copy, strided view, symmetric matrix vs its transpose), same bytes but other shape or dtype,
    byte-swapped dtype with equal values"""
    fams = []
    n = int(rng.integers(2, 5))
    A = rng.integers(-9, 10, size=(n, n)).astype(['float64', 'int64', 'float32', 'complex128'][int(rng.integers(0, 4))])
    if (A == A.T).all():
        A[0, -1] += 1
    S = A + A.T
    fams.append([A, A.T, numpy.asfortranarray(A), numpy.asfortranarray(A.T), numpy.ascontiguousarray(A.T), A[::-1], A[:, ::-1], A[::-1, ::-1].T,
                 S, S.T, numpy.asfortranarray(S), A.ravel(), A.T.ravel(), A.reshape(1, n * n), A.reshape(n * n, 1), A.reshape(n, n, 1), A.T.reshape(1, n, n)])
    p, q = int(rng.integers(2, 4)), int(rng.integers(2, 5))
    B = rng.normal(size=(p, q, p))
    fams.append([B, B.transpose(2, 1, 0), numpy.asfortranarray(B), numpy.asfortranarray(B.transpose(2, 1, 0)), B.transpose(0, 1, 2).copy(),
                 B.swapaxes(0, 2).copy(), B.reshape(p * q, p), B.reshape(p, q * p), B.reshape(p * q, p).T, B.ravel()])
    C = rng.integers(0, 100, size=(2, 3))
    big = numpy.zeros((4, 6), dtype=C.dtype)
    big[::2, ::2] = C
    fams.append([C, C.T, C.reshape(3, 2), C.reshape(3, 2).T, numpy.asfortranarray(C), numpy.asfortranarray(C.reshape(3, 2)), big[::2, ::2], big[::2, ::2].T,
                 numpy.concatenate([C.ravel(), C.ravel()])[:6], numpy.stack([C.ravel(), C.ravel()], 1)[:, 0], C.ravel(), C.ravel()[::-1],
                 C.astype('>i8'), C.astype('>i8').T, C.astype('<i4'), C.astype('>i4'), C.astype(float), C.astype('>f8'), C.view('uint64'), C.astype('int64').view('float64')])
    D = rng.random(size=(1, 4)) < .5
    fams.append([D, D.T, D.reshape(4), D.reshape(2, 2), D.reshape(2, 2).T, D.astype('int8'), D.astype('uint8'), D.astype('int8').T,
                 numpy.array(True), numpy.array([True]), numpy.array([[True]]), numpy.array(1), numpy.array([1]), numpy.zeros((0, 3)), numpy.zeros((3, 0)), numpy.zeros((0,))])
    return fams


def same_image_other_meaning(a, b):
    """the pair a regression keyed on the memory image would confuse"""
    return a.shape == b.shape and a.dtype == b.dtype and a.tobytes('A') == b.tobytes('A') and L.canon(a) != L.canon(b)
