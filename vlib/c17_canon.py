"""C17 — independent canonicaliser: decides when two values "can behave differently".

``canon(v)`` returns a 16-byte digest of a recursive, type- and module-qualified,
dtype/shape/element-aware description of ``v``.  It is written against the public
structure of the values (python containers, numpy elements, the pickle protocol
``__reduce__`` of nutils objects, dataclass fields), never against
``nutils.types.nutils_hash``.  Two values with equal digests are structurally equal;
two values with different digests are considered able to behave differently, EXCEPT
for the identifications that nutils makes deliberately and that the canonicaliser
therefore makes too:

* a numpy bool/int/float/complex scalar is the python scalar of the same value
  (``nutils_hash`` docstring: "normalize Numpy's scalar types ... similar to Python's
  builtin hash");
* ``arraydata`` is its kind (bool/int/float/complex), shape and element values — not
  the width or signedness of the array it was built from (documented canonicalisation);
* dict / set / frozenset / frozendict / frozenmultiset are unordered;
* all NaNs are one value;
* a ``hashable_function`` is its identifier (documented: "a Nutils hash based solely on
  the given identifier").

Whenever the canonicaliser cannot tell (unknown object type, void/object dtype,
long-double precision loss ...) it raises :class:`Unclassified`; such values are left
out of every verdict and counted.
"""

import dataclasses, hashlib, io, struct, sys, types as pytypes
import numpy

sys.setrecursionlimit(max(sys.getrecursionlimit(), 20000))


class Unclassified(Exception):
    pass


def _h(tag, *parts):
    h = hashlib.blake2b(digest_size=16)
    h.update(tag.encode())
    h.update(b'\0')
    for p in parts:
        h.update(len(p).to_bytes(8, 'little'))
        h.update(p)
    return h.digest()


def _fbytes(x):
    return b'nan' if x != x else struct.pack('<d', x)


# registry: id(hashable_function wrapper) -> (wrapper, identifier); filled by the corpus builder
class _Registry(dict):
    """id(wrapper) -> (wrapper, identifier); permanent entries survive forget()."""

    def __init__(self):
        self.permanent = {}

    def __missing__(self, key):
        return self.permanent[key]

    def __contains__(self, key):
        return dict.__contains__(self, key) or key in self.permanent

    def get(self, key, default=None):
        try:
            return self[key]
        except KeyError:
            return default


HF_IDENT = _Registry()


def register_hashable_function(wrapper, identifier, permanent=False):
    (HF_IDENT.permanent if permanent else HF_IDENT)[id(wrapper)] = (wrapper, identifier)


def forget_hashable_functions():
    """Drop the non-permanent registrations (they keep the wrappers and their identifiers alive)."""
    HF_IDENT.clear()


def class_ident(c):
    """Module-qualified identity of a class, plus what distinguishes re-definitions."""
    from nutils import types as nt
    parts = [str(getattr(c, '__module__', '?')).encode(), str(getattr(c, '__qualname__', '?')).encode()]
    if isinstance(c, nt.ImmutableMeta):
        parts.append(('version=%r' % (c._version,)).encode())
    if dataclasses.is_dataclass(c):
        parts.append(('fields=' + ','.join(f.name for f in dataclasses.fields(c))).encode())
    elif isinstance(getattr(c, '_fields', None), tuple) and issubclass(c, tuple):
        parts.append(('fields=' + ','.join(c._fields)).encode())
    return _h('class', *parts)


def _scalar_canon(v):
    """v: exact python bool/int/float/complex"""
    t = type(v)
    if t is bool:
        return _h('bool', b'1' if v else b'0')
    if t is int:
        return _h('int', str(v).encode())
    if t is float:
        return _h('float', _fbytes(v))
    if t is complex:
        return _h('complex', _fbytes(v.real), _fbytes(v.imag))
    raise Unclassified('scalar of type ' + t.__name__)


def _npscalar_to_py(v):
    kind = v.dtype.kind
    if kind == 'b':
        return bool(v)
    if kind in 'iu':
        return int(v)
    if kind == 'f':
        f = float(v)
        if v.dtype.itemsize > 8 and not (f != f or type(v)(f) == v):
            raise Unclassified('long double not representable as float')
        return f
    if kind == 'c':
        c = complex(v)
        if v.dtype.itemsize > 16 and not (c != c or type(v)(c) == v):
            raise Unclassified('long double complex not representable as complex')
        return c
    raise Unclassified('numpy scalar of kind ' + kind)


def _elements(a):
    """Element-wise canonical bytes of a numeric array, independent of memory layout and byte order."""
    kind = a.dtype.kind
    flat = a.reshape(-1) if a.flags.c_contiguous else numpy.array(a, order='C').reshape(-1)
    if kind == 'b':
        return bytes(bytearray(1 if x else 0 for x in flat.tolist()))
    if kind in 'iu':
        return ','.join(str(int(x)) for x in flat.tolist()).encode()
    if kind in 'fc':
        if a.dtype.itemsize > (8 if kind == 'f' else 16):
            raise Unclassified('long double array')
        # IEEE bit patterns in little-endian order, whatever the array's own byte order / strides (keeps -0.0 and NaN payloads apart)
        return numpy.ascontiguousarray(a).astype(a.dtype.newbyteorder('<')).tobytes()
    raise Unclassified('array of dtype kind ' + kind)


def _array_canon(a):
    kind = a.dtype.kind
    if kind not in 'biufc':
        raise Unclassified('array of dtype kind ' + kind)
    # dtype.str carries byte order, kind and width; shape as given
    return _h('ndarray', a.dtype.str.encode(), repr(tuple(int(n) for n in a.shape)).encode(), _elements(a))


_KIND = {bool: b'b', int: b'i', float: b'f', complex: b'c'}


def canon(v, memo=None):
    """16-byte structural digest of ``v``; raises Unclassified."""
    if memo is None:
        memo = {}
    return _canon(v, memo)


def _canon(v, memo):
    from nutils import types as nt
    if v is None:
        return _h('None')
    if v is Ellipsis:
        return _h('Ellipsis')
    t = type(v)
    if t in (bool, int, float, complex):
        return _scalar_canon(v)
    if t is str:
        return _h('str', v.encode('utf-8', 'surrogatepass'))
    if t is bytes:
        return _h('bytes', v)
    if t is tuple or t is list:
        return _h(t.__name__, *[_canon(x, memo) for x in v])
    if isinstance(v, numpy.generic):
        return _scalar_canon(_npscalar_to_py(v))
    if t is dict:
        return _h('dict', *sorted(_canon(k, memo) + _canon(x, memo) for k, x in v.items()))
    if t is set or t is frozenset:
        return _h(t.__name__, *sorted(_canon(x, memo) for x in v))
    if t is numpy.ndarray:
        return _array_canon(v)
    if isinstance(v, type):
        return _h('classobject', class_ident(v))
    if t is nt.frozendict:
        return _h('nutils.frozendict', *sorted(_canon(k, memo) + _canon(x, memo) for k, x in v.items()))
    if t is nt.frozenmultiset:
        return _h('nutils.frozenmultiset', *sorted(_canon(x, memo) for x in v))
    if t is nt._hashable_function_wrapper:
        try:
            w, ident = HF_IDENT[id(v)]
        except KeyError:
            raise Unclassified('hashable_function with unknown identifier')
        if w is not v:
            raise Unclassified('hashable_function with unknown identifier')
        return _h('nutils.hashable_function', _canon(ident, memo))
    if t is pytypes.MethodType:
        return _h('method', _canon(v.__self__, memo), _canon(v.__name__, memo))
    if isinstance(v, io.BufferedIOBase):
        if not v.seekable():
            raise Unclassified('non-seekable stream')
        pos = v.tell()
        v.seek(0)
        content = v.read()
        v.seek(pos)
        return _h('stream', class_ident(t), str(pos).encode(), content)
    if t is nt.arraydata:
        a = numpy.asarray(v)
        kind = a.dtype.kind
        if kind not in 'biufc':
            raise Unclassified('arraydata of dtype kind ' + kind)
        return _h('nutils.arraydata', b'i' if kind in 'iu' else kind.encode(), repr(tuple(int(n) for n in a.shape)).encode(), _elements(a))
    if isinstance(v, (nt.Immutable, nt.DataClass)):
        key = id(v)
        hit = memo.get(key)
        if hit is not None and hit[0] is v:
            return hit[1]
        red = v.__reduce__()
        args = red[1]
        d = _h('nutils-object', class_ident(t), *[_canon(a, memo) for a in args])
        memo[key] = (v, d)
        return d
    if dataclasses.is_dataclass(t):
        return _h('dataclass', class_ident(t), *sorted(_canon(f.name, memo) + _canon(getattr(v, f.name), memo) for f in dataclasses.fields(t)))
    if isinstance(v, (tuple, int, float, complex, str, bytes)) and hasattr(v, '__getnewargs__'):
        # subclass of a builtin value type (incl. namedtuple, IntEnum): its class and its builtin content
        return _h('builtin-subclass', class_ident(t), *[_canon(a, memo) for a in v.__getnewargs__()])
    try:
        red = v.__reduce_ex__(2)
    except Exception:
        red = None
    if isinstance(red, str):
        # pickle protocol: a string means "the module-level constant of that name" (enum-like singletons, e.g. nutils_poly.MulVar.Left)
        return _h('global-constant', class_ident(t), red.encode())
    raise Unclassified('object of type {}.{}'.format(getattr(t, '__module__', '?'), t.__qualname__))


def describe(v, n=160):
    try:
        r = repr(v)
    except Exception as e:
        r = '<repr failed: %s>' % type(e).__name__
    t = type(v)
    if isinstance(v, numpy.ndarray):
        r = 'ndarray(dtype=%s, shape=%s, %s)' % (v.dtype.str, v.shape, r.replace('\n', ' '))
    if len(r) > n:
        r = r[:n] + '...'
    return '%s.%s: %s' % (getattr(t, '__module__', '?'), t.__qualname__, r)


# ---------------------------------------------------------------- classification of colliding pairs

def _safe_hash(x):
    from nutils import types as nt
    try:
        h = nt.nutils_hash(x)
    except Exception:
        return None
    return h if isinstance(h, bytes) else None


def _same(a, b, memo):
    try:
        return _canon(a, memo) == _canon(b, memo)
    except Unclassified:
        return False


PROXY = ('<tuple-proxy crossed>',)


def leaf_diffs(a, b, out, memo=None):
    """Descend through structurally parallel parts of two values to the innermost differing sub-values."""
    from nutils import types as nt
    if memo is None:
        memo = {}
    if _same(a, b, memo):
        return out
    ta, tb = type(a), type(b)
    for p, q in ((a, b), (b, a)):
        # tuple-proxy idiom: a hashable_function vs the literal tuple it is hashed as; descend to the identifiers and remember it
        if type(p) is nt._hashable_function_wrapper and type(q) is tuple and len(q) == 2 and type(q[0]) is str and q[0] == 'hashable_function' and id(p) in HF_IDENT:
            out.append(PROXY)
            leaf_diffs(HF_IDENT[id(p)][1], q[1], out, memo)
            return out
    if ta is tb:
        if ta in (tuple, list) and len(a) == len(b):
            for x, y in zip(a, b):
                leaf_diffs(x, y, out, memo)
            return out
        if ta in (set, frozenset, nt.frozenmultiset) and len(a) == len(b):
            ha, hb = {}, {}
            for side, tab in ((a, ha), (b, hb)):
                for x in side:
                    tab.setdefault(_safe_hash(x), []).append(x)
            if None not in ha and None not in hb and ha.keys() == hb.keys() and all(len(ha[k]) == len(hb[k]) == 1 for k in ha):
                for k in ha:
                    leaf_diffs(ha[k][0], hb[k][0], out, memo)
                return out
        if ta in (dict, nt.frozendict) and len(a) == len(b):
            ha, hb = {}, {}
            for side, tab in ((a, ha), (b, hb)):
                for k, x in side.items():
                    hk, hx = _safe_hash(k), _safe_hash(x)
                    tab.setdefault(None if hk is None or hx is None else hk + hx, []).append((k, x))
            if None not in ha and None not in hb and ha.keys() == hb.keys() and all(len(ha[k]) == len(hb[k]) == 1 for k in ha):
                for k in ha:
                    leaf_diffs(ha[k][0][0], hb[k][0][0], out, memo)
                    leaf_diffs(ha[k][0][1], hb[k][0][1], out, memo)
                return out
        if isinstance(a, (nt.Immutable, nt.DataClass)) and ta is not nt.arraydata:
            ra, rb = a.__reduce__()[1], b.__reduce__()[1]
            if len(ra) == len(rb):
                for x, y in zip(ra, rb):
                    leaf_diffs(x, y, out, memo)
                return out
        if ta is nt._hashable_function_wrapper and id(a) in HF_IDENT and id(b) in HF_IDENT:
            leaf_diffs(HF_IDENT[id(a)][1], HF_IDENT[id(b)][1], out, memo)
            return out
        if ta is pytypes.MethodType:
            leaf_diffs(a.__self__, b.__self__, out, memo)
            leaf_diffs(a.__name__, b.__name__, out, memo)
            return out
        if dataclasses.is_dataclass(ta) and not isinstance(a, type):
            for f in dataclasses.fields(ta):
                leaf_diffs(getattr(a, f.name), getattr(b, f.name), out, memo)
            return out
        if isinstance(a, (tuple, int, float, complex, str, bytes)) and ta not in (tuple, int, float, complex, str, bytes, bool) and hasattr(a, '__getnewargs__'):
            na, nb = a.__getnewargs__(), b.__getnewargs__()      # namedtuple / subclass of a builtin value type, same class on both sides
            if len(na) == len(nb):
                for x, y in zip(na, nb):
                    leaf_diffs(x, y, out, memo)
                return out
    out.append((a, b))
    return out


def _bare_name_tagged(x):
    """True if nutils_hash reaches x through its generic branch (type tag = bare type(x).__name__)."""
    return not hasattr(x, '__nutils_hash__')


def bare_name_pair(x, y):
    """The mechanism of finding C17-type-tag-by-bare-name: two distinct classes, or two instances whose
    (distinct) types share __name__, both hashed through the branch that tags by bare __name__."""
    if isinstance(x, type) and isinstance(y, type):
        return x is not y and type(x) is type and type(y) is type and x.__name__ == y.__name__
    if isinstance(x, type) or isinstance(y, type):
        return False
    tx, ty = type(x), type(y)
    return tx is not ty and tx.__name__ == ty.__name__ and _bare_name_tagged(x) and _bare_name_tagged(y)


def _stream_state(x):
    pos = x.tell()
    x.seek(0)
    c = x.read()
    x.seek(pos)
    return pos, c


def stream_pair(x, y):
    """Out-of-scope observation (binary streams are not among the value kinds of the property): same stream type,
    (position, content) differ but the decimal position directly followed by the content reads the same."""
    if not (isinstance(x, io.BufferedIOBase) and isinstance(y, io.BufferedIOBase) and type(x) is type(y)):
        return False
    px, cx = _stream_state(x)
    py, cy = _stream_state(y)
    return (px, cx) != (py, cy) and str(px).encode() + cx == str(py).encode() + cy


def tuple_proxy_pair(x, y):
    """nutils idiom: an object whose hash is DEFINED as that of a tagged tuple (hashable_function, solver
    methods, System) vs. that literal tuple.  Left out of the verdict."""
    from nutils import types as nt
    for p, q in ((x, y), (y, x)):
        if type(p) is nt._hashable_function_wrapper and type(q) is tuple and len(q) == 2 and q[0] == 'hashable_function' and type(q[0]) is str:
            hit = HF_IDENT.get(id(p))
            if hit is not None:
                try:
                    return canon(hit[1]) == canon(q[1])
                except Unclassified:
                    return False
    return False


STREAM_NOTE = 'binary streams: str(position) runs into the content without separator'
PROXY_NOTE = 'tuple-proxy idiom (object hashed as a tagged tuple vs that tuple)'


def classify_leaves(leaves):
    """leaves: innermost differing sub-value pairs (and PROXY markers) of two colliding values."""
    pairs = [l for l in leaves if l is not PROXY]
    proxy = len(pairs) != len(leaves)
    kinds = set()
    for x, y in pairs:
        hx, hy = _safe_hash(x), _safe_hash(y)
        if hx is None or hx != hy:
            return 'violation', None      # the parents collide although a differing part does not: not a known mechanism
        if bare_name_pair(x, y):
            kinds.add('bare')
        elif stream_pair(x, y):
            kinds.add('stream')
        elif tuple_proxy_pair(x, y):
            proxy = True
        else:
            return 'violation', None
    if proxy:
        return 'unclassified', PROXY_NOTE
    if 'stream' in kinds:
        return 'out_of_scope', STREAM_NOTE
    if kinds == {'bare'}:
        return 'known', 'C17-type-tag-by-bare-name'
    return 'violation', None


def classify_collision(a, b):
    """-> ('known', finding_id) | ('unclassified', reason) | ('out_of_scope', reason) | ('violation', None)"""
    leaves = leaf_diffs(a, b, [])
    if not leaves:
        return 'violation', None
    return classify_leaves(leaves)


def _recipe_outline(r):
    """(signature, child recipes) of a recipe; signature None = leaf."""
    k = r[0]
    if k in ('t', 'l', 'S', 'F', 'fm', 'nt'):
        items = r[1] if k != 'nt' else r[2]
        return (k, r[1] if k == 'nt' else None, len(items)), list(items)
    if k in ('d', 'fd'):
        return (k, len(r[1])), [x for kv in r[1] for x in kv]
    if k in ('im', 'call'):
        return (k, r[1], len(r[2]), tuple(n for n, x in r[3])), list(r[2]) + [x for n, x in r[3]]
    if k == 'dc':
        return (k, r[1], tuple(n for n, x in r[2])), [x for n, x in r[2]]
    if k == 'hf':
        return (k,), [r[1]]
    if k == 'm':
        return (k, r[2]), [r[1]]
    if k in ('pk', 'AD'):
        return (k,), [r[1]]
    return None, []


def recipe_leaf_pairs(ra, rb, out):
    """Positional descent through two recipes of the same outline; appends the differing sub-recipes."""
    if ra == rb:
        return out
    sa, ca = _recipe_outline(ra)
    sb, cb = _recipe_outline(rb)
    if sa is not None and sa == sb:
        for x, y in zip(ca, cb):
            recipe_leaf_pairs(x, y, out)
        return out
    out.append((ra, rb))
    return out


def classify_recipes(ra, rb, build):
    """Fallback used when a colliding value cannot be rebuilt faithfully next to its live partner (an interned class
    conflates the two constructions): classify from the differing sub-recipes, each built on its own."""
    pairs = recipe_leaf_pairs(ra, rb, [])
    leaves = []
    for x, y in pairs:
        try:
            vx, vy = build(x), build(y)
        except Exception:
            return 'violation', None
        leaf_diffs(vx, vy, leaves)
    if not leaves:
        return 'violation', None
    return classify_leaves(leaves)


def lookalike_only_diff(a, b):
    """Predicate of finding C17-intern-key-python-equality: the two (argument) structures are equal except for
    python bool/int/float scalars that compare equal but are different values (1 / 1.0 / True, 0.0 / -0.0),
    with at least one such difference."""
    state = {'n': 0}

    def walk(x, y):
        if type(x) in (bool, int, float) and type(y) in (bool, int, float):
            if x != y:
                return False
            try:
                if canon(x) != canon(y):
                    state['n'] += 1
            except Unclassified:
                return False
            return True
        if type(x) is not type(y):
            return False
        if type(x) is tuple:
            return len(x) == len(y) and all(walk(p, q) for p, q in zip(x, y))
        try:
            return canon(x) == canon(y)
        except Unclassified:
            return False
    return walk(a, b) and state['n'] > 0


def object_digest(cls, args, memo=None):
    """Canonical digest that a nutils object of class ``cls`` with reduce-arguments ``args`` must have."""
    memo = {} if memo is None else memo
    return _h('nutils-object', class_ident(cls), *[_canon(a, memo) for a in args])


def arg_difference(requested, actual):
    """Compare requested construction arguments with the arguments the returned object holds.
    -> 'same' | 'lookalike-bif' (differences only between ==-equal python bool/int/float) |
       'lookalike-other' (differences only between ==-equal values of other types) | 'different'"""
    state = {'bif': 0, 'other': 0, 'diff': 0}

    def walk(x, y):
        try:
            if canon(x) == canon(y):
                return
        except Unclassified:
            state['diff'] += 1
            return
        if type(x) is tuple and type(y) is tuple and len(x) == len(y):
            for p, q in zip(x, y):
                walk(p, q)
            return
        try:
            eq = bool(x == y)
        except Exception:
            eq = False
        if not eq:
            state['diff'] += 1
        elif type(x) in (bool, int, float) and type(y) in (bool, int, float):
            state['bif'] += 1
        else:
            state['other'] += 1
    walk(tuple(requested), tuple(actual))
    if state['diff']:
        return 'different'
    if state['other']:
        return 'lookalike-other'
    if state['bif']:
        return 'lookalike-bif'
    return 'same'
