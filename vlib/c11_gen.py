"""C11 workload generator: topologies reached through real construction histories.

A *spec* is a JSON dict ``{'base': {...}, 'ops': [[name, *params], ...]}``.  ``build(spec)``
replays it with the real nutils constructors; every random choice that depends on
the size of an intermediate topology is drawn from ``numpy.random.default_rng(seed)``
with the seed stored in the op, so a spec alone reproduces the topology.  An
operation that nutils refuses (any exception while *constructing*) is a rejected
operation: recorded, not applied, never a violation (construction is C10's
business; C11 watches lookups on what was built).
"""

import numpy

BASES = ['line', 'line_periodic', 'rect2', 'rect2_periodic', 'rect3', 'square', 'triangle', 'mixed', 'multipatch', 'simplex2', 'simplex3']
VOLUME_OPS = ['refined', 'refined_by', 'take', 'slice', 'subset', 'union', 'trim', 'sub', 'and', 'group']
LOWER_OPS = ['boundary', 'interfaces', 'bgroup']
EDGE_OPS = ['refined', 'take', 'opposite', 'union']


def sig(seq):
    """Nesting signature of a Transforms object, e.g. 'Masked(Chained(Derived(Structured)))'."""
    n = type(seq).__name__.replace('Transforms', '')
    if hasattr(seq, '_parent'):
        return f'{n}({sig(seq._parent)})'
    if hasattr(seq, '_items'):
        inner = []
        for s in seq._items:
            g = sig(s)
            if g not in inner:
                inner.append(g)
        return f'{n}({",".join(inner)})'
    return n or 'Transforms'


def classes_in(seq, out=None):
    out = set() if out is None else out
    out.add(type(seq).__name__)
    if hasattr(seq, '_parent'):
        classes_in(seq._parent, out)
    if hasattr(seq, '_items'):
        for s in seq._items:
            classes_in(s, out)
    return out


def depth(seq):
    if hasattr(seq, '_parent'):
        return 1 + depth(seq._parent)
    if hasattr(seq, '_items'):
        return 1 + max(depth(s) for s in seq._items)
    return 1


def random_spec(rng, tier='quick', want3d=None):
    if want3d is None:
        want3d = rng.random() < (.08 if tier == 'quick' else .15)
    if want3d:
        kind = str(rng.choice(['rect3', 'simplex3']))
    else:
        kind = str(rng.choice(['line', 'line_periodic', 'rect2', 'rect2_periodic', 'square', 'triangle', 'mixed', 'multipatch', 'simplex2'],
                              p=[.08, .06, .14, .14, .06, .14, .18, .1, .1]))
    base = dict(kind=kind, seed=int(rng.integers(0, 2**31)))
    if kind in ('line', 'line_periodic'):
        base['n'] = int(rng.integers(1 if kind == 'line' else 2, 7))
    elif kind in ('rect2', 'rect2_periodic'):
        base['shape'] = [int(rng.integers(1, 5)), int(rng.integers(1, 4))]
        if kind == 'rect2_periodic':
            base['periodic'] = [[0], [1], [0, 1]][int(rng.integers(0, 3))]
            base['shape'] = [max(2, s) if i in base['periodic'] else s for i, s in enumerate(base['shape'])]
    elif kind == 'rect3':
        base['shape'] = [int(rng.integers(1, 3)), int(rng.integers(1, 3)), int(rng.integers(1, 3))]
        base['periodic'] = [] if rng.random() < .6 else [int(rng.integers(0, 3))]
        base['shape'] = [max(2, s) if i in base['periodic'] else s for i, s in enumerate(base['shape'])]
    elif kind in ('square', 'triangle', 'mixed'):
        base['n'] = int(rng.integers(1 if kind != 'mixed' else 2, 5 if kind != 'mixed' else 4))
    elif kind == 'multipatch':
        base['n'] = int(rng.integers(1, 3))
    elif kind == 'simplex2':
        base['n'] = int(rng.integers(1, 4))
    nops = int(rng.integers(0, 5))
    ops = []
    lowered = 0
    for _ in range(nops):
        s = int(rng.integers(0, 2**31))
        if lowered == 0:
            name = str(rng.choice(VOLUME_OPS + LOWER_OPS, p=[.2, .2, .08, .05, .06, .05, .1, .03, .03, .02, .08, .07, .03]))
        else:
            name = str(rng.choice(EDGE_OPS + LOWER_OPS, p=[.3, .25, .1, .05, .12, .12, .06]))
        if name in LOWER_OPS:
            lowered += 1
        if name == 'trim':
            ops.append([name, s, int(rng.integers(0, 3))])
        else:
            ops.append([name, s])
    return dict(base=base, ops=ops)


def _simplex2(n, seed):
    from nutils import mesh
    r = numpy.random.default_rng(seed)
    v = numpy.arange(n + 1, dtype=float)
    X, Y = numpy.meshgrid(v, v, indexing='ij')
    coords = numpy.stack([X.ravel(), Y.ravel()], 1)
    interior = (coords[:, 0] > 0) & (coords[:, 0] < n) & (coords[:, 1] > 0) & (coords[:, 1] < n)
    coords = coords + interior[:, None] * r.uniform(-.3, .3, coords.shape)
    simplices = []
    for i in range(n):
        for j in range(n):
            a, b, c, d = i * (n + 1) + j, i * (n + 1) + j + 1, (i + 1) * (n + 1) + j, (i + 1) * (n + 1) + j + 1
            if r.random() < .5:
                simplices += [[a, b, c], [b, c, d]]
            else:
                simplices += [[a, b, d], [a, c, d]]
    simplices = numpy.array(simplices)
    topo, geom = mesh.simplex(simplices, simplices, coords / n, {}, {}, {})
    return topo, geom


def _simplex3(seed):
    from nutils import mesh
    import itertools
    r = numpy.random.default_rng(seed)
    coords = numpy.array([[x, y, z] for x in (0., 1.) for y in (0., 1.) for z in (0., 1.)])
    coords = coords + r.uniform(-.15, .15, coords.shape)
    bit = [4, 2, 1]
    simplices = []
    for perm in itertools.permutations(range(3)):
        v = [0]
        for k in perm:
            v.append(v[-1] + bit[k])
        simplices.append(v)
    simplices = numpy.array(sorted(simplices))
    return mesh.simplex(simplices, simplices, coords, {}, {}, {})


def build_base(base):
    from nutils import mesh
    kind = base['kind']
    r = numpy.random.default_rng(base['seed'])
    info = dict(periodic=[], kind=kind)

    def nodes(n):
        x = numpy.cumsum(r.uniform(.5, 1.5, n + 1))
        return (x - x[0]) / (x[-1] - x[0]) * r.uniform(.5, 3.)
    if kind == 'line':
        topo, geom = mesh.line(nodes(base['n']))
    elif kind == 'line_periodic':
        topo, geom = mesh.line(nodes(base['n']), periodic=True)
        info['periodic'] = [0]
    elif kind in ('rect2', 'rect2_periodic', 'rect3'):
        per = base.get('periodic', [])
        topo, geom = mesh.rectilinear([nodes(n) for n in base['shape']], periodic=per)
        info['periodic'] = list(per)
    elif kind in ('square', 'triangle', 'mixed', 'multipatch'):
        topo, geom = mesh.unitsquare(base['n'], kind)
    elif kind == 'simplex2':
        topo, geom = _simplex2(base['n'], base['seed'])
    elif kind == 'simplex3':
        topo, geom = _simplex3(base['seed'])
    else:
        raise ValueError(kind)
    if geom.ndim == 0:
        geom = geom[numpy.newaxis]
    return topo, geom, info


def _subset_indices(r, n, lo=1):
    """sorted unique random subset of range(n), size in [lo, n]"""
    if n <= 0:
        return numpy.zeros(0, dtype=int)
    k = int(r.integers(min(lo, n), n + 1))
    return numpy.sort(r.choice(n, size=k, replace=False))


def apply_op(topo, geom, op, info):
    """Returns new topology.  Raises on refusal."""
    name, seed = op[0], op[1]
    r = numpy.random.default_rng(seed)
    n = len(topo)
    if name == 'refined':
        return topo.refined
    if name == 'refined_by':
        idx = _subset_indices(r, n)
        if len(idx) > 6:
            idx = idx[:6]
        return topo.refined_by(idx)
    if name == 'take':
        return topo.take(_subset_indices(r, n))
    if name == 'slice':
        if topo.ndims == 1 or r.random() < .5:
            a = int(r.integers(0, max(1, n)))
            return topo[a:a + int(r.integers(1, 4))]
        return topo[:, int(r.integers(0, 2)):]
    if name == 'subset':
        sub = topo.take(_subset_indices(r, n))
        return topo.subset(sub, newboundary='newb' if r.random() < .5 else None)
    if name == 'union':
        return topo.take(_subset_indices(r, n)) | topo.take(_subset_indices(r, n))
    if name == 'sub':
        return topo - topo.take(_subset_indices(r, max(1, n - 1)))
    if name == 'and':
        a = topo.refined_by(_subset_indices(r, n)[:4])
        b = topo.refined_by(_subset_indices(r, n)[:4])
        return a & b
    if name == 'trim':
        maxrefine = int(op[2])
        X = topo.sample('bezier', 2).eval(geom)
        lo, hi = X.min(0), X.max(0)
        nrm = r.normal(size=len(lo))
        nrm /= numpy.linalg.norm(nrm)
        c = (lo + r.uniform(.2, .8, len(lo)) * (hi - lo)) @ nrm
        if r.random() < .25:
            # level set through mesh vertices
            c = X[int(r.integers(0, len(X)))] @ nrm
        return topo.trim((geom * nrm).sum() - c, maxrefine=maxrefine)
    if name == 'group':
        for g in ('patch0', 'patch1', 'patch4'):
            try:
                t = topo[g]
            except Exception:
                continue
            if len(t):
                return t
        raise KeyError('no volume group')
    if name == 'boundary':
        return topo.boundary
    if name == 'interfaces':
        return topo.interfaces
    if name == 'bgroup':
        b = topo.boundary
        names = ['left', 'right', 'top', 'bottom', 'front', 'back', 'trimmed', 'newb']
        r.shuffle(names)
        for g in names:
            try:
                t = b[g]
            except Exception:
                continue
            if len(t):
                return t
        raise KeyError('no boundary group')
    if name == 'opposite':
        return ~topo
    raise ValueError(name)


def build(spec, res=None):
    """Replay a spec.  Returns dict(topo, geom, stages=[(label, topo)], applied=[...], info)."""
    topo, geom, info = build_base(spec['base'])
    stages = [('base', topo)]
    applied = []
    for op in spec['ops']:
        try:
            new = apply_op(topo, geom, op, info)
            n = len(new)
            new.transforms, new.opposites, new.references
        except Exception as e:
            if res is not None:
                res.count('refused_ops')
                res.count(f'refused/{op[0]}:{type(e).__name__}')
            continue
        if n == 0:
            if res is not None:
                res.count('ops_giving_empty')
            continue
        if n > 200:
            if res is not None:
                res.count('ops_skipped_too_large')
            continue
        topo = new
        applied.append(op[0])
        stages.append((op[0], topo))
        if res is not None:
            res.count('ops_applied/' + op[0])
    return dict(topo=topo, geom=geom, stages=stages, applied=applied, info=info)
