"""Driver for all checks: shards work over subprocess workers, merges what the
monitors observed, applies the known-findings ledger, writes evidence, prints
the verdict.

Check-module protocol (``checks/cNN.py``)::

    PROPERTY = 'C15'
    LEVEL = 'exploration'            # evidence level
    RULE = '...'                     # how cases are generated / what is non-trivial
    ASSUMPTIONS = [...]
    def plan(tier, seed) -> list[dict]          # work units (JSON), sharded round-robin
    def run_units(units, ctx) -> Result         # in a worker process; ctx: tier, seed, deadline, shard
    def finalize(merged, tier, seed) -> dict    # {'coverage': {...}, 'inconclusive': None|str}
    REPRODUCERS = {finding_id: callable() -> (fails: bool, what: str)}   # optional
    def replay(case) -> list[violation dict]    # optional

``Result`` is produced with :class:`Result` below; it is merged key-wise.
Exit status: 0 held, 1 violated, 2 inconclusive, 3 harness error.
"""

import os, sys, json, time, subprocess, importlib, hashlib, traceback, signal

VERIF = os.path.dirname(os.path.dirname(os.path.abspath(__file__)))
PY = '/venv/bin/python'
SCHEMA = '/root/.vp/EVIDENCE.schema.json'


def scaled(n):
    'development aid: VERIF_SCALE=0.2 shrinks every case count (never used by registered commands)'
    return max(1, int(n * float(os.environ.get('VERIF_SCALE', '1') or 1)))


def nworkers():
    return max(2, min(14, (os.cpu_count() or 4) - 2))


class Result:
    """Mergeable record of what a worker observed."""

    def __init__(self):
        self.counters = {}     # name -> int (summed); nested via 'a/b' names
        self.sets = {}         # name -> set of str (unioned)
        self.maxima = {}       # name -> number (max)
        self.violations = []   # dicts: monitor, mechanism, case, detail
        self.samples = []      # a few cases written out
        self.notes = []        # free text (capped)

    def count(self, name, n=1):
        self.counters[name] = self.counters.get(name, 0) + n

    def add(self, name, item):
        self.sets.setdefault(name, set()).add(str(item))

    def maximum(self, name, value):
        if name not in self.maxima or value > self.maxima[name]:
            self.maxima[name] = value

    def violation(self, monitor, case, detail, mechanism=None):
        self.violations.append(dict(monitor=monitor, mechanism=mechanism, case=case, detail=str(detail)[:2000]))

    def sample(self, case, cap=3):
        if len(self.samples) < cap:
            self.samples.append(case)

    def note(self, text, cap=20):
        if len(self.notes) < cap:
            self.notes.append(str(text)[:500])

    def to_json(self):
        return dict(counters=self.counters, sets={k: sorted(v) for k, v in self.sets.items()}, maxima=self.maxima,
                    violations=self.violations, samples=self.samples, notes=self.notes)

    @staticmethod
    def merge(dicts):
        r = Result()
        for d in dicts:
            for k, v in d.get('counters', {}).items():
                r.counters[k] = r.counters.get(k, 0) + v
            for k, v in d.get('sets', {}).items():
                r.sets.setdefault(k, set()).update(v)
            for k, v in d.get('maxima', {}).items():
                r.maximum(k, v)
            r.violations.extend(d.get('violations', []))
            for s in d.get('samples', []):
                if len(r.samples) < 8:
                    r.samples.append(s)
            r.notes.extend(d.get('notes', [])[:5])
        return r


class Ctx:
    def __init__(self, tier, seed, shard, nshards, deadline):
        self.tier, self.seed, self.shard, self.nshards, self.deadline = tier, seed, shard, nshards, deadline

    def time_left(self):
        return self.deadline - time.time()

    def expired(self):
        return time.time() > self.deadline

    def rng(self, *key):
        import numpy
        h = hashlib.sha256(repr((self.seed,) + key).encode()).digest()
        return numpy.random.Generator(numpy.random.PCG64(int.from_bytes(h[:16], 'little')))


def rng_for(seed, *key):
    import numpy
    h = hashlib.sha256(repr((seed,) + key).encode()).digest()
    return numpy.random.Generator(numpy.random.PCG64(int.from_bytes(h[:16], 'little')))


def worker_env(extra=None):
    env = dict(os.environ)
    env.update(NUTILS_VERIF='1', OMP_NUM_THREADS='1', OPENBLAS_NUM_THREADS='1', MKL_NUM_THREADS='1',
               PYTHONHASHSEED=env.get('VERIF_HASHSEED', '0'), PYTHONDONTWRITEBYTECODE='1', PIP_NO_INDEX='1')
    env.setdefault('NUTILS_MATRIX', 'numpy')
    env.pop('NUTILS_DEBUG', None)
    repo = env.get('VERIF_REPO', '/repo')
    env['PYTHONPATH'] = os.pathsep.join([VERIF, os.path.join(repo, 'src')])

    if extra:
        env.update(extra)
    return env


def setup_paths():
    """Called first thing in every worker: the repository under test first, third-party tools last."""
    repo = os.environ.get('VERIF_REPO', '/repo')
    src = os.path.join(repo, 'src')
    if src not in sys.path:
        sys.path.insert(0, src)
    if VERIF not in sys.path:
        sys.path.insert(0, VERIF)
    deps = os.path.join(VERIF, '.deps')
    if deps not in sys.path:
        sys.path.append(deps)


def load(prop):
    setup_paths()
    return importlib.import_module('checks.' + prop.lower())


# ---------------------------------------------------------------- worker side

def worker_main(argv):
    prop, mode = argv[0], argv[1]
    setup_paths()
    mod = load(prop)
    if mode == 'units':
        tier, seed, shard, nshards, deadline, infile, outfile = argv[2], int(argv[3]), int(argv[4]), int(argv[5]), float(argv[6]), argv[7], argv[8]
        with open(infile) as f:
            units = json.load(f)
        ctx = Ctx(tier, seed, shard, nshards, deadline)
        res = mod.run_units(units, ctx)
        out = res.to_json()
    elif mode == 'repro':
        fid, outfile = argv[2], argv[3]
        try:
            fails, what = mod.REPRODUCERS[fid]()
        except Exception as e:
            fails, what = None, 'reproducer crashed: ' + ''.join(traceback.format_exception_only(type(e), e)).strip()
        out = dict(fails=fails, what=what)
    elif mode == 'replay':
        casefile, outfile = argv[2], argv[3]
        with open(casefile) as f:
            rep = json.load(f)
        out = dict(violations=mod.replay(rep['violation']['case']))
    else:
        raise SystemExit('bad mode')
    tmp = outfile + '.tmp'
    with open(tmp, 'w') as f:
        json.dump(out, f, default=str)
    os.replace(tmp, outfile)


# ---------------------------------------------------------------- driver side

def _run(cmd, env, timeout):
    """subprocess with hard timeout; kills the whole process group."""
    p = subprocess.Popen(cmd, env=env, cwd=VERIF, stdout=subprocess.PIPE, stderr=subprocess.STDOUT, start_new_session=True)
    try:
        out, _ = p.communicate(timeout=timeout)
        return p.returncode, out.decode(errors='replace')
    except subprocess.TimeoutExpired:
        try:
            os.killpg(p.pid, signal.SIGKILL)
        except ProcessLookupError:
            pass
        out, _ = p.communicate()
        return 'timeout', out.decode(errors='replace')


def load_findings(prop):
    path = os.path.join(VERIF, 'known_findings.json')
    if not os.path.exists(path):
        return []
    with open(path) as f:
        return [e for e in json.load(f) if e['property'] == prop]


def main(argv=None):
    import argparse
    ap = argparse.ArgumentParser()
    ap.add_argument('prop')
    ap.add_argument('--tier', default=os.environ.get('VERIF_TIER', 'quick'), choices=['quick', 'thorough'])
    ap.add_argument('--seed', type=int, default=int(os.environ.get('VERIF_SEED', '0') or 0))
    ap.add_argument('--replay')
    ap.add_argument('--workers', type=int, default=int(os.environ.get('VERIF_WORKERS', '0') or 0))
    ap.add_argument('--no-evidence', action='store_true')
    args = ap.parse_args(argv)
    prop = args.prop.upper()
    t0 = time.time()
    workdir = os.path.join(VERIF, '.work', f'{prop}-{os.getpid()}')
    os.makedirs(workdir, exist_ok=True)
    os.makedirs(os.path.join(VERIF, 'evidence'), exist_ok=True)
    os.makedirs(os.path.join(VERIF, 'replays'), exist_ok=True)
    try:
        code = _main(prop, args, t0, workdir)
    except HarnessError as e:
        print(f'HARNESS-ERROR property={prop} {e}')
        code = 3
    finally:
        import shutil
        if not os.environ.get("VERIF_KEEP_WORK"):
            shutil.rmtree(workdir, ignore_errors=True)

    sys.exit(code)


class HarnessError(Exception):
    pass


def _main(prop, args, t0, workdir):
    if not os.path.isdir(os.path.join(VERIF, '.deps', 'jsonschema')):
        rc, out = _run(['/bin/sh', os.path.join(VERIF, 'setup.sh')], dict(os.environ), 600)
        if rc != 0:
            raise HarnessError('setup failed: ' + out[-500:])
    mod = load(prop)
    env = worker_env(getattr(mod, 'ENV', None))
    # The code under test is compiled afresh from its current working tree: byte code cached next to the sources could
    # stem from an earlier state of the tree (time stamp and size can coincide after apply/revert cycles) and must not be
    # able to decide a verdict.  Workers run with PYTHONDONTWRITEBYTECODE, so nothing is written back.
    import shutil, glob
    for d in glob.glob(os.path.join(env.get('VERIF_REPO', '/repo'), 'src', 'nutils', '**', '__pycache__'), recursive=True):
        shutil.rmtree(d, ignore_errors=True)

    if args.replay:
        out = os.path.join(workdir, 'replay.json')
        rc, log = _run([PY, '-X', 'faulthandler', '-m', 'vlib.worker', prop, 'replay', os.path.abspath(args.replay), out], env, 1800)
        if rc != 0 or not os.path.exists(out):
            raise HarnessError(f'replay worker failed rc={rc}: {log[-1500:]}')
        viols = json.load(open(out))['violations']
        if viols:
            for v in viols:
                print('replayed:', v['monitor'], v['detail'][:300])
            print(f'VIOLATION property={prop} replay={args.replay}')
            return 1
        print(f'replay did not reproduce a violation for {prop}')
        return 0

    tier, seed = args.tier, args.seed
    units = mod.plan(tier, seed)
    W = args.workers or nworkers()
    W = max(1, min(W, len(units)))
    budget = mod.BUDGET_S[tier] if hasattr(mod, 'BUDGET_S') else (150 if tier == 'quick' else 2400)
    deadline = time.time() + budget
    procs = []
    for i in range(W):
        infile = os.path.join(workdir, f'units{i}.json')
        with open(infile, 'w') as f:
            json.dump(units[i::W], f)
        outfile = os.path.join(workdir, f'out{i}.json')
        cmd = [PY, '-X', 'faulthandler', '-m', 'vlib.worker', prop, 'units', tier, str(seed), str(i), str(W), repr(deadline), infile, outfile]
        # worker output goes to a file, never to a pipe: a worker that prints more than a pipe buffer while the driver waits for
        # another worker would block until its turn and lose its time budget
        logfile = os.path.join(workdir, f'log{i}.txt')
        with open(logfile, 'wb') as lf:
            p = subprocess.Popen(cmd, env=env, cwd=VERIF, stdout=lf, stderr=subprocess.STDOUT, stdin=subprocess.DEVNULL, start_new_session=True)
        procs.append((p, outfile, logfile))
    # reproducers of ledger entries run concurrently with the workers
    findings = load_findings(prop)
    repro_procs = []
    for e in findings:
        fid = e['id']
        if fid in getattr(mod, 'REPRODUCERS', {}):
            outfile = os.path.join(workdir, f'repro-{fid}.json')
            logfile = os.path.join(workdir, f'repro-{fid}.log.txt')
            with open(logfile, 'wb') as lf:
                p = subprocess.Popen([PY, '-X', 'faulthandler', '-m', 'vlib.worker', prop, 'repro', fid, outfile], env=env, cwd=VERIF,
                                     stdout=lf, stderr=subprocess.STDOUT, stdin=subprocess.DEVNULL, start_new_session=True)
            repro_procs.append((e, p, outfile, logfile))

    grace = getattr(mod, 'GRACE_S', 120)
    results, worker_failures = [], []
    def _tail(path, n):
        try:
            with open(path, 'rb') as f:
                f.seek(0, 2)
                f.seek(max(0, f.tell() - n))
                return f.read().decode(errors='replace')
        except OSError:
            return ''

    for i, (p, outfile, logfile) in enumerate(procs):
        try:
            rc = p.wait(timeout=max(5, deadline + grace - time.time()))
        except subprocess.TimeoutExpired:
            try:
                os.killpg(p.pid, signal.SIGKILL)
            except ProcessLookupError:
                pass
            p.wait()
            rc = 'timeout'
        if rc == 0 and os.path.exists(outfile):
            results.append(json.load(open(outfile)))
        else:
            worker_failures.append(f'worker {i} rc={rc}: {_tail(logfile, 1200)}')
    repro = {}
    for e, p, outfile, logfile in repro_procs:
        try:
            p.wait(timeout=getattr(mod, 'REPRO_TIMEOUT_S', 300))
            ok = p.returncode == 0 and os.path.exists(outfile)
            repro[e['id']] = json.load(open(outfile)) if ok else dict(fails=None, what='reproducer worker failed: ' + _tail(logfile, 400))
        except subprocess.TimeoutExpired:
            try:
                os.killpg(p.pid, signal.SIGKILL)
            except ProcessLookupError:
                pass
            p.wait()
            # a reproducer that runs into the hard wall timeout: only meaningful for entries whose failure mode is non-termination
            repro[e['id']] = dict(fails=True if e.get('failure_mode') == 'hang' else None, what='reproducer hit the wall-clock watchdog')

    merged = Result.merge(results)
    fin = mod.finalize(merged, tier, seed)
    coverage = fin['coverage']
    inconclusive = fin.get('inconclusive')
    if worker_failures:
        inconclusive = (inconclusive + '; ' if inconclusive else '') + f'{len(worker_failures)} worker(s) failed: ' + worker_failures[0][-600:]

    # classify violations against the ledger
    open_ids = {e['id'] for e in findings if e['status'] == 'open'}
    fixed_ids = {e['id'] for e in findings if e['status'] == 'fixed'}
    new_violations, known_hits = [], {}
    for v in merged.violations:
        mech = v.get('mechanism')
        if mech in open_ids:
            known_hits[mech] = known_hits.get(mech, 0) + 1
        else:
            new_violations.append(v)
    lines = []
    for e in findings:
        r = repro.get(e['id'])
        if e['status'] == 'open':
            if (r and r['fails']) or known_hits.get(e['id']):
                what = (r or {}).get('what') or e.get('what', '')
                lines.append(f"KNOWN-FINDING: property={prop} {e['id']}: {e.get('what', what)}")
            elif r and r['fails'] is False:
                lines.append(f"NOTE property={prop} {e['id']} no longer reproduces ({r['what']})")
            elif r and r['fails'] is None:
                lines.append(f"NOTE property={prop} {e['id']} reproducer inconclusive ({r['what']})")
        elif e['status'] == 'fixed' and r is not None:
            if r['fails']:
                new_violations.append(dict(monitor='regression of fixed finding', mechanism=e['id'], case=dict(reproducer=e['id']), detail=r['what']))
            elif r['fails'] is None:
                inconclusive = (inconclusive + '; ' if inconclusive else '') + f"reproducer of fixed finding {e['id']} inconclusive: {r['what']}"
    for l in lines:
        print(l)

    wall = time.time() - t0
    coverage.setdefault('known_finding_hits', known_hits)
    coverage.setdefault('ledger', [dict(id=e['id'], status=e['status'], reproducer=repro.get(e['id'])) for e in findings])
    coverage['workers'] = W
    if merged.notes:
        coverage.setdefault('notes', merged.notes[:10])
    evidence = dict(property_id=prop, tier=tier, seed=seed, level=mod.LEVEL, coverage=coverage,
                    assumptions=list(getattr(mod, 'ASSUMPTIONS', [])), wall_s=round(wall, 2), violations=len(new_violations))
    if inconclusive:
        evidence['coverage']['verdict'] = 'inconclusive: ' + inconclusive
    elif new_violations:
        evidence['coverage']['verdict'] = 'violated'
    else:
        evidence['coverage']['verdict'] = 'held on what was observed'
    if not args.no_evidence:
        try:
            _write_evidence(prop, evidence)
        except HarnessError:
            if not (new_violations or inconclusive):
                raise

    if new_violations:
        seen = set()
        for n, v in enumerate(new_violations):
            key = (v['monitor'], v.get('mechanism'), json.dumps(v['case'], sort_keys=True, default=str)[:300])
            if key in seen or len(seen) >= 10:
                continue
            seen.add(key)
            path = os.path.join(VERIF, 'replays', f'{prop}-{tier}-{seed}-{n}.json')
            with open(path, 'w') as f:
                json.dump(dict(property=prop, tier=tier, seed=seed, violation=v), f, indent=1, default=str)
            print(f"  monitor={v['monitor']} mechanism={v.get('mechanism')} detail={v['detail'][:400]}")
            print(f'VIOLATION property={prop} replay={path}')
        return 1
    if inconclusive:
        print(f'INCONCLUSIVE property={prop} reason={inconclusive}')
        return 2
    print(f"HELD property={prop} tier={tier} seed={seed} evaluations={coverage.get('evaluations')} distinct_nontrivial={coverage.get('distinct_nontrivial')} wall={wall:.0f}s")
    return 0


def _write_evidence(prop, evidence):
    setup_paths()
    import jsonschema
    with open(SCHEMA) as f:
        schema = json.load(f)
    text = json.dumps(evidence, indent=1, default=str)
    try:
        jsonschema.validate(json.loads(text), schema)
    except jsonschema.ValidationError as e:
        # still write a file for the reader, but flag the harness error
        with open(os.path.join(VERIF, 'evidence', f'{prop}.json.invalid'), 'w') as f:
            f.write(text)
        raise HarnessError('evidence does not validate: ' + e.message[:300])
    with open(os.path.join(VERIF, 'evidence', f'{prop}.json'), 'w') as f:
        f.write(text + '\n')


if __name__ == '__main__':
    main()
