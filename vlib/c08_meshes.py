"""Small topology generator for C08: builds a nutils topology + its own
("root") geometry from a JSON mesh spec, together with what the oracle needs
to know about the domain (bounding box = the domain itself for every kind
generated here, Gauss-degree limit of the element types, whether the root
geometry is affine per element).

Spec forms (all JSON):
  {'kind':'line',  'nodes': int | [floats]}
  {'kind':'rect',  'nodes': [int | [floats], ...]}                 1-3 D
  {'kind':'unitsquare', 'etype': 'square'|'triangle'|'mixed'|'multipatch', 'nelems': k}
  {'kind':'simplex', 'shape':[nx,ny(,nz)], 'extent':[..], 'seed': s, 'amount': a}   own triangulation through mesh.simplex
  {'kind':'product', 'X': spec, 'Y': spec}                          topoX * topoY on spaces 'X','Y'
optional 'history': [['refined'], ['refined_by', [fractions in [0,1)]], ...]
"""

import itertools
import numpy


class Refused(Exception):
    'an operation nutils documents as unsupported'


class Built:
    def __init__(self, topo, geom, lo, hi, spaces, simplexdim, affine, desc):
        self.topo = topo              # nutils topology
        self.geom = geom              # nutils Array (n,): the mesh's own geometry
        self.lo = numpy.asarray(lo, dtype=float)
        self.hi = numpy.asarray(hi, dtype=float)
        self.n = len(self.lo)
        self.spaces = spaces          # list of (space name, dims)
        self.simplexdim = simplexdim  # largest dimension of simplex (non-tensor) element factors, 0 if none
        self.affine = affine          # root geometry affine per element (False: multipatch bilinear)
        self.desc = desc


def _nodes(v):
    return v if isinstance(v, int) else numpy.asarray(v, dtype=float)


def _extent(v):
    return (0., float(v)) if isinstance(v, int) else (float(v[0]), float(v[-1]))


def simplex_mesh(shape, extent, seed, amount, space='X'):
    'conforming Kuhn triangulation of a box with perturbed interior vertices, through mesh.simplex'
    from nutils import mesh
    nd = len(shape)
    rng = numpy.random.default_rng(seed)
    grids = [numpy.linspace(0, 1, n + 1) for n in shape]
    coords = numpy.stack(numpy.meshgrid(*grids, indexing='ij'), -1).reshape(-1, nd)
    idx = numpy.arange(len(coords)).reshape([n + 1 for n in shape])
    interior = numpy.all((coords > 1e-9) & (coords < 1 - 1e-9), axis=1)
    coords = coords + interior[:, None] * rng.uniform(-amount, amount, coords.shape) / numpy.array(shape)
    coords = coords * numpy.asarray(extent, dtype=float)
    # random relabelling of the vertices: sorting the vertex numbers of a simplex then produces
    # elements of both orientations
    perm = rng.permutation(len(coords))
    inv = numpy.argsort(perm)
    simplices = []
    for cell in itertools.product(*[range(n) for n in shape]):
        for order in itertools.permutations(range(nd)):
            v = list(cell)
            verts = [idx[tuple(v)]]
            for k in order:
                v[k] += 1
                verts.append(idx[tuple(v)])
            simplices.append(sorted(int(inv[i]) for i in verts))
    nodes = numpy.array(sorted(simplices))
    topo, geom = mesh.simplex(nodes, nodes, coords[perm], {}, {}, {}, space=space)
    return topo, geom


def _base(spec, space):
    from nutils import mesh
    kind = spec['kind']
    if kind == 'line':
        topo, x = mesh.line(_nodes(spec['nodes']), space=space)
        a, b = _extent(spec['nodes'])
        return topo, numpy.stack([x]), [a], [b], 0, True
    if kind == 'rect':
        topo, geom = mesh.rectilinear([_nodes(v) for v in spec['nodes']], space=space)
        ext = [_extent(v) for v in spec['nodes']]
        return topo, geom, [e[0] for e in ext], [e[1] for e in ext], 0, True
    if kind == 'unitsquare':
        if space != 'X':
            raise Refused('unitsquare has a fixed space')
        topo, geom = mesh.unitsquare(spec['nelems'], spec['etype'])
        sd = 2 if spec['etype'] in ('triangle', 'mixed') else 0
        return topo, geom, [0., 0.], [1., 1.], sd, spec['etype'] != 'multipatch'
    if kind == 'simplex':
        topo, geom = simplex_mesh(spec['shape'], spec['extent'], spec['seed'], spec['amount'], space=space)
        nd = len(spec['shape'])
        return topo, geom, [0.] * nd, list(map(float, spec['extent'])), nd, True
    raise ValueError(kind)


def apply_history(topo, history, res=None):
    for op in history or ():
        if op[0] == 'refined':
            topo = topo.refined
        elif op[0] == 'refined_by':
            n = len(topo)
            sel = sorted({min(n - 1, int(f * n)) for f in op[1]})
            try:
                topo = topo.refined_by(sel)
            except NotImplementedError as e:
                raise Refused(f'refined_by on {type(topo).__name__}: NotImplementedError {e}')
        else:
            raise ValueError(op)
    return topo


def build(spec, space='X'):
    if spec['kind'] == 'product':
        bx = build(spec['X'], 'X')
        by = build(spec['Y'], 'Y')
        topo = bx.topo * by.topo
        geom = numpy.concatenate([bx.geom, by.geom])
        b = Built(topo, geom, list(bx.lo) + list(by.lo), list(bx.hi) + list(by.hi), bx.spaces + by.spaces,
                  max(bx.simplexdim, by.simplexdim), bx.affine and by.affine, f'product({bx.desc},{by.desc})')
        b.factors = (bx, by)
        b.topo = apply_history(b.topo, spec.get('history'))
        return b
    topo, geom, lo, hi, sd, affine = _base(spec, space)
    topo = apply_history(topo, spec.get('history'))
    desc = spec['kind'] + (':' + spec['etype'] if 'etype' in spec else '')
    return Built(topo, geom, lo, hi, [(space, len(lo))], sd, affine, desc)


def history_tag(spec):
    h = spec.get('history') or []
    return '+'.join(op[0] for op in h) or 'base'


# ---- random specs

def random_nodes(rng, nmax=3, allow_int=True):
    n = int(rng.integers(1, nmax + 1))
    if allow_int and rng.random() < .4:
        return n
    a = float(rng.uniform(-1, 1))
    widths = rng.uniform(.4, 1.2, n)
    return [round(float(v), 6) for v in a + numpy.concatenate([[0.], numpy.cumsum(widths)])]


def random_history(rng, maxlen=2, p=(.45, .3, .25)):
    k = int(rng.choice(len(p), p=p))
    k = min(k, maxlen)
    h = []
    for _ in range(k):
        if rng.random() < .5:
            h.append(['refined'])
        else:
            h.append(['refined_by', [round(float(f), 4) for f in rng.random(int(rng.integers(1, 4)))]])
    return h


def random_spec(rng, ndims, tier='quick', kinds=None, space='X', history=True):
    """A random non-product spec of the given dimension."""
    if ndims == 1:
        opts = ['line', 'rect']
    elif ndims == 2:
        opts = ['rect', 'rect', 'unitsquare:square', 'unitsquare:triangle', 'unitsquare:mixed', 'unitsquare:multipatch', 'simplex']
        if space != 'X':
            opts = ['rect', 'simplex']
    else:
        opts = ['rect', 'rect', 'simplex']
    if kinds:
        opts = [o for o in opts if o.split(':')[0] in kinds or o in kinds]
    o = str(rng.choice(opts))
    nmax = {1: 4, 2: 3, 3: 2}[ndims] + (tier == 'thorough' and rng.random() < .3)
    if o == 'line':
        spec = dict(kind='line', nodes=random_nodes(rng, nmax))
    elif o == 'rect':
        spec = dict(kind='rect', nodes=[random_nodes(rng, nmax) for _ in range(ndims)])
    elif o.startswith('unitsquare'):
        et = o.split(':')[1]
        spec = dict(kind='unitsquare', etype=et, nelems=int(rng.integers(1, 3 if et == 'multipatch' else 4)))
    else:
        spec = dict(kind='simplex', shape=[int(rng.integers(1, 3 if ndims == 2 else 2 + (rng.random() < .3))) for _ in range(ndims)],
                    extent=[round(float(v), 4) for v in rng.uniform(.6, 1.6, ndims)], seed=int(rng.integers(0, 2**31)), amount=round(float(rng.uniform(0, .25)), 3))
    if history:
        maxlen = 2 if ndims < 3 else 1
        h = random_history(rng, maxlen)
        if ndims == 3 and spec['kind'] == 'simplex' and spec['shape'] == [1, 1, 1] and rng.random() < .5:
            # two-level chains of the non-commuting tetrahedron children
            h = [['refined'], ['refined_by', [round(float(f), 4) for f in rng.random(2)]]]
        if h:
            spec['history'] = h
    return spec
