"""Monitors of checks/c12.py: each takes the real nutils objects, observes them through their public
interface (sample.eval, get_dofs, get_support, get_coefficients, get_ndofs, len) and compares with an
independent model (nutils_poly evaluation, set algebra, Cox-de Boor B-splines, combinatorial counts)."""

import itertools, math
import numpy
from vlib import tolerance

PASS, MARGINAL, VIOLATION = tolerance.PASS, tolerance.MARGINAL, tolerance.VIOLATION


FINDING_SINGLE = 'C12-single-element-selection-not-unique'


class Mon:
    """thin recorder: verdict bookkeeping on top of vlib.runner.Result"""

    def __init__(self, res, case, label):
        self.res, self.case, self.label = res, case, label
        self.failed = False
        self.mechanism = None

    def viol(self, monitor, detail, mechanism=None):
        self.failed = True
        mech = mechanism or self.mechanism
        key = f'violations_seen/{mech or "untagged"}'
        self.res.count(key)
        # keep worker output bounded: every hit is counted, the first few per mechanism carry the full case
        if self.res.counters[key] <= (4 if mech else 40):
            self.res.violation(monitor, self.case, f'[{self.label}] {detail}', mechanism=mech)

    def cmp(self, monitor, obs, ref, what, scale=1.):
        v, det = tolerance.compare(obs, ref, scale=scale, check_kind=False)
        self.res.count('float_compares')
        if v == MARGINAL:
            self.res.count('float_marginal')
            self.res.note(f'marginal {monitor} [{self.label}] {what}: {det}')
        elif v == VIOLATION:
            self.viol(monitor, f'{what}: {det}')
        return v == PASS or v == MARGINAL


# ---------------------------------------------------------------- (1) + (2): tables, evaluation, inverse maps

def check_tables(mon, B, S, V, nelems_topo, allow_duplicates, aux_seed=0, eval_elements=None, phantom_mechanism=None):
    import nutils_poly as poly
    res = mon.res
    ndofs = len(B)
    if V.shape != (S.npoints, ndofs):
        mon.viol('evaluated shape', f'sample.eval(basis).shape={V.shape} but (npoints, len(basis))={(S.npoints, ndofs)}')
        return None
    if B.nelems != nelems_topo:
        mon.viol('basis.nelems', f'basis.nelems={B.nelems} but the topology has {nelems_topo} elements')
        return None
    if B.ndofs != ndofs:
        mon.viol('basis.ndofs', f'basis.ndofs={B.ndofs} != len(basis)={ndofs}')
    elem_dofs = []
    ndup = 0
    for i in range(B.nelems):
        dofs = numpy.asarray(B.get_dofs(i))
        coeffs = numpy.asarray(B.get_coefficients(i))
        n_i = B.get_ndofs(i)
        res.count('elements_checked')
        if dofs.ndim != 1 or dofs.dtype.kind not in 'iu':
            mon.viol('get_dofs type', f'element {i}: get_dofs returned ndim={dofs.ndim} dtype={dofs.dtype}')
            return None
        elem_dofs.append(dofs)
        if n_i != len(dofs):
            mon.viol('get_ndofs', f'element {i}: get_ndofs={n_i} but len(get_dofs)={len(dofs)}')
        if coeffs.ndim != 2 or len(coeffs) != len(dofs):
            mon.viol('get_coefficients shape', f'element {i}: coefficients shape {coeffs.shape} for {len(dofs)} dofs')
            continue
        if len(dofs) and (dofs.min() < 0 or dofs.max() >= ndofs):
            mon.viol('dof range', f'element {i}: dofs {dofs.tolist()} outside [0,{ndofs})')
            continue
        if len(numpy.unique(dofs)) != len(dofs):
            ndup += 1
            if not allow_duplicates:
                mon.viol('duplicate dofs', f'element {i}: get_dofs={dofs.tolist()} lists a dof twice')
        if eval_elements is not None and i not in eval_elements:
            continue
        idx = S.getindex(i)
        coords = S.points[i].coords
        Vi = V[idx]
        vals = poly.eval_outer(coeffs, coords) if len(dofs) else numpy.zeros((len(idx), 0))
        E = numpy.zeros((len(idx), ndofs))
        for k, j in enumerate(dofs):
            E[:, j] += vals[:, k]
        touched = numpy.zeros(ndofs, dtype=bool)
        touched[dofs] = True
        if not (Vi[:, ~touched] == 0).all():
            bad = sorted(set(numpy.nonzero(Vi[:, ~touched])[1].tolist()))
            others = numpy.arange(ndofs)[~touched][bad][:5].tolist()
            mon.viol('nonzero outside get_dofs', f'element {i}: evaluated basis is nonzero for dofs {others} not in get_dofs={dofs.tolist()}')
        mon.cmp('evaluation vs coefficient table', Vi[:, touched], E[:, touched], f'element {i}', scale=float(abs(vals).max()) if vals.size else 1.)
        res.count('points_checked', len(idx))
    if ndup:
        res.count('elements_with_wrapped_duplicate_dofs', ndup)
    # inverse maps
    inv = [[] for _ in range(ndofs)]
    for i, dofs in enumerate(elem_dofs):
        for j in numpy.unique(dofs):
            inv[j].append(i)
    nbad = 0
    for j in range(ndofs):
        supp = numpy.asarray(B.get_support(j))
        res.count('support_queries')
        if supp.ndim != 1 or supp.tolist() != inv[j]:
            nbad += 1
            if nbad <= 3:
                mon.viol('support/dofs not inverse', f'dof {j}: get_support={supp.tolist()} but elements listing it in get_dofs={inv[j]}')
        elif not inv[j]:
            nbad += 1
            if nbad <= 3:
                mon.viol('dof without support', f'dof {j} (< len(basis)={ndofs}) appears in no element', mechanism=phantom_mechanism)
    # vector-argument forms of the same maps
    rng = numpy.random.default_rng(aux_seed)
    if B.nelems and ndofs:
        sel = numpy.unique(rng.integers(0, B.nelems, size=3)) if B.nelems > 1 else numpy.array([0])
        if B.nelems > 1 and len(sel) == 1:
            sel = numpy.array(sorted({int(sel[0]), int((sel[0] + 1) % B.nelems)}))
        if B.nelems > 1:
            want = numpy.unique(numpy.concatenate([elem_dofs[i] for i in sel]))
            got = numpy.asarray(B.get_dofs(sel))
            if got.tolist() != want.tolist():
                mon.viol('get_dofs(array)', f'get_dofs({sel.tolist()})={got.tolist()} != union of per-element dofs {want.tolist()}')
            m = numpy.zeros(B.nelems, dtype=bool)
            m[sel] = True
            got = numpy.asarray(B.get_dofs(m))
            if got.tolist() != want.tolist():
                mon.viol('get_dofs(mask)', f'get_dofs(mask of {sel.tolist()})={got.tolist()} != {want.tolist()}')
        # a selection of exactly one element must still give the documented strictly increasing array
        one = int(rng.integers(0, B.nelems))
        got = numpy.asarray(B.get_dofs(numpy.array([one])))
        want1 = numpy.unique(elem_dofs[one])
        if got.tolist() != want1.tolist():
            raw = got.tolist() == elem_dofs[one].tolist()
            mon.viol('get_dofs(array)', f'get_dofs([{one}])={got.tolist()} is not the strictly increasing array {want1.tolist()} the docstring promises',
                     mechanism=FINDING_SINGLE if raw else None)
        dsel = numpy.unique(rng.integers(0, ndofs, size=min(3, ndofs)))
        want = sorted(set(i for j in dsel for i in inv[j]))
        got = numpy.asarray(B.get_support(dsel))
        if got.tolist() != want:
            mon.viol('get_support(array)', f'get_support({dsel.tolist()})={got.tolist()} != union {want}')
        got = numpy.asarray(B.get_dofs(-1))
        if got.tolist() != elem_dofs[-1].tolist():
            mon.viol('get_dofs(-1)', f'get_dofs(-1)={got.tolist()} != get_dofs(nelems-1)={elem_dofs[-1].tolist()}')
        res.count('vector_api_checks')
    return elem_dofs


# ---------------------------------------------------------------- (3) partition of unity

def check_pum(mon, V, what='sum of evaluated basis'):
    s = V.sum(1)
    mon.res.count('pum_checks')
    mon.res.count('pum_points', len(s))
    return mon.cmp('partition of unity', s, numpy.ones_like(s), what)


# ---------------------------------------------------------------- geometry from per-element affine maps

def affine_geom(base, orig, scal):
    from nutils import function
    return function.get(orig, 0, base.f_index) + base.f_coords * function.get(scal, 0, base.f_index)


def struct_orig_scal(shape, models):
    n = int(numpy.prod(shape))
    idx = numpy.stack(numpy.unravel_index(numpy.arange(n), shape), 1)
    orig = numpy.stack([models[d].K[idx[:, d]] for d in range(len(shape))], 1)
    scal = numpy.stack([models[d].K[idx[:, d] + 1] - models[d].K[idx[:, d]] for d in range(len(shape))], 1)
    return idx, orig, scal


# ---------------------------------------------------------------- (4) continuity

class ContRule:
    """Required continuity order per interface element.  kind: 'none' | 'c0' | 'spline' | 'mp'."""

    def __init__(self, kind, **kw):
        self.kind = kind
        self.shape0 = None      # base-level structured shape
        self.models0 = None     # base-level Spline1D per dim (geometry)
        self.modelsf = None     # finest-level Spline1D per dim (multiplicities by position)
        self.mp = None          # multipatch: dict(models=[[Spline1D]], shapes, patchcontinuous)
        self.parts = None       # element partition: interfaces between different parts carry no requirement
        self.__dict__.update(kw)


def _locate_knot(Kf, x, tol):
    i = int(numpy.argmin(abs(Kf - x)))
    return i if abs(Kf[i] - x) <= tol else None


def check_continuity(mon, T, B, rule, maxorder):
    from nutils import function
    res = mon.res
    if rule.kind == 'none':
        res.count('continuity/not_required')
        return
    try:
        I = T.topo.interfaces
        nI = len(I)
    except Exception as e:
        # building the interface topology is not this property's subject (C10): counted, no verdict
        res.count('refusals/interfaces')
        res.add('refusal_messages', f'interfaces: {type(e).__name__}: {str(e)[:80]}')
        return
    if nI == 0:
        res.count('continuity/no_interfaces')
        return
    IS = I.sample('gauss', 2)
    nd = T.nd
    # who is on either side, and where (in base element coordinates)
    probes = [T.topo.f_index, function.opposite(T.topo.f_index)]
    need_pos = rule.kind in ('spline', 'mp')
    if need_pos:
        probes += [T.base.f_index, T.base.f_coords]
    out = IS.eval(probes)
    ia, ib = out[0], out[1]
    # required order per interface element and direction
    req = []  # (d, kmax)
    if rule.kind == 'c0':
        for e in range(nI):
            req.append((0, 0))
    elif rule.kind == 'spline':
        bi, bx = out[2], out[3]
        idx0 = numpy.stack(numpy.unravel_index(bi, rule.shape0), 1)
        x = numpy.stack([rule.models0[d].K[idx0[:, d]] + bx[:, d] * (rule.models0[d].K[idx0[:, d] + 1] - rule.models0[d].K[idx0[:, d]]) for d in range(nd)], 1)
        for e in range(nI):
            pts = IS.getindex(e)
            req.append(_spline_requirement(x[pts], rule.modelsf, nd, res))
    elif rule.kind == 'mp':
        bi, bx = out[2], out[3]
        offsets = numpy.cumsum([0] + [int(numpy.prod(s)) for s in rule.mp['shapes']])
        patch_a = numpy.searchsorted(offsets, ia, side='right') - 1
        patch_b = numpy.searchsorted(offsets, ib, side='right') - 1
        for e in range(nI):
            pts = IS.getindex(e)
            q, q2 = int(patch_a[pts[0]]), int(patch_b[pts[0]])
            if q != q2:
                req.append((0, 0 if rule.mp['patchcontinuous'] else -1))
                res.count('continuity/interpatch_interfaces')
                continue
            models = rule.mp['models'][q]
            shape = rule.mp['shapes'][q]
            loc = numpy.stack(numpy.unravel_index(bi[pts] - offsets[q], shape), 1)
            x = numpy.stack([models[d].K[loc[:, d]] + bx[pts, d] * (models[d].K[loc[:, d] + 1] - models[d].K[loc[:, d]]) for d in range(nd)], 1)
            req.append(_spline_requirement(x, models, nd, res))
    if rule.parts is not None:
        parts = numpy.asarray(rule.parts)
        for e in range(nI):
            pts = IS.getindex(e)
            if parts[ia[pts[0]]] != parts[ib[pts[0]]]:
                req[e] = (req[e][0], -1)
                res.count('continuity/partition_interfaces_exempt')
    kmax_d = {}
    for d, k in req:
        if d is not None and k >= 0:
            kmax_d[d] = max(kmax_d.get(d, -1), min(k, maxorder))
    if not kmax_d:
        res.count('continuity/nothing_required')
        return
    # derivative chains along the interface normal direction
    funcs, keys = [], []
    geom = None
    if any(k > 0 for k in kmax_d.values()):
        if rule.kind == 'spline':
            _, orig, scal = struct_orig_scal(rule.shape0, rule.models0)
        else:
            origs, scals = [], []
            for models, shape in zip(rule.mp['models'], rule.mp['shapes']):
                _, o, s = struct_orig_scal(shape, models)
                origs.append(o)
                scals.append(s)
            orig, scal = numpy.concatenate(origs), numpy.concatenate(scals)
        geom = affine_geom(T.base, orig, scal)
    for d, kmax in sorted(kmax_d.items()):
        D = B
        for k in range(kmax + 1):
            if k > 0:
                D = function.grad(D, geom)[..., d]
            if k == 0 and (0, 0) in keys:
                continue
            keys.append((0, 0) if k == 0 else (d, k))
            funcs += [D, function.opposite(D)]
    vals = IS.eval(funcs)
    table = {key: (vals[2 * n], vals[2 * n + 1]) for n, key in enumerate(keys)}
    for e, (d, kreq) in enumerate(req):
        if d is None or kreq < 0:
            continue
        pts = IS.getindex(e)
        for k in range(min(kreq, maxorder) + 1):
            a, b = table[(0, 0) if k == 0 else (d, k)]
            a, b = a[pts], b[pts]
            scale = max(1., float(abs(a).max()), float(abs(b).max())) if a.size else 1.
            res.count(f'continuity/order{k}')
            res.count('continuity/points', len(pts))
            ok = mon.cmp('interface continuity', b, a, f'jump of normal derivative order {k} (direction {d}) across interface element {e} between elements {int(ia[pts[0]])} and {int(ib[pts[0]])}, required order {kreq}', scale=scale)
            if not ok:
                return
        if kreq > maxorder:
            res.count('continuity/orders_capped')


def _spline_requirement(x, models, nd, res):
    """x: positions (npts, nd) of one interface element -> (direction, required order)"""
    if nd == 1:
        d = 0
    else:
        span = numpy.ptp(x, axis=0)
        flat = [dd for dd in range(nd) if span[dd] <= 1e-10 * max(1., float(abs(x[:, dd]).max()))]
        if len(flat) != 1:
            res.count('continuity/unlocated')
            return (None, -1)
        d = flat[0]
    S = models[d]
    i = _locate_knot(S.K, float(x[0, d]), 1e-8 * max(1., float(abs(S.K).max())))
    if i is None:
        res.count('continuity/unlocated')
        return (None, -1)
    if i == 0 or i == S.n:
        if S.periodic:
            res.count('continuity/periodic_wrap_interfaces')
            return (d, S.p - S.mult_at_knot(0))
        res.count('continuity/wrap_without_periodic_spline')
        return (d, -1)
    return (d, S.p - S.mult_at_knot(i))


# ---------------------------------------------------------------- (5) closed forms

def discont_count(topo, degree):
    n = 0
    for ref in topo.references:
        nd = ref.ndims
        nv = ref.nverts
        # simplices have nd+1 vertices, tensor cubes 2**nd; trimmed references are based on one of them
        base = ref
        while hasattr(base, 'baseref'):
            base = base.baseref
        nv = base.nverts
        if nv == nd + 1:
            n += math.comb(degree + nd, nd)
        elif nv == 2**nd:
            n += (degree + 1)**nd
        else:
            return None
    return n


def mp_count(mp, models, patchcontinuous):
    """dimension of a multipatch spline space (2-D/3-D layouts of this generator, open knot vectors)"""
    patches = mp['patches']
    nd = patches.ndim - 1
    total = sum(int(numpy.prod([S.nd for S in row])) for row in models)
    if not patchcontinuous:
        return total
    # shared sides
    sides = {}
    for q, verts in enumerate(patches):
        for d in range(nd):
            for side in (0, 1):
                idx = tuple(side if j == d else slice(None) for j in range(nd))
                key = frozenset(int(v) for v in numpy.asarray(verts[idx]).flat)
                ndofs_side = int(numpy.prod([S.nd for j, S in enumerate(models[q]) if j != d]))
                sides.setdefault(key, []).append((q, ndofs_side))
    if nd == 1:
        # sides are vertices: k patches meeting in a vertex share one dof
        return total - sum(len(v) - 1 for v in sides.values())
    shared = {k: v for k, v in sides.items() if len(v) > 1}
    if any(len(v) > 2 for v in shared.values()):
        return None
    total -= sum(v[0][1] for v in shared.values())
    if nd == 2:
        nverts = int(patches.max()) + 1
        for v in range(nverts):
            P = sum(1 for verts in patches if v in verts)
            Sv = sum(1 for k in shared if v in k)
            if P > 1:
                total += Sv - (P - 1)
        return total
    if nd == 3:
        return total if len(shared) <= 1 else None
    return None


# ---------------------------------------------------------------- spline values against Cox-de Boor

def spline_reference_values(S, shape, models, keep):
    """full (npoints, ndofs) matrix of the tensor-product spline basis on the sample S of a structured topology"""
    nd = len(shape)
    total = int(numpy.prod([m.nd for m in models]))
    E = numpy.zeros((S.npoints, total if keep is None else int(keep.sum())))
    for e in range(int(numpy.prod(shape))):
        mi = numpy.unravel_index(e, shape)
        idx = S.getindex(e)
        xi = S.points[e].coords
        v = None
        for d in range(nd):
            vd = models[d].eval_elem(int(mi[d]), xi[:, d])
            v = vd if v is None else (v[:, :, None] * vd[:, None, :]).reshape(len(idx), -1)
        E[idx] = v if keep is None else v[:, keep]
    return E
