"""C19: independent reference recogniser for the expression_v2 grammar as
documented in the module docstring (and pinned by the repository's tests).

``parse(string) -> tree`` (same tree format as the generator) or raises
``Invalid`` (a documented rule is violated: must be rejected) or
``Unclassified`` (the documentation does not decide).  Index rules are
checked afterwards by ``c19_core.analyse``.

Implementation note: a character scanner with an explicit bracket stack and
word splitting -- deliberately unlike nutils' nested `_Substring.split`.
"""

import re
from vlib.c19_core import Invalid, Unclassified

OPEN = {'(': ')', '[': ']', '{': '}'}
CLOSE = {v: k for k, v in OPEN.items()}
# characters that have a role in the documented grammar
GRAMMAR_CHARS = set(' _^+-/.()[]{}')


EXTRA_NAME_CHARS = set('∇δε')   # non-alphanumeric characters that the documented examples use in names


def _is_name_char(ch):
    return ch.isalpha() or ch.isdigit() or ch in EXTRA_NAME_CHARS


def check_brackets(s):
    stack = []
    for i, ch in enumerate(s):
        if ch in OPEN:
            stack.append(ch)
        elif ch in CLOSE:
            if not stack:
                raise Invalid('unbalanced brackets: unexpected {!r} at {}'.format(ch, i))
            if stack.pop() != CLOSE[ch]:
                raise Invalid('unbalanced brackets: mismatched {!r} at {}'.format(ch, i))
    if stack:
        raise Invalid('unbalanced brackets: unclosed {!r}'.format(stack[-1]))


def words(s):
    """Split at runs of spaces that are outside any bracket."""
    out, depth, cur = [], 0, ''
    for ch in s:
        if ch in OPEN:
            depth += 1
        elif ch in CLOSE:
            depth -= 1
        if ch == ' ' and depth == 0:
            if cur:
                out.append(cur)
            cur = ''
        else:
            cur += ch
    if cur:
        out.append(cur)
    return out


def top_level_positions(w, chars):
    """Positions in word w (outside brackets) of any of `chars`."""
    depth, pos = 0, []
    for i, ch in enumerate(w):
        if ch in OPEN:
            depth += 1
        elif ch in CLOSE:
            depth -= 1
        elif depth == 0 and ch in chars:
            pos.append(i)
    return pos


def parse(s):
    for ch in s:
        if not (_is_name_char(ch) or ch in GRAMMAR_CHARS):
            # no production of the grammar contains this character; as part of a name it is an unknown name --
            # unless it sits inside something that looks like a number, where "the usual way" is not precise
            for w in re.split(r'[ ()\[\]{}]', s):
                if ch in w and w[:1] and (w[0].isdigit() or w[0] == '.'):
                    raise Unclassified('character {!r} inside a number-like word'.format(ch))
            raise Invalid('character {!r} has no meaning in the grammar'.format(ch))
    check_brackets(s)
    return expression(s)


def expression(s):
    ws = words(s)
    if not ws:
        raise Invalid('empty expression')
    first_sign = '+'
    if ws[0] == '-':
        first_sign = '-'
        ws = ws[1:]
        if not ws:
            raise Invalid('minus without a term')
    elif ws[0][0] == '-':
        first_sign = '-'
        ws[0] = ws[0][1:]
    terms, cur, sign = [], [], first_sign
    for w in ws:
        if w in ('+', '-'):
            if not cur:
                raise Invalid('operator {!r} without a left operand'.format(w))
            terms.append([sign, term(cur)])
            cur, sign = [], w
        else:
            cur.append(w)
    if not cur:
        raise Invalid('operator without a right operand')
    terms.append([sign, term(cur)])
    if len(terms) == 1 and first_sign == '+':
        return terms[0][1]
    return ['sum', terms]


def term(ws):
    nslash = ws.count('/')
    if nslash > 1:
        raise Invalid('repeated fraction')
    if nslash == 1:
        k = ws.index('/')
        if k == 0 or k == len(ws) - 1:
            raise Invalid('fraction without numerator or denominator')
        num, den = product(ws[:k]), product(ws[k + 1:])
        return ['frac', num if num[0] == 'prod' else ['prod', [num]], den if den[0] == 'prod' else ['prod', [den]]]
    return product(ws)


def product(ws):
    factors = [item(w, first=(k == 0)) for k, w in enumerate(ws)]
    return factors[0] if len(factors) == 1 else ['prod', factors]


_INT = re.compile(r'^[0-9]+$')
_DEC = re.compile(r'^([0-9]+\.[0-9]+|\.[0-9]+)$')


def number(w):
    if _INT.match(w):
        if len(w) > 1 and w[0] == '0':
            raise Unclassified('integer with leading zero')
        return ['num', w]
    if _DEC.match(w):
        if len(w.split('.')[0]) > 1 and w[0] == '0':
            raise Unclassified('decimal with leading zeros')
        return ['num', w]
    try:
        float(w)
    except ValueError:
        try:
            int(w)
        except ValueError:
            raise Invalid('{!r} is not a number'.format(w)) from None
    raise Unclassified('number {!r} in a notation the documentation does not list'.format(w))


def item(w, first):
    """One space-free word of a product: number, variable, scope, jump, mean or call, optionally with ^exponent."""
    # operators must be surrounded by whitespace; the only sign inside a word is the one of an integer exponent
    for p in top_level_positions(w, '+-/'):
        if w[p] == '-' and p > 0 and w[p - 1] == '^':
            continue
        if w[0].isdigit() or w[0] == '.':
            return number_word(w, first)    # things like 1e-3: python would read a float
        raise Invalid('operator {!r} not surrounded by whitespace in {!r}'.format(w[p], w))
    carets = top_level_positions(w, '^')
    if len(carets) > 1:
        raise Invalid('repeated power in {!r}'.format(w))
    if carets:
        b, e = w[:carets[0]], w[carets[0] + 1:]
        if not b:
            raise Invalid('power without base')
        base = atom(b, first)
        if not e:
            raise Invalid('power without exponent')
        if re.match(r'^-?[0-9]+$', e):
            digits = e.lstrip('-')
            if len(digits) > 1 and digits[0] == '0':
                raise Unclassified('exponent with leading zero')
            return ['pow', base, ['int', int(e)]]
        if e[0] == '(' and _closes_at_end(e):
            return ['pow', base, expression(e[1:-1])]
        if e[0] in '([{' or e[-1] in ')]}':
            # a jump/mean or a call as exponent, or something after the scope: the text allows "number, variable or compound"
            if e[0] == '(':
                raise Invalid('symbols after the scoped exponent')
            raise Unclassified('exponent {!r} is neither an int nor a parenthesised expression'.format(e))
        body = e[1:] if e[0] == '-' else e
        isnum = False
        try:
            float(body)
            isnum = body[:1].isdigit() or body[:1] == '.'
        except ValueError:
            pass
        head = body.partition('_')[0]
        isvar = bool(head) and not (head[0].isdigit() or head[0] == '.') and all(_is_name_char(ch) for ch in head) and body.count('_') <= 1
        if isnum or isvar:
            raise Unclassified('exponent {!r}: the text allows a number or variable, the implementation an int or a scope'.format(e))
        raise Invalid('exponent {!r} is not a number, variable or compound expression'.format(e))
    return atom(w, first)


def number_word(w, first):
    n = number(w)
    if not first:
        raise Invalid('number {!r} not at the start of a term'.format(w))
    return n


def _closes_at_end(w):
    """w starts with a bracket; does that bracket close at the very end of w?"""
    depth = 0
    for i, ch in enumerate(w):
        if ch in OPEN:
            depth += 1
        elif ch in CLOSE:
            depth -= 1
            if depth == 0:
                return i == len(w) - 1
    return False


def atom(w, first):
    if w[0].isdigit() or w[0] == '.':
        if any(ch in w for ch in '()[]{}'):
            raise Invalid('{!r} is not a number, variable, scope or call'.format(w))
        return number_word(w, first)
    if w[0] in OPEN:
        if not _closes_at_end(w):
            raise Invalid('symbols after the scope in {!r}'.format(w))
        return ['scope', w[0], expression(w[1:-1])]
    # name [_indices] [(argument)]
    k = 0
    while k < len(w) and w[k] not in '([{':
        k += 1
    head, tail = w[:k], w[k:]
    if tail:
        if tail[0] != '(':
            raise Invalid('{!r}: a name directly followed by {!r}'.format(w, tail[0]))
        if not _closes_at_end(tail):
            raise Invalid('symbols after the call in {!r}'.format(w))
    if any(ch in CLOSE for ch in head):
        raise Invalid('stray closing bracket in {!r}'.format(w))
    name, us, idx = head.partition('_')
    if not name:
        raise Invalid('{!r}: missing name'.format(w))
    if not all(_is_name_char(ch) for ch in name):
        raise Invalid('{!r} is not a name'.format(name))

    if '_' in idx:
        raise Invalid('second underscore in {!r}'.format(w))
    if '^' in idx or '.' in idx:
        raise Invalid('symbol in index position in {!r}'.format(w))
    if tail:
        inner = tail[1:-1]
        if not inner.strip(' '):
            raise Invalid('call without argument')
        return ['call', name, idx, expression(inner)] + (['trailing-underscore'] if us and not idx else [])
    return ['var', name, idx] + (['trailing-underscore'] if us and not idx else [])
