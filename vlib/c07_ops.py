"""C07 helper: catalogue of the NumPy-API operations nutils handles (function.HANDLED_FUNCTIONS) plus __getitem__.

For every operation: `call(form, params, operands, cast)` is ONE NumPy-API expression that is applied both to nutils
function arrays (then NumPy dispatches to nutils) and to the per-point numpy values of the same operands (then it is
plain NumPy): the homomorphism oracle.  `gen(g)` draws a valid call; `domain` keeps NumPy free of warnings, away from
singularities, branch cuts and kinks.
"""

import operator, itertools, math
import numpy
from vlib import tolerance

KIND = tolerance.KIND


class NumpyRefuses(Exception):
    """NumPy itself rejects the call (dtype or shape): there is no reference."""


def kind_of(a):
    return KIND.get(numpy.asarray(a).dtype.kind, '?')


def cast_bool_to_int(v):
    """bool and narrow integer / float types -> 64 bit (NumPy would otherwise compute in float16/float32)"""
    v = numpy.asarray(v)
    if v.dtype.kind in 'biu':
        return v.astype(numpy.int64)
    if v.dtype.kind == 'f':
        return v.astype(numpy.float64)
    if v.dtype.kind == 'c':
        return v.astype(numpy.complex128)
    return v


# ---------------------------------------------------------------------------------------------------------------------
# Differences between nutils and NumPy that are accepted by this check, each one explicit.

class _KindDifferences:
    table = [
        dict(op='conjugate', operands='bool', numpy='int8 (kind i)', nutils='bool', why='nutils conjugate is the identity on non-complex arrays (dtype preserved); NumPy has no bool loop and upcasts'),
        dict(op='linalg.eig', operands='real matrix with real spectrum', numpy='float', nutils='complex', why='nutils declares the dtype statically: eig is always complex (function.eig); NumPy decides from the data'),
        dict(op='matmul / dot / vdot / einsum', operands='all operands bool', numpy='bool (or-of-ands)', nutils='int (count)',
             why='contractions are multiply+sum and nutils documents sum of bool -> int (tests sum-bool, function.sum); the reference is computed on the operands cast to int'),
        dict(op='sin cos ... true_divide of bool/int', operands='bool, int', numpy='float16/float64 (kind f)', nutils='float', why='same kind; the reference is recomputed in double precision when NumPy picks a narrower float'),
    ]
    refusals = [
        'NotImplementedError (repeat on non-singleton axes, norm with ord, ...)',
        "ValueError/TypeError with 'not supported' / 'not defined' / 'no total order' / 'Use logical operators' (bool negative/subtract, int reciprocal, bool or complex floor division, complex sign/arctan2/ordering, bool ordering)",
        'TypeError: NotImplemented returned from __array_ufunc__/__array_function__ (logical/bitwise ops and all/any on non-bool, axis tuples for all/any)',
        'TypeError: unexpected keyword / missing positional argument (NumPy keywords nutils does not take: dtype, out, where, keepdims, mode, prod without axis, repeat without axis ...)',
        'ValueError: sum() axis-mandatory transition error of Array.sum',
        "ValueError: 'axis lengths do not match' (diagonal/trace of non-square axis pairs), 'dimension must be 2 or 3' (cross), 'expected a condition of length' (compress, documented stricter)",
    ]

    @staticmethod
    def expected_kind(opname, form, params, kinds, numpy_kind):
        if opname == 'conjugate' and kinds == ['b']:
            return 'b'
        if opname == 'linalg.eig':
            return 'c'
        return numpy_kind


KIND_DIFFERENCES = _KindDifferences()

DOCUMENTED_REFUSALS = [
    ('not supported', r'not supported'),
    ('not defined', r'is not defined for'),
    ('no total order', r'no total order'),
    ('use logical operators', r'Use logical operators'),
    ('NotImplemented from dispatch', r'returned NotImplemented|no implementation found'),
    ('unexpected keyword', r'unexpected keyword argument'),
    ('missing argument', r'missing \d+ required positional argument'),
    ('too many arguments', r'takes \d+ positional arguments? but'),
    ('sum axis mandatory', r'argument has been made MANDATORY'),
    ('only axes with length 1', r'only axes with length 1'),
    ('ord not supported', r'only "ord" values of None'),
    ('axis lengths do not match', r'axis lengths do not match'),
    ('cross dimension', r'dimension must be 2 or 3'),
    ('compress stricter', r'expected a condition of length'),
    ('einsum subscripts form', r'first einsum argument must be a string'),
    ('basis mask must be increasing', r'`indices` should be strictly monotonic increasing'),
    ('basis mask out of range', r'`indices` out of range'),
]


# ---------------------------------------------------------------------------------------------------------------------

class Op:
    static = False          # returns a python value (shape/ndim/size)
    terminal = False        # result is never used as an operand
    needs_array = True
    bounds = None
    forms = ('func',)
    weight = 1.
    shape_sensitive = False  # used by the rejection monitor

    def __init__(self, name, **kw):
        self.name = name
        for k, v in kw.items():
            setattr(self, k, v)

    def domain(self, form, params, vals):
        return True

    def ref(self, form, params, vals):
        return self.call(form, params, vals, numpy.asarray)

    def extrascale(self, form, params, args):
        return 0.

    def compare(self, form, params, obs, ref, scale, args, P):
        return tolerance.compare(obs, ref, scale=scale, check_kind=False)


OPS = {}


def register(op):
    OPS[op.name] = op
    return op


def real_min(v):
    return float(numpy.min(v)) if numpy.size(v) else 1.


def absmin(v):
    return float(numpy.min(numpy.abs(v))) if numpy.size(v) else 1.


def absmax(v):
    return float(numpy.max(numpy.abs(v))) if numpy.size(v) else 0.


def away_from_negative_real_axis(z, margin=.05):
    z = numpy.asarray(z)
    if z.dtype.kind != 'c':
        return True
    return bool(numpy.all((z.real > margin) | (numpy.abs(z.imag) > margin)))


# ---- unary elementwise ---------------------------------------------------------------------------------------------

def _dom_true(x):
    return True


def _dom_recip(x):
    return absmin(x) > .1


def _dom_sqrt(x):
    x = numpy.asarray(x)
    if x.dtype.kind == 'c':
        return absmin(x) > .05 and away_from_negative_real_axis(x)
    if x.dtype.kind in 'biu':
        return real_min(x) >= 0
    return bool(numpy.all(x > .01))


def _dom_log(x):
    x = numpy.asarray(x)
    if x.dtype.kind == 'c':
        return absmin(x) > .1 and away_from_negative_real_axis(x)
    return bool(numpy.all(x > .1))


def _dom_unit(x):
    return absmax(x) < .9


def _dom_sign(x):
    x = numpy.asarray(x)
    return x.dtype.kind in 'biu' or absmin(x) > 1e-6


def _dom_tan(x):
    x = numpy.asarray(x)
    if x.dtype.kind == 'c':
        return absmax(x.imag) < 3 and absmin(numpy.cos(x)) > .05
    return absmin(numpy.cos(x.astype(float))) > .05


def _dom_exp(x):
    x = numpy.asarray(x)
    return float(numpy.max(x.real)) < 8 if x.size else True


def _dom_hyp(x):
    x = numpy.asarray(x)
    return absmax(x.real) < 8 if x.size else True


def _dom_tanh(x):
    x = numpy.asarray(x)
    if x.dtype.kind == 'c':
        return absmax(x.real) < 8 and absmin(numpy.cosh(x)) > .05
    return True


def _dom_arctan(x):
    x = numpy.asarray(x)
    if x.dtype.kind == 'c':
        return absmax(x) < .9
    return True


UNARY = {
    # name: (kinds numpy accepts and nutils supports, extra kinds that nutils refuses with a documented error, domain, dist, operator)
    'positive': ('ifc', '', _dom_true, 'std', operator.pos),
    'negative': ('ifc', '', _dom_true, 'std', operator.neg),
    'reciprocal': ('fc', 'i', _dom_recip, 'nonzero', None),
    'sqrt': ('bifc', '', _dom_sqrt, 'pos', None),
    'square': ('bifc', '', _dom_true, 'std', None),
    'absolute': ('ifc', '', _dom_true, 'std', operator.abs),
    'sign': ('if', 'c', _dom_sign, 'nonzero', None),
    'sin': ('bifc', '', _dom_hyp, 'std', None),
    'cos': ('bifc', '', _dom_hyp, 'std', None),
    'tan': ('bifc', '', _dom_tan, 'unit', None),
    'arcsin': ('ifc', '', _dom_unit, 'unit', None),
    'arccos': ('ifc', '', _dom_unit, 'unit', None),
    'arctan': ('bifc', '', _dom_arctan, 'unit', None),
    'sinc': ('bifc', '', _dom_hyp, 'std', None),
    'cosh': ('bifc', '', _dom_hyp, 'std', None),
    'sinh': ('bifc', '', _dom_hyp, 'std', None),
    'tanh': ('bifc', '', _dom_tanh, 'std', None),
    'arctanh': ('ifc', '', _dom_unit, 'unit', None),
    'exp': ('bifc', '', _dom_exp, 'std', None),
    'log': ('bifc', '', _dom_log, 'pos', None),
    'log2': ('bifc', '', _dom_log, 'pos', None),
    'log10': ('bifc', '', _dom_log, 'pos', None),
    'logical_not': ('b', 'if', _dom_true, 'std', None),
    'invert': ('b', 'i', _dom_true, 'std', operator.invert),
    'conjugate': ('bifc', '', _dom_true, 'std', None),
    'real': ('bifc', '', _dom_true, 'std', None),
    'imag': ('bifc', '', _dom_true, 'std', None),
}


class UnaryOp(Op):
    def __init__(self, name):
        kinds, refused, dom, dist, oper = UNARY[name]
        forms = ['ufunc']
        if oper:
            forms.append('operator')
        if name in ('conjugate', 'real', 'imag'):
            forms.append('method')
        super().__init__(name, kinds=kinds, refused=refused, dom=dom, dist=dist, oper=oper, forms=tuple(forms))

    def call(self, form, params, ops, cast):
        x, = ops
        if form == 'operator':
            return self.oper(x)
        if form == 'method':
            x = cast(x)
            return x.conjugate() if self.name == 'conjugate' else getattr(x, self.name)
        return getattr(numpy, self.name)(x)

    def domain(self, form, params, vals):
        return self.dom(vals[0])

    def gen(self, g):
        kinds = self.kinds
        if self.refused and g.rng.random() < .06:
            kinds = self.refused       # exercise the documented refusal
        x = g.operand(kinds, dist=self.dist)
        g.note_dtypes(self.name, [x])
        return g.rng.choice(self.forms), [x.id], {}


for _n in UNARY:
    register(UnaryOp(_n))


# ---- binary elementwise --------------------------------------------------------------------------------------------

def _near_integer(q, tol=1e-6):
    q = numpy.asarray(q, dtype=float)
    return bool(numpy.any(numpy.abs(q - numpy.round(q)) < tol))


def _dom_div(a, b):
    return absmin(b) > .1


def _dom_floordiv(a, b):
    a, b = numpy.asarray(a), numpy.asarray(b)
    if absmin(b) < .1:
        return False
    if a.dtype.kind in 'biu' and b.dtype.kind in 'biu':
        return True
    return not _near_integer(numpy.asarray(a, dtype=float) / numpy.asarray(b, dtype=float))


def _dom_power(a, b):
    a, b = numpy.asarray(a), numpy.asarray(b)
    if a.dtype.kind in 'biu' and b.dtype.kind in 'biu':
        return real_min(b) >= 0 and (absmax(a) ** max(1., absmax(b))) < 1e6
    if b.dtype.kind in 'biu' and real_min(b) >= 0:
        return True
    if a.dtype.kind == 'c':
        return absmin(a) > .1 and away_from_negative_real_axis(a) and absmax(b) < 4
    if b.dtype.kind == 'c':
        return bool(numpy.all(a.real > .1)) and absmax(b) < 4
    return bool(numpy.all(a > .1)) and absmax(b) < 6


def _dom_arctan2(a, b):
    a, b = numpy.asarray(a, dtype=float), numpy.asarray(b, dtype=float)
    return bool(numpy.all((numpy.abs(a) > 1e-3) | (b > 1e-3)))


def _dom_order(a, b):
    a, b = numpy.asarray(a), numpy.asarray(b)
    if a.dtype.kind in 'biu' and b.dtype.kind in 'biu':
        return True
    return absmin(a - b) > 1e-6


def _dom_any2(a, b):
    return True


BINARY = {
    # name: (kinds, pairs numpy refuses, pairs nutils refuses (documented), domain, dist of right operand, operator)
    'add': ('bifc', [], [], _dom_any2, 'std', operator.add),
    'subtract': ('bifc', ['bb'], [], _dom_any2, 'std', operator.sub),
    'multiply': ('bifc', [], [], _dom_any2, 'std', operator.mul),
    'true_divide': ('bifc', [], [], _dom_div, 'nonzero', operator.truediv),
    'floor_divide': ('bif', [], ['bb'], _dom_floordiv, 'nonzero', operator.floordiv),
    'mod': ('bif', [], ['bb'], _dom_floordiv, 'nonzero', operator.mod),
    'divmod': ('bif', [], ['bb'], _dom_floordiv, 'nonzero', divmod),
    'power': ('bifc', [], [], _dom_power, 'std', operator.pow),
    'hypot': ('bif', [], [], _dom_any2, 'std', None),
    'arctan2': ('bif', [], [], _dom_arctan2, 'pos', None),
    'greater': ('bif', [], ['bb'], _dom_order, 'std', operator.gt),
    'less': ('bif', [], ['bb'], _dom_order, 'std', operator.lt),
    'equal': ('bifc', [], [], _dom_order, 'std', operator.eq),
    'minimum': ('bif', [], [], _dom_any2, 'std', None),
    'maximum': ('bif', [], [], _dom_any2, 'std', None),
    'logical_and': ('b', [], [], _dom_any2, 'std', None),
    'bitwise_and': ('b', [], [], _dom_any2, 'std', operator.and_),
    'logical_or': ('b', [], [], _dom_any2, 'std', None),
    'bitwise_or': ('b', [], [], _dom_any2, 'std', operator.or_),
}
COMPLEX_REFUSED = ('greater', 'less', 'minimum', 'maximum')   # numpy orders complex numbers lexicographically, nutils refuses
NONBOOL_REFUSED = ('logical_and', 'bitwise_and', 'logical_or', 'bitwise_or')


class BinaryOp(Op):
    shape_sensitive = True

    def __init__(self, name):
        kinds, np_ref, nu_ref, dom, dist, oper = BINARY[name]
        forms = ['ufunc'] + (['operator'] if oper else [])
        super().__init__(name, kinds=kinds, np_refused=np_ref, nu_refused=nu_ref, dom=dom, dist=dist, oper=oper, forms=tuple(forms))
        if name == 'mod':
            self.bounds = self._mod_bounds
        if name in ('add', 'subtract'):
            self.bounds = self._shift_bounds

    def call(self, form, params, ops, cast):
        a, b = ops
        r = self.oper(a, b) if form == 'operator' else getattr(numpy, self.name)(a, b)
        if self.name == 'divmod':
            return r[params['out']]
        return r

    def domain(self, form, params, vals):
        return self.dom(*vals)

    @staticmethod
    def _mod_bounds(form, params, args):
        a, b = args
        if a.kind == 'i' and b.kind == 'i' and b.leaf in ('const', 'raw') and b.bounds and b.bounds[0] == b.bounds[1] and b.bounds[0] > 0 and b.shape == ():
            return (0, b.bounds[0] - 1)

    def _shift_bounds(self, form, params, args):
        a, b = args
        if a.kind == 'i' and b.kind == 'i' and a.bounds and b.bounds:
            if self.name == 'add':
                return (a.bounds[0] + b.bounds[0], a.bounds[1] + b.bounds[1])
            return (a.bounds[0] - b.bounds[1], a.bounds[1] - b.bounds[0])

    def gen(self, g):
        rng = g.rng
        kinds = self.kinds
        name = self.name
        r = rng.random()
        if name in COMPLEX_REFUSED and r < .05:
            kinds = 'c'
        elif name in NONBOOL_REFUSED and r < .08:
            kinds = 'if'
        dista = 'std'
        if name == 'power':
            # int ** int needs a provably non-negative exponent: a constant
            mode = rng.choice(['intconst', 'float', 'float', 'cplx']) if 'c' in kinds else 'float'
            if mode == 'intconst':
                a = g.operand('bifc', dist='std')
                b = g.fresh(rng.choice(['i', 'i', 'b']), g.compatible_shape(a.shape) if rng.random() < .5 else (), dist='nonneg_int', leafkinds=('const', 'raw', 'pyscalar'))
                g.note_dtypes(name, [a, b])
                g.note_bcast(a, b)
                return rng.choice(self.forms), [a.id, b.id], {}
            a = g.operand('fc' if mode == 'cplx' else 'f', dist='pos')
            b = g.second(a, 'ifc' if mode == 'cplx' else 'if', dist='std')
            g.note_dtypes(name, [a, b])
            g.note_bcast(a, b)
            return rng.choice(self.forms), [a.id, b.id], {}
        if rng.random() < .5:
            a = g.operand(kinds, dist=dista)
            b = g.second(a, kinds, dist=self.dist)
        else:
            b = g.operand(kinds, dist=self.dist)
            a = g.second(b, kinds, dist=dista)
        pair = a.kind + b.kind
        if pair in self.np_refused:
            return None
        if pair in self.nu_refused and rng.random() > .15:
            return None
        g.note_dtypes(name, [a, b])
        g.note_bcast(a, b)
        params = {'out': int(rng.integers(2))} if name == 'divmod' else {}
        return rng.choice(self.forms), [a.id, b.id], params


for _n in BINARY:
    register(BinaryOp(_n))


# ---- static attributes ---------------------------------------------------------------------------------------------

class StaticOp(Op):
    static = True
    weight = .3

    def call(self, form, params, ops, cast):
        return getattr(numpy, self.name)(ops[0])

    def gen(self, g):
        x = g.operand('bifc', need_array=True)
        return 'func', [x.id], {}


for _n in ('shape', 'ndim', 'size'):
    register(StaticOp(_n))


# ---- reductions ----------------------------------------------------------------------------------------------------

def _norm_axes(axis, ndim):
    if axis is None:
        return tuple(range(ndim))
    if isinstance(axis, int):
        return (axis % ndim,)
    return tuple(a % ndim for a in axis)


def _rand_axis(g, ndim, allow_none=True, allow_tuple=True):
    rng = g.rng
    r = rng.random()
    if ndim == 0 or (allow_none and r < .2):
        return None
    if allow_tuple and ndim >= 2 and r < .45:
        k = int(rng.integers(2, ndim + 1))
        axes = [int(a) for a in rng.choice(ndim, size=k, replace=False)]
        return [a - ndim if rng.random() < .3 else a for a in axes]
    a = int(rng.integers(ndim))
    return a - ndim if rng.random() < .4 else a


def _ax(axis):
    return tuple(axis) if isinstance(axis, list) else axis


class SumProd(Op):
    forms = ('func', 'kw', 'method')

    def call(self, form, params, ops, cast):
        x, = ops
        axis = _ax(params['axis'])
        f = getattr(numpy, self.name)
        if form == 'func':
            return f(x, axis)
        if form == 'kw':
            return f(x, axis=axis)
        if form == 'noaxis':
            return f(x)
        x = cast(x)
        return getattr(x, self.name)(axis) if axis is not None or self.name == 'prod' else getattr(x, self.name)()

    def domain(self, form, params, vals):
        x = numpy.asarray(vals[0])
        if self.name == 'prod' and x.size:
            return float(numpy.prod(numpy.maximum(numpy.abs(x).astype(float), 1.))) < 1e6
        return True

    def gen(self, g):
        x = g.operand('bifc', need_array=True)
        axis = _rand_axis(g, len(x.shape))
        form = g.rng.choice(['func', 'func', 'kw', 'method'])
        if axis is None and g.rng.random() < .3:
            form = 'noaxis'     # numpy.sum(a): all axes; numpy.prod(a): nutils demands the axis argument (documented refusal)
        g.note_dtypes(self.name, [x])
        return form, [x.id], dict(axis=axis)


register(SumProd('sum'))
register(SumProd('prod'))


class AllAny(Op):
    forms = ('func', 'kw', 'noaxis')

    def call(self, form, params, ops, cast):
        x, = ops
        f = getattr(numpy, self.name)
        axis = _ax(params['axis'])
        if form == 'noaxis':
            return f(x)
        return f(x, axis) if form == 'func' else f(x, axis=axis)

    def gen(self, g):
        rng = g.rng
        x = g.operand('b' if rng.random() < .93 else 'if', need_array=True)
        axis = _rand_axis(g, len(x.shape), allow_tuple=rng.random() < .1)
        form = 'noaxis' if axis is None and rng.random() < .5 else rng.choice(['func', 'kw'])
        g.note_dtypes(self.name, [x])
        return form, [x.id], dict(axis=axis)


register(AllAny('all'))
register(AllAny('any'))


# ---- contractions --------------------------------------------------------------------------------------------------

class Contraction(Op):
    shape_sensitive = True

    def ref(self, form, params, vals):
        if all(kind_of(v) == 'b' for v in vals):
            vals = [cast_bool_to_int(v) for v in vals]     # accepted difference: bool contraction counts (sum of bool -> int)
        return self.call(form, params, vals, numpy.asarray)


class MatMul(Contraction):
    forms = ('func', 'operator')

    def call(self, form, params, ops, cast):
        a, b = ops
        return operator.matmul(a, b) if form == 'operator' else numpy.matmul(a, b)

    def gen(self, g):
        rng = g.rng
        a = g.operand('bifc', ndim=(1, 3))
        n = a.shape[-1]
        r = rng.random()
        if r < .3:
            bshape = (n,)
        else:
            m = int(rng.integers(1, 4))
            bshape = (n, m)
            if len(a.shape) == 3 and r < .7:
                bshape = (a.shape[0] if rng.random() < .6 else 1, n, m)
            elif len(a.shape) == 2 and r < .5:
                bshape = (int(rng.integers(1, 3)), n, m)
        b = g.shaped('bifc', bshape)
        if rng.random() < .3 and len(a.shape) <= 2 and len(b.shape) <= 2:
            # swap roles through transposition of shapes: (m,n)@(n,) <-> (n,)@(n,m)
            pass
        g.note_dtypes('matmul', [a, b])
        return rng.choice(self.forms), [a.id, b.id], {}


register(MatMul('matmul'))


class Dot(Contraction):
    def call(self, form, params, ops, cast):
        return numpy.dot(*ops)

    def ref(self, form, params, vals):
        if any(numpy.ndim(v) == 0 for v in vals):
            return self.call(form, params, vals, numpy.asarray)     # scalar operand: plain multiplication, nothing is summed
        return super().ref(form, params, vals)

    def gen(self, g):
        rng = g.rng
        a = g.operand('bifc', ndim=(0, 3))
        if len(a.shape) == 0 or rng.random() < .1:
            b = g.operand('bifc', ndim=(0, 2))
        else:
            n = a.shape[-1]
            r = rng.random()
            if r < .4:
                bshape = (n,)
            elif r < .8 or len(a.shape) == 3:
                bshape = (n, int(rng.integers(1, 4)))
            else:
                bshape = (int(rng.integers(1, 3)), n, int(rng.integers(1, 3)))
            b = g.shaped('bifc', bshape)
        g.note_dtypes('dot', [a, b])
        return 'func', [a.id, b.id], {}


register(Dot('dot'))


class VDot(Contraction):
    def call(self, form, params, ops, cast):
        return numpy.vdot(*ops)

    def gen(self, g):
        a = g.operand('bifc', ndim=(0, 3))
        shape = a.shape
        r = g.rng.random()
        if r < .2 and len(shape) >= 2 and len(set(shape)) > 1:
            shape = shape[::-1]      # equal size, different shape: numpy ravels both operands
        elif r < .3 and len(shape) >= 1:
            shape = (int(numpy.prod(shape, dtype=int)),)
        b = g.shaped('bifc', shape)
        g.note_dtypes('vdot', [a, b])
        return 'func', [a.id, b.id], {}


register(VDot('vdot'))


class Einsum(Contraction):
    def call(self, form, params, ops, cast):
        return numpy.einsum(params['subscripts'], *ops)

    def gen(self, g):
        rng = g.rng
        nops = int(rng.choice([1, 2, 2, 2, 3]))
        labels = 'ijklm'
        sizes = {}
        first = g.operand('bifc', ndim=(1, 3), need_array=True)
        subs = []
        ids = [first.id]
        nodes = [first]
        # labels of the first operand (repeat a label when two axes have equal length -> diagonal)
        s = ''
        for n in first.shape:
            same = [c for c in sizes if sizes[c] == n and c in s]
            if same and rng.random() < .35:
                s += rng.choice(same)
            else:
                c = labels[len(sizes)]
                sizes[c] = n
                s += c
        subs.append(s)
        for k in range(1, nops):
            nd = int(rng.integers(1, 3))
            s = ''
            for _ in range(nd):
                if sizes and rng.random() < .7 or len(sizes) >= len(labels):
                    s += rng.choice(sorted(sizes))
                else:
                    c = labels[len(sizes)]
                    sizes[c] = int(rng.integers(1, 4))
                    s += c
            subs.append(s)
            nd_ = g.shaped('bifc', tuple(sizes[c] for c in s))
            nodes.append(nd_)
            ids.append(nd_.id)
        used = sorted(set(''.join(subs)))
        ell = False
        if rng.random() < .2:
            # replace a common leading label by an ellipsis
            lead = subs[0][0]
            if all((s[0] == lead and s.count(lead) == 1) or lead not in s for s in subs):
                subs = [('...' + s[1:]) if s[0] == lead else s for s in subs]
                used = [c for c in used if c != lead]
                ell = True
        if rng.random() < .3:
            sub = ','.join(subs)          # implicit output
        else:
            k = int(rng.integers(0, len(used) + 1))
            out = ''.join(rng.permutation(used)[:k]) if used else ''
            sub = ','.join(subs) + '->' + ('...' if ell else '') + out
        g.note_dtypes('einsum', nodes)
        return 'func', ids, dict(subscripts=sub)


register(Einsum('einsum'))


class Cross(Op):
    shape_sensitive = True

    def call(self, form, params, ops, cast):
        a, b = ops
        if form == 'axis':
            return numpy.cross(a, b, axis=params['axis'])
        if form == 'axes':
            return numpy.cross(a, b, axisa=params['axisa'], axisb=params['axisb'], axisc=params['axisc'])
        return numpy.cross(a, b)

    def gen(self, g):
        rng = g.rng
        form = rng.choice(['func', 'func', 'axis', 'axes'])
        batch = tuple(int(n) for n in rng.integers(1, 4, size=int(rng.integers(0, 3))))
        kinds = 'i' if rng.random() < .15 else 'ifc'
        if form == 'func':
            a = g.shaped(kinds, batch + (3,))
            b = g.shaped(kinds, g.compatible_shape(batch, maxndim=len(batch)) + (3,))
            params = {}
        elif form == 'axis':
            ax = int(rng.integers(len(batch) + 1))
            sh = batch[:ax] + (3,) + batch[ax:]
            a = g.shaped(kinds, sh)
            b = g.shaped(kinds, sh)
            params = dict(axis=ax - (len(sh) if rng.random() < .4 else 0))
        else:
            axa, axb, axc = (int(rng.integers(len(batch) + 1)) for _ in range(3))
            a = g.shaped(kinds, batch[:axa] + (3,) + batch[axa:])
            b = g.shaped(kinds, batch[:axb] + (3,) + batch[axb:])
            params = dict(axisa=axa, axisb=axb, axisc=axc)
        g.note_dtypes('cross', [a, b])
        return form, [a.id, b.id], params


register(Cross('cross'))


class TraceDiag(Op):
    forms = ('func', 'kw')
    shape_sensitive = False

    def call(self, form, params, ops, cast):
        x, = ops
        f = getattr(numpy, self.name)
        if form == 'default':
            return f(x)
        if form == 'kw':
            return f(x, offset=params['offset'], axis1=params['axis1'], axis2=params['axis2'])
        return f(x, params['offset'], params['axis1'], params['axis2'])

    def gen(self, g):
        rng = g.rng
        x = g.operand('bifc', ndim=(2, 3), pred=lambda n: len(set(n.shape)) < len(n.shape), need_array=True,
                      fresh_shape=lambda: g.square_shape())
        pairs = [(i, j) for i in range(len(x.shape)) for j in range(len(x.shape)) if i != j and x.shape[i] == x.shape[j]]
        if not pairs or rng.random() < .04:
            pairs = [(i, j) for i in range(len(x.shape)) for j in range(len(x.shape)) if i != j]   # non-square: documented refusal
        i, j = pairs[int(rng.integers(len(pairs)))]
        n = min(x.shape[i], x.shape[j])
        off = int(rng.integers(-n + 1, n)) if rng.random() < .7 else 0     # |offset| < n: no empty results
        nd = len(x.shape)
        params = dict(offset=off, axis1=int(i - nd if rng.random() < .3 else i), axis2=int(j - nd if rng.random() < .3 else j))
        form = rng.choice(self.forms)
        if off == 0 and (i, j) == (0, 1) and rng.random() < .5:
            form = 'default'
        g.note_dtypes(self.name, [x])
        return form, [x.id], params


register(TraceDiag('trace'))
register(TraceDiag('diagonal'))


# ---- linear algebra ------------------------------------------------------------------------------------------------

class Norm(Op):
    def call(self, form, params, ops, cast):
        x, = ops
        if form == 'default':
            return numpy.linalg.norm(x)
        if form == 'ord':
            return numpy.linalg.norm(x, params['ord'], _ax(params['axis']))
        return numpy.linalg.norm(x, axis=_ax(params['axis']))

    def gen(self, g):
        rng = g.rng
        x = g.operand('bifc', need_array=True)
        nd = len(x.shape)
        r = rng.random()
        if nd == 0 or r < .2:
            axis = None
        elif nd >= 2 and r < .45:
            axis = [int(a) for a in rng.choice(nd, size=2, replace=False)]
        else:
            axis = int(rng.integers(nd)) - (nd if rng.random() < .3 else 0)
        if axis is None and nd > 2:
            axis = None   # numpy flattens: 2-norm of the raveled array -- same as nutils
        if axis is None and nd not in (1, 2) and nd != 0:
            pass
        form = 'default' if axis is None and rng.random() < .5 else 'axis'
        params = dict(axis=axis)
        if rng.random() < .04 and axis is not None and isinstance(axis, int):
            form, params = 'ord', dict(axis=axis, ord=1)   # documented refusal
        g.note_dtypes('linalg.norm', [x])
        return form, [x.id], params

    def domain(self, form, params, vals):
        x = numpy.asarray(vals[0])
        axis = params.get('axis')
        if axis is None and x.ndim > 2:
            return False     # numpy.linalg.norm(axis=None) on ndim>2 is a different code path (ravel); keep to documented cases
        # sqrt has an infinite derivative at zero: keep the norm away from it unless it is exactly zero-free
        with numpy.errstate(all='ignore'):
            r = numpy.sqrt(numpy.sum(numpy.abs(x.astype(complex)) ** 2, axis=_ax(axis)))
        return absmin(r) > .01 if numpy.size(r) else True


register(Norm('linalg.norm'))


def _cond_ok(m, maxcond=60.):
    m = numpy.asarray(m)
    if m.ndim < 2 or m.shape[-1] != m.shape[-2] or m.shape[-1] == 0:
        return True      # not square: let numpy refuse
    with numpy.errstate(all='ignore'):
        try:
            c = numpy.linalg.cond(m.astype(complex) if m.dtype.kind == 'c' else m.astype(float))
        except numpy.linalg.LinAlgError:
            return False
    return bool(numpy.all(numpy.isfinite(c)) and numpy.all(c < maxcond))


class DetInv(Op):
    shape_sensitive = True

    def call(self, form, params, ops, cast):
        return getattr(numpy.linalg, self.name.split('.')[1])(ops[0])

    def domain(self, form, params, vals):
        return _cond_ok(vals[0])

    def extrascale(self, form, params, args):
        a = args[0]
        n = a.shape[-1] if a.shape else 1
        return float(a.scale) ** n * math.factorial(min(n, 4))

    def gen(self, g):
        x = g.square_operand('ifc', dist='diagdom')
        g.note_dtypes(self.name, [x])
        return 'func', [x.id], {}


register(DetInv('linalg.det'))
register(DetInv('linalg.inv'))


def _eig_canon(w, v):
    """sort eigenpairs by (real, imag) of the eigenvalue and fix the phase of every eigenvector"""
    order = numpy.lexsort((numpy.round(w.imag, 6), numpy.round(w.real, 6)))
    w, v = w[order], v[:, order]
    k = numpy.argmax(numpy.abs(v), axis=0)
    ph = v[k, numpy.arange(v.shape[1])]
    ph = ph / numpy.abs(ph)
    return w, v / ph


class Eig(Op):
    terminal = True
    shape_sensitive = True

    def call(self, form, params, ops, cast):
        x, = ops
        if self.name == 'linalg.eigh':
            # symmetrised inside the expression (same expression on both sides)
            xt = numpy.swapaxes(x, -1, -2)
            x = x + (numpy.conjugate(xt) if params['cplx'] else xt)
            return numpy.linalg.eigh(x)[params['out']]
        return numpy.linalg.eig(x)[params['out']]

    def ref(self, form, params, vals):
        r = self.call(form, params, vals, numpy.asarray)
        if self.name == 'linalg.eig':
            r = numpy.asarray(r).astype(complex)
        return r

    def domain(self, form, params, vals):
        x = numpy.asarray(vals[0])
        if x.ndim < 2 or x.shape[-1] != x.shape[-2]:
            return True
        x = x.reshape((-1,) + x.shape[-2:])
        for m in x:
            if self.name == 'linalg.eigh':
                m = m + (m.conj().T if params['cplx'] else m.T)
                w = numpy.linalg.eigvalsh(m)
                if len(w) > 1 and numpy.min(numpy.diff(numpy.sort(w))) < .2:
                    return False
            else:
                w, v = numpy.linalg.eig(m)
                gaps = numpy.abs(w[:, None] - w[None, :]) + 10 * numpy.eye(len(w))
                if gaps.min() < .2 or numpy.linalg.cond(v) > 30:
                    return False
        return True

    def compare(self, form, params, obs, ref, scale, args, P):
        verdict, detail = tolerance.compare(obs, ref, scale=scale, check_kind=False)
        if verdict == tolerance.PASS:
            return verdict, detail
        # eigen-decompositions are unique only up to order and phase: fall back to an invariant comparison
        a = args[0]
        worst = tolerance.PASS
        for p in range(P):
            x = numpy.asarray(a.value_at(p))
            if self.name == 'linalg.eigh':
                xt = numpy.swapaxes(x, -1, -2)
                x = x + (xt.conj() if params['cplx'] else xt)
            X = x.reshape((-1,) + x.shape[-2:])
            n = X.shape[-1]
            if params['out'] == 0:
                O = obs[p].reshape(-1, n)
                R = ref[p].reshape(-1, n)
                for o, r in zip(O, R):
                    key = lambda w: numpy.lexsort((numpy.round(numpy.asarray(w).imag, 6), numpy.round(numpy.asarray(w).real, 6)))
                    v, d = tolerance.compare(numpy.asarray(o)[key(o)], numpy.asarray(r)[key(r)], scale=scale, check_kind=False)
                    if v == tolerance.VIOLATION:
                        return v, 'eigenvalues differ as sets: ' + d
                    if v == tolerance.MARGINAL:
                        worst = v
            else:
                O = obs[p].reshape(-1, n, n)
                for m, V in zip(X, O):
                    # columns must be unit eigenvectors of m
                    lam = numpy.einsum('ij,ij->j', V.conj(), m @ V) / numpy.einsum('ij,ij->j', V.conj(), V)
                    resid = numpy.abs(m @ V - V * lam).max()
                    norms = numpy.linalg.norm(V, axis=0)
                    wref = numpy.linalg.eigvals(m)
                    dist = max(numpy.abs(wref - l).min() for l in lam)
                    distinct = numpy.abs(lam[:, None] - lam[None, :])[~numpy.eye(n, dtype=bool)].min() if n > 1 else 1.
                    if resid > 1e-5 * scale or numpy.abs(norms - 1).max() > 1e-5 or dist > 1e-5 * scale or distinct < 1e-3:
                        return tolerance.VIOLATION, f'columns are not a complete set of unit eigenvectors (residual {resid:.2e}, norm error {numpy.abs(norms - 1).max():.2e})'
        return worst, 'matches up to order/phase of the eigen-decomposition'

    def gen(self, g):
        rng = g.rng
        if self.name == 'linalg.eigh':
            x = g.square_operand('ifc', dist='eigsym')
            params = dict(out=int(rng.integers(2)), cplx=x.kind == 'c')
        else:
            x = g.square_operand('ifc', dist='eigdiag')
            params = dict(out=int(rng.integers(2)))
        g.note_dtypes(self.name, [x])
        return 'func', [x.id], params


register(Eig('linalg.eig'))
register(Eig('linalg.eigh'))


# ---- shape manipulation --------------------------------------------------------------------------------------------

def _factorisations(n, maxlen=3):
    out = []

    def rec(rem, prefix):
        if len(prefix) == maxlen - 1:
            out.append(prefix + [rem])
            return
        out.append(prefix + [rem])
        for d in range(1, rem + 1):
            if rem % d == 0:
                rec(rem // d, prefix + [d])
    rec(n, [])
    return [f for f in out if all(x <= 12 for x in f)]


class Reshape(Op):
    shape_sensitive = True

    def call(self, form, params, ops, cast):
        x, = ops
        sh = params['shape']
        return numpy.reshape(x, sh if isinstance(sh, int) else tuple(sh))

    def gen(self, g):
        rng = g.rng
        x = g.operand('bifc', need_array=True)
        size = int(numpy.prod(x.shape, dtype=int))
        facs = _factorisations(size)
        sh = list(facs[int(rng.integers(len(facs)))])
        if rng.random() < .4:
            sh[int(rng.integers(len(sh)))] = -1
        if len(sh) == 1 and rng.random() < .4:
            sh = sh[0]
        g.note_dtypes('reshape', [x])
        return 'func', [x.id], dict(shape=sh)


register(Reshape('reshape'))


class Ravel(Op):
    def call(self, form, params, ops, cast):
        return numpy.ravel(ops[0])

    def gen(self, g):
        x = g.operand('bifc', need_array=True)
        g.note_dtypes('ravel', [x])
        return 'func', [x.id], {}


register(Ravel('ravel'))


class Transpose(Op):
    forms = ('func', 'T', 'method', 'default')

    def call(self, form, params, ops, cast):
        x, = ops
        axes = params.get('axes')
        if form == 'T':
            return cast(x).T
        if form == 'default':
            return numpy.transpose(x)
        if form == 'method':
            return cast(x).transpose(tuple(axes))
        return numpy.transpose(x, tuple(axes))

    def gen(self, g, hostile=False):
        rng = g.rng
        x = g.operand('bifc', need_array=True, ndim=(2, 3) if hostile else (0, 3))
        nd = len(x.shape)
        axes = [int(a) for a in rng.permutation(nd)]
        form = rng.choice(['func', 'func', 'method', 'T', 'default'])
        if hostile:
            # NumPy documents negative entries in `axes`
            k = int(rng.integers(nd))
            axes[k] -= nd
            form = 'func'
        g.note_dtypes('transpose', [x])
        return form, [x.id], dict(axes=axes, negative=bool(hostile))


register(Transpose('transpose'))


class SwapAxes(Op):
    forms = ('func', 'method')

    def call(self, form, params, ops, cast):
        x, = ops
        if form == 'method':
            return cast(x).swapaxes(params['a'], params['b'])
        return numpy.swapaxes(x, params['a'], params['b'])

    def gen(self, g):
        rng = g.rng
        x = g.operand('bifc', ndim=(1, 3), need_array=True)
        nd = len(x.shape)
        a, b = (int(rng.integers(-nd, nd)) for _ in range(2))
        g.note_dtypes('swapaxes', [x])
        return rng.choice(self.forms), [x.id], dict(a=a, b=b)


register(SwapAxes('swapaxes'))


class Repeat(Op):
    forms = ('func', 'kw')

    def call(self, form, params, ops, cast):
        x, = ops
        if form == 'noaxis':
            return numpy.repeat(x, params['n'])
        if form == 'kw':
            return numpy.repeat(x, params['n'], axis=params['axis'])
        return numpy.repeat(x, params['n'], params['axis'])

    def gen(self, g):
        rng = g.rng
        refusal = rng.random() < .05
        x = g.operand('bifc', ndim=(1, 3), need_array=True, pred=(lambda n: True) if refusal else (lambda n: 1 in n.shape),
                      fresh_shape=lambda: g.shape_with_singleton())
        nd = len(x.shape)
        cands = [i for i, n in enumerate(x.shape) if (n == 1) != refusal] or list(range(nd))
        ax = int(rng.choice(cands))
        if rng.random() < .3:
            ax -= nd
        form = rng.choice(self.forms)
        if refusal and rng.random() < .3:
            form = 'noaxis'
        g.note_dtypes('repeat', [x])
        return form, [x.id], dict(n=int(rng.integers(1, 4)), axis=ax)


register(Repeat('repeat'))


class BroadcastTo(Op):
    shape_sensitive = True

    def call(self, form, params, ops, cast):
        return numpy.broadcast_to(ops[0], tuple(params['shape']))

    def gen(self, g):
        rng = g.rng
        x = g.operand('bifc', ndim=(0, 3), need_array=True)
        sh = [int(rng.integers(2, 4)) if n == 1 and rng.random() < .6 else n for n in x.shape]
        extra = int(rng.integers(0, 4 - len(sh))) if len(sh) < 3 else 0
        sh = [int(rng.integers(1, 4)) for _ in range(extra)] + sh
        g.note_dtypes('broadcast_to', [x])
        return 'func', [x.id], dict(shape=sh)


register(BroadcastTo('broadcast_to'))


class Concatenate(Op):
    forms = ('func', 'kw', 'default')
    shape_sensitive = True

    def call(self, form, params, ops, cast):
        if form == 'default':
            return numpy.concatenate(list(ops))
        if form == 'kw':
            return numpy.concatenate(list(ops), axis=params['axis'])
        return numpy.concatenate(list(ops), params['axis'])

    def gen(self, g):
        rng = g.rng
        first = g.operand('bifc', ndim=(1, 3))
        nd = len(first.shape)
        ax = int(rng.integers(nd))
        nodes = [first]
        for _ in range(int(rng.integers(1, 3))):
            sh = list(first.shape)
            sh[ax] = int(rng.integers(1, 4))
            nodes.append(g.shaped('bifc', tuple(sh)))
        form = 'default' if ax == 0 and rng.random() < .4 else rng.choice(['func', 'kw'])
        if rng.random() < .3:
            ax -= nd
        order = rng.permutation(len(nodes))
        nodes = [nodes[i] for i in order]
        g.note_dtypes('concatenate', nodes[:2])
        return form, [n.id for n in nodes], dict(axis=int(ax))


register(Concatenate('concatenate'))


class Stack(Op):
    forms = ('func', 'kw', 'default')
    shape_sensitive = True

    def call(self, form, params, ops, cast):
        if form == 'default':
            return numpy.stack(list(ops))
        if form == 'kw':
            return numpy.stack(list(ops), axis=params['axis'])
        return numpy.stack(list(ops), params['axis'])

    def gen(self, g):
        rng = g.rng
        first = g.operand('bifc', ndim=(0, 2))
        nodes = [first] + [g.shaped('bifc', first.shape) for _ in range(int(rng.integers(1, 3)))]
        nd = len(first.shape) + 1
        ax = int(rng.integers(-nd, nd))
        form = 'default' if ax == 0 and rng.random() < .4 else rng.choice(['func', 'kw'])
        order = rng.permutation(len(nodes))
        nodes = [nodes[i] for i in order]
        g.note_dtypes('stack', nodes[:2])
        return form, [n.id for n in nodes], dict(axis=ax)


register(Stack('stack'))


# ---- indexing ------------------------------------------------------------------------------------------------------

def enc_idx(a):
    a = numpy.asarray(a)
    return dict(k='b' if a.dtype.kind == 'b' else 'i', s=list(a.shape), d=a.ravel().tolist())


def dec_idx(e):
    return numpy.array(e['d'], dtype=bool if e['k'] == 'b' else numpy.int64).reshape(e['s'])


class Take(Op):
    forms = ('func', 'kw', 'flat')

    def _idx(self, params, ops):
        if 'const' in params:
            v = dec_idx(params['const'])
            if params.get('style') == 'list':
                return v.tolist()
            if params.get('style') == 'int':
                return int(v)
            return v
        i = ops[1]
        if isinstance(i, numpy.ndarray) and i.ndim == 0:
            return int(i)
        return i

    def call(self, form, params, ops, cast):
        x = ops[0]
        idx = self._idx(params, ops)
        if form == 'flat':
            return numpy.take(x, idx)
        if form == 'kw':
            return numpy.take(x, idx, axis=params['axis'])
        return numpy.take(x, idx, params['axis'])

    def gen(self, g):
        rng = g.rng
        from vlib.c07_gen import is_sparse
        fn = g.force_fn or rng.random() < .35
        x = g.operand('bifc', ndim=(1, 3), need_array=True, prefer=is_sparse if fn else None, p_fresh=0. if g.force_fn else .18)
        nd = len(x.shape)
        form = rng.choice(['func', 'func', 'kw', 'flat'])
        if form == 'flat':
            n, ax = int(numpy.prod(x.shape, dtype=int)), None
        else:
            ax = int(rng.integers(nd))
            n = x.shape[ax]
            if rng.random() < .35:
                ax -= nd
        params = dict(axis=ax)
        ids = [x.id]
        if fn:
            inode = g.index_node(n, shape=[(), (2,), (3,), (2, 2)][int(rng.integers(4))] if rng.random() < .7 else None)
            if inode is None:
                return None
            ids.append(inode.id)
            params['fnindex'] = True
            g.note_index('take:function-valued' + (':negative' if inode.bounds and inode.bounds[0] < 0 else ''))
        else:
            ishape = [(), (1,), (2,), (3,), (2, 2), (1, 3)][int(rng.integers(6))]
            v = rng.integers(-n, n, size=ishape)
            params['const'] = enc_idx(v)
            params['style'] = 'int' if ishape == () else rng.choice(['ndarray', 'list'])
            g.note_index('take:const' + (':negative' if (v < 0).any() else '') + f':ndim{len(ishape)}')
        g.note_dtypes('take', [x])
        return form, ids, params


register(Take('take'))


class Compress(Op):
    forms = ('func', 'kw', 'flat')

    def call(self, form, params, ops, cast):
        x, = ops
        cond = params['cond']
        if params.get('style') == 'ndarray':
            cond = numpy.array(cond, dtype=bool)
        if form == 'flat':
            return numpy.compress(cond, x)
        if form == 'kw':
            return numpy.compress(cond, x, axis=params['axis'])
        return numpy.compress(cond, x, params['axis'])

    def gen(self, g):
        rng = g.rng
        x = g.operand('bifc', ndim=(1, 3), need_array=True)
        nd = len(x.shape)
        form = rng.choice(['func', 'func', 'kw', 'flat'])
        if form == 'flat':
            n, ax = int(numpy.prod(x.shape, dtype=int)), None
        else:
            ax = int(rng.integers(nd))
            n = x.shape[ax]
            if rng.random() < .3:
                ax -= nd
        cond = [bool(b) for b in rng.integers(0, 2, size=n)]
        if not any(cond):
            cond[int(rng.integers(n))] = True
        if rng.random() < .04 and n > 1:
            cond = cond[:-1]     # shorter condition: numpy accepts, nutils documents to be stricter
        g.note_dtypes('compress', [x])
        return form, [x.id], dict(cond=cond, axis=ax, style=rng.choice(['list', 'ndarray']))


register(Compress('compress'))


class GetItem(Op):
    forms = ('getitem',)
    weight = 6.

    def _items(self, params, ops, cast):
        items = []
        for it in params['items']:
            if it == 'e':
                items.append(Ellipsis)
            elif it == 'n':
                items.append(numpy.newaxis)
            elif 'i' in it:
                items.append(it['i'])
            elif 's' in it:
                items.append(slice(*it['s']))
            elif 'a' in it:
                v = dec_idx(it['a'])
                items.append(v.tolist() if it.get('style') == 'list' else v)
            elif 'r' in it:
                v = ops[it['r']]
                if isinstance(v, numpy.ndarray) and v.ndim == 0:
                    v = int(v)
                items.append(v)
        return tuple(items)

    def call(self, form, params, ops, cast):
        x = cast(ops[0])
        items = self._items(params, ops, cast)
        if len(items) == 1 and params.get('bare'):
            return x[items[0]]
        return x[items]

    def gen(self, g, hostile=None):
        rng = g.rng
        from vlib.c07_gen import is_sparse
        use_array = g.force_fn or rng.random() < .4
        x = g.operand('bifc', ndim=(2, 3) if hostile == 'multi_array' else (1, 3) if hostile or rng.random() < .95 else (0, 0), need_array=True, prefer=is_sparse if use_array else None, p_fresh=0. if g.force_fn else .18)
        nd = len(x.shape)
        ids = [x.id]
        naxes = int(rng.integers(1, nd + 1)) if nd else 0      # number of axes addressed explicitly
        if hostile == 'multi_array':
            naxes = max(naxes, 2)
        use_array = nd > 0 and use_array
        apos = int(rng.integers(naxes)) if use_array else None
        items, tags = [], set()
        for ax in range(naxes):
            n = x.shape[ax]
            if use_array and ax == apos:
                if hostile != 'multi_array' and (g.force_fn or rng.random() < .3):
                    inode = g.index_node(n, shape=[(), (2,), (2, 2)][int(rng.integers(3))] if rng.random() < .7 else None)
                    if inode is not None:
                        ids.append(inode.id)
                        items.append({'r': len(ids) - 1})
                        tags.add('function-valued index' + (' (negative)' if inode.bounds and inode.bounds[0] < 0 else ''))
                        continue
                if rng.random() < .12 and hostile is None:
                    mask = rng.integers(0, 2, size=n).astype(bool)
                    mask[int(rng.integers(n))] = True
                    items.append({'a': enc_idx(mask), 'style': rng.choice(['ndarray', 'list'])})
                    tags.add('bool index array')
                    continue
                ishape = [(1,), (2,), (3,), (2, 2), (2, 1)][int(rng.integers(5))]
                v = rng.integers(-n, n, size=ishape)
                items.append({'a': enc_idx(v), 'style': rng.choice(['ndarray', 'list'])})
                tags.add('int index array' + (' (negative entries)' if (v < 0).any() else ''))
                continue
            adjacent = use_array and abs(ax - apos) == 1
            r = rng.random()
            if (not use_array or adjacent) and r < .3:
                i = int(rng.integers(-n, n))
                items.append({'i': i})
                tags.add('negative int' if i < 0 else 'int')
            elif r < .45:
                items.append({'s': [None, None, None]})
                tags.add('full slice')
            else:
                items.append({'s': self._slice(rng, n)})
                s = items[-1]['s']
                tags.add('slice with step' if s[2] not in (None, 1) else 'slice')
                if any(v is not None and v < 0 for v in s[:2]):
                    tags.add('slice with negative bounds')
        # ints adjacent to the index array must form one contiguous block with it; ints on the far side of a slice were not generated
        if hostile == 'multi_array':
            if naxes < 2:
                naxes = 2
                while len(items) < 2:
                    items.append({'s': [None, None, None]})
            k1, k2 = sorted(rng.choice(naxes, size=2, replace=False))
            for k in (k1, k2):
                n = x.shape[k]
                items[k] = {'a': enc_idx(rng.integers(-n, n, size=(2,))), 'style': 'list'}
            tags = {'two index arrays'}
        if hostile == 'oob_slice':
            k = int(rng.integers(len(items)))
            n = x.shape[k]
            items[k] = {'s': [[1, n + 2, None], [-n - 3, n - 1, None], [n - 1, 0, None], [None, n + 4, 1]][int(rng.integers(4))]}
            if items[k]['s'] == [n - 1, 0, None] and n == 1:
                items[k] = {'s': [0, 5, None]}
            tags = {'slice with out-of-range or reversed bounds'}
        # ellipsis
        r = rng.random()
        if naxes < nd and r < .5 or (r < .15):
            pos = len(items) if rng.random() < .6 else int(rng.integers(len(items) + 1))
            if use_array and hostile is None:
                # keep the advanced block contiguous and the untouched axes where they are
                pos = len(items)
            if pos < len(items):
                # an ellipsis in the middle: the items after it address the trailing axes
                tail = items[pos:]
                head = items[:pos]
                if hostile is None and any('a' in it or 'r' in it or 'i' in it for it in tail if isinstance(it, dict)):
                    pos = len(items)
                else:
                    # re-target slices in the tail to the trailing axes
                    for j, it in enumerate(tail):
                        n = x.shape[nd - len(tail) + j]
                        if isinstance(it, dict) and 's' in it and it['s'] != [None, None, None] and hostile is None:
                            tail[j] = {'s': self._slice(rng, n)}
                    items = head + ['e'] + tail
                    tags.add('ellipsis')
            if pos >= len(items) and 'e' not in items:
                items.append('e')
                tags.add('ellipsis')
        if nd and 'e' not in items and rng.random() < .1 and not use_array and naxes < nd:
            items.insert(0, 'e')
            # items now address the trailing axes: regenerate plain items for them
            new = ['e']
            for j in range(naxes):
                n = x.shape[nd - naxes + j]
                if rng.random() < .4:
                    i = int(rng.integers(-n, n))
                    new.append({'i': i})
                    tags.add('negative int' if i < 0 else 'int')
                else:
                    new.append({'s': self._slice(rng, n)})
            items = new
            tags.add('ellipsis')
        # newaxis, outside the advanced block
        if rng.random() < .3 and hostile is None:
            adv = [k for k, it in enumerate(items) if isinstance(it, dict) and ('a' in it or 'r' in it or 'i' in it)]
            lo, hi = (min(adv), max(adv)) if adv and use_array else (None, None)
            for _ in range(int(rng.integers(1, 3))):
                pos = int(rng.integers(len(items) + 1))
                if lo is not None and lo < pos <= hi:
                    continue
                items.insert(pos, 'n')
                if lo is not None and pos <= lo:
                    lo, hi = lo + 1, hi + 1
                tags.add('newaxis')
        if not items:
            items = ['e'] if rng.random() < .5 else ['n']
            tags.add('ellipsis' if items == ['e'] else 'newaxis')
        for t in tags:
            g.note_index(t)
        g.note_dtypes('getitem', [x])
        params = dict(items=items, bare=bool(len(items) == 1 and rng.random() < .7))
        if hostile:
            params['hostile'] = hostile
        return 'getitem', ids, params

    @staticmethod
    def _slice(rng, n):
        r = rng.random()
        if r < .35:
            a, b = sorted(int(v) for v in rng.integers(0, n + 1, size=2))
            if a == b:
                a, b = (a - 1, b) if a > 0 else (a, b + 1)
            s = [a, b, None]
            if rng.random() < .4:
                s[0] = None if a == 0 and rng.random() < .5 else (a - n if a < n and rng.random() < .5 else a)
            if rng.random() < .4:
                s[1] = None if b == n and rng.random() < .7 else (b - n if 0 < b < n and rng.random() < .7 else b)
            return s
        if r < .5:
            return [None, None, 1] if rng.random() < .3 else [int(rng.integers(0, n)), None, None]
        step = int(rng.choice([2, 3, -1, -2]))
        if step > 0:
            a = int(rng.integers(0, n))
            return [a if rng.random() < .6 else None, None if rng.random() < .6 else n, step]
        a = int(rng.integers(0, n))
        return [None if rng.random() < .5 else a, None, step]


register(GetItem('getitem'))


# ---- lookup --------------------------------------------------------------------------------------------------------

class SearchSorted(Op):
    forms = ('func', 'right', 'sorter')

    def _a(self, params, ops):
        return ops[1] if params.get('a_is_operand') else (params['a'] if params.get('style') == 'list' else numpy.array(params['a']))

    def call(self, form, params, ops, cast):
        v = ops[0]
        a = self._a(params, ops)
        if form == 'sorter':
            return numpy.searchsorted(a, v, side=params['side'], sorter=params['sorter'])
        if form == 'right':
            return numpy.searchsorted(a, v, 'right')
        if params['side'] == 'left' and params.get('defaultside'):
            return numpy.searchsorted(a, v)
        return numpy.searchsorted(a, v, side=params['side'])

    def domain(self, form, params, vals):
        v = numpy.asarray(vals[0])
        a = numpy.asarray(self._a(params, vals))
        if v.dtype.kind in 'biu' and a.dtype.kind in 'biu':
            return True
        return absmin(numpy.asarray(v, dtype=float)[..., None] - numpy.asarray(a, dtype=float)) > 1e-6

    def bounds(self, form, params, args):
        n = len(params['a']) if 'a' in params else args[1].shape[0]
        return (0, n)

    def gen(self, g):
        rng = g.rng
        v = g.operand('if', need_array=True)
        n = int(rng.integers(1, 6))
        if rng.random() < .3:
            a = sorted(set(int(x) for x in rng.integers(-3, 4, size=n)))
        else:
            a = sorted(set(round(float(x), 2) for x in rng.uniform(-2, 2, size=n)))
        side = str(rng.choice(['left', 'right']))
        form = rng.choice(['func', 'func', 'right', 'sorter'])
        params = dict(a=a, side=side, style=str(rng.choice(['list', 'ndarray'])), defaultside=bool(rng.random() < .5))
        ids = [v.id]
        if form == 'right':
            params['side'] = 'right'
        if form == 'sorter':
            perm = [int(i) for i in rng.permutation(len(a))]
            params['a'] = [a[i] for i in perm]
            params['sorter'] = [int(i) for i in numpy.argsort(perm)]
        elif rng.random() < .25:
            an = g.fresh('f' if isinstance(a[0], float) else 'i', (len(a),), values=numpy.array(a), leafkinds=('arg', 'const'))
            ids.append(an.id)
            params['a_is_operand'] = True
        g.note_dtypes('searchsorted', [v])
        return form, ids, params


register(SearchSorted('searchsorted'))


class Interp(Op):
    forms = ('func', 'lr')

    def call(self, form, params, ops, cast):
        x, = ops
        xp, fp = params['xp'], params['fp']
        if params.get('fpc'):
            fp = [complex(*z) for z in fp]
        if params.get('style') == 'ndarray':
            xp, fp = numpy.array(xp), numpy.array(fp)
        if form == 'lr':
            return numpy.interp(x, xp, fp, left=params['left'], right=params['right'])
        return numpy.interp(x, xp, fp)

    def domain(self, form, params, vals):
        x = numpy.asarray(vals[0], dtype=float)
        return absmin(x[..., None] - numpy.asarray(params['xp'], dtype=float)) > 1e-6

    def gen(self, g, hostile=False):
        rng = g.rng
        x = g.operand('if' if rng.random() < .9 else 'b', need_array=True)
        n = int(rng.integers(2, 6))
        xp = sorted(set(round(float(v), 2) for v in rng.uniform(-2.2, 2.2, size=n)))
        if len(xp) < 2:
            xp = [-1., 1.]
        if rng.random() < .3:
            xp = sorted(set(int(round(v)) for v in xp))
            if len(xp) < 2:
                xp = [-1, 1]
        intfp = hostile or rng.random() < .3
        fp = [int(v) for v in rng.integers(-3, 4, size=len(xp))] if intfp else [round(float(v), 2) for v in rng.uniform(-2, 2, size=len(xp))]
        params = dict(xp=xp, fp=fp, style=str(rng.choice(['list', 'ndarray'])))
        form = 'lr' if hostile or rng.random() < .5 else 'func'
        if not intfp and rng.random() < .1:
            params['fp'] = [[v, round(float(rng.uniform(-1, 1)), 2)] for v in fp]
            params['fpc'] = True
        if form == 'lr':
            if hostile:
                # NumPy: left/right are float values whatever the dtype of fp
                params['left'], params['right'] = round(float(rng.integers(-9, 9)) + .5, 2), round(float(rng.integers(-9, 9)) + .25, 2)
                params['hostile'] = 'interp_int_fp_float_lr'
            elif intfp:
                params['left'], params['right'] = int(rng.integers(-9, 9)), (int(rng.integers(-9, 9)) if rng.random() < .7 else None)
            else:
                params['left'] = round(float(rng.uniform(-9, 9)), 2) if rng.random() < .8 else None
                params['right'] = round(float(rng.uniform(-9, 9)), 2) if rng.random() < .8 else None
        g.note_dtypes('interp', [x])
        return form, [x.id], params


register(Interp('interp'))


class Choose(Op):
    shape_sensitive = True
    forms = ('func', 'method')

    def call(self, form, params, ops, cast):
        a, *choices = ops
        if form == 'method':
            return cast(a).choose(list(choices))
        return numpy.choose(a, list(choices))

    def gen(self, g):
        rng = g.rng
        k = int(rng.integers(2, 4))
        if rng.random() < .15:
            k = 2
            a = g.operand('b', need_array=True)      # boolean selector: numpy.choose(cond, [a, b])
        else:
            a = g.index_node(k, shape=None, nonneg=True, pointdep_ok=True)
        if a is None:
            return None
        first = g.second(a, 'bifc')
        nodes = [first]
        for _ in range(k - 1):
            nodes.append(g.second(first, 'bifc') if rng.random() < .6 else g.second(a, 'bifc'))
        # all operands must be mutually broadcastable
        try:
            numpy.broadcast_shapes(a.shape, *(n.shape for n in nodes))
        except ValueError:
            return None
        g.note_dtypes('choose', nodes[:2])
        return rng.choice(['func', 'func', 'method']), [a.id] + [n.id for n in nodes], {}


register(Choose('choose'))
