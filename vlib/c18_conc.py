"""C18 concurrency monitor: several real processes call the same memoised function
for the same keys at (almost) the same time; the wrapped function appends its
execution interval to an O_APPEND log with a single os.write; an offline
checker demands that no two intervals for one key overlap
(time.monotonic_ns is CLOCK_MONOTONIC: system-wide on Linux) and that every
caller obtained the uncached value.
"""

import os, sys, json, time, signal
import numpy, treelog
from nutils import cache
from vlib import c18_lib as L

CONC = dict(fd=None, die_in_func=False)


def _value(key, seed):
    rng = numpy.random.default_rng([int(seed), int(key)])
    return dict(key=key, data=rng.normal(size=int(rng.integers(1, 40))), tags=('k%d' % key, [int(x) for x in rng.integers(0, 9, 4)]))


@cache.function
def f_conc(key, work_us, seed):
    enter = time.monotonic_ns()
    time.sleep(work_us / 1e6)
    v = _value(key, seed)
    treelog.info('computed key %d' % key)
    fd = CONC['fd']
    if fd is not None:
        rec = dict(key=key, pid=os.getpid(), enter=enter, exit=time.monotonic_ns(), vh=L.canon_key(L.canon(v)), died=bool(CONC['die_in_func']))
        os.write(fd, (json.dumps(rec) + '\n').encode())
        if CONC['die_in_func']:
            os._exit(137)
    return v


def gen_group(rng, index):
    nproc = int(rng.integers(4, 9))
    nkeys = int(rng.integers(1, 4))
    work = [int(rng.integers(5000, 50001)) for _ in range(nkeys)]
    procs = []
    for p in range(nproc):
        order = [int(k) for k in rng.permutation(nkeys)]
        if rng.random() < .3:
            order = order + [order[0]]           # asks for the same key twice
        procs.append(dict(jitter_us=int(rng.integers(0, 10001)), order=order, role='caller'))
    r = rng.random()
    if r < .2:
        procs[int(rng.integers(0, nproc))]['role'] = 'die_in_func'
    elif r < .45:
        v = procs[int(rng.integers(0, nproc))]
        v['role'], v['frac'] = 'die_in_dump', float(rng.random())
    return dict(index=int(index), seed=int(rng.integers(0, 2**31)), work=work, procs=procs)


def _child(group, p, cachedir, logpath, barrier_r):
    spec = group['procs'][p]
    os.read(barrier_r, 1)           # returns (EOF) when the parent closes the write end: all children start together
    time.sleep(spec['jitter_us'] / 1e6)
    CONC['fd'] = os.open(logpath, os.O_WRONLY | os.O_APPEND | os.O_CREAT, 0o644)
    if spec['role'] == 'die_in_func':
        CONC['die_in_func'] = True
    elif spec['role'] == 'die_in_dump':
        L.install_killer(0, how='exit', frac=spec['frac'])
    out = []
    with treelog.set(L.ListLog()), cache.enable(cachedir):
        for key in spec['order']:
            try:
                v = f_conc(key, group['work'][key], group['seed'])
                out.append([key, L.canon_key(L.canon(v)), None])
            except Exception as e:
                out.append([key, None, type(e).__name__ + ': ' + str(e)[:200]])
    return out


def run_group(group, root, timeout=60.):
    """-> dict(records, callers: [{status, results}], model: {key: vh})"""
    cachedir = os.path.join(root, 'cache')
    logpath = os.path.join(root, 'intervals.log')
    os.makedirs(cachedir, exist_ok=True)
    br, bw = os.pipe()
    kids = []
    sys.stdout.flush()
    sys.stderr.flush()
    for p in range(len(group['procs'])):
        r, w = os.pipe()
        pid = os.fork()
        if pid == 0:
            code = 99
            try:
                os.close(bw)
                os.close(r)
                out = _child(group, p, cachedir, logpath, br)
                with os.fdopen(w, 'wb') as f:
                    f.write(json.dumps(out).encode())
                code = 0
            except BaseException:
                import traceback
                try:
                    sys.stderr.write(traceback.format_exc())
                except Exception:
                    pass
            finally:
                os._exit(code)
        os.close(w)
        kids.append((pid, r))
    os.close(br)
    os.close(bw)                    # release the barrier
    callers = []
    deadline = time.time() + timeout
    for pid, r in kids:
        status, out = L._collect(pid, r, timeout=max(.5, deadline - time.time()))
        callers.append(dict(status=status, results=out))
    records = []
    if os.path.exists(logpath):
        with open(logpath) as f:
            for line in f:
                line = line.strip()
                if line:
                    records.append(json.loads(line))
    CONC['fd'] = None
    model = {}
    with treelog.set(L.ListLog()), cache.disable():
        for key in range(len(group['work'])):
            model[key] = L.canon_key(L.canon(f_conc(key, 0, group['seed'])))
    return dict(records=records, callers=callers, model=model)


def check_group(group, obs):
    """offline checker over the interval log and the callers' results -> (problems, stats)"""
    probs = []
    stats = dict(executions=len(obs['records']), overlaps=0, callers_ok=0, waits=0, timeout=False, victims=0, keys=len(group['work']))
    if any(c['status'] == 'timeout' for c in obs['callers']):
        stats['timeout'] = True          # overloaded machine: no verdict from this group
        return [], stats
    bykey = {}
    for rec in obs['records']:
        bykey.setdefault(rec['key'], []).append(rec)
    for key, recs in bykey.items():
        recs.sort(key=lambda r: r['enter'])
        for a, b in zip(recs, recs[1:]):
            if b['enter'] < a['exit']:
                stats['overlaps'] += 1
                probs.append(f"key {key}: executions overlap: pid {a['pid']} [{a['enter']}, {a['exit']}] and pid {b['pid']} [{b['enter']}, {b['exit']}] "
                             f"(overlap {(min(a['exit'], b['exit']) - b['enter']) / 1e6:.2f} ms)")
        for rec in recs:
            if rec['vh'] != obs['model'][key]:
                probs.append(f"key {key}: execution in pid {rec['pid']} computed another value than the uncached call (harness problem?)")
    victims = sum(1 for p in group['procs'] if p['role'] != 'caller')
    for p, c in zip(group['procs'], obs['callers']):
        if p['role'] != 'caller' and c['status'] not in ('exit:0', 'exit:137'):
            probs.append(f"victim process ended with unexpected status {c['status']} (harness problem?)")
        if p['role'] == 'caller' or c['status'] == 'exit:0':
            if c['status'] != 'exit:0' or c['results'] is None:
                probs.append(f"caller ended with status {c['status']} (role {p['role']})")
                continue
            for key, vh, exc in c['results']:
                if exc is not None:
                    probs.append(f'caller raised for key {key}: {exc}')
                elif vh != obs['model'][key]:
                    probs.append(f'caller obtained a value for key {key} that differs from the uncached value')
                else:
                    stats['callers_ok'] += 1
    if not victims:
        for key in range(len(group['work'])):
            n = len(bykey.get(key, []))
            if n != 1:
                probs.append(f'key {key}: wrapped function executed {n} times by {len(group["procs"])} undisturbed callers (documented: later callers retrieve the stored result)')
    stats['victims'] = victims
    stats['keys'] = len(group['work'])
    return probs, stats
