"""C20: unit-string, unit-table, dimension-algebra, nutils.unit and Units-collision monitors."""

import pickle, hashlib
import numpy
from fractions import Fraction as F
from vlib import c20_model as M
from vlib.c20_core import cmp_rel, cmp_same, PASS, VIOLATION, MARGINAL, Monitor


def h(*parts):
    return hashlib.sha1(repr(parts).encode()).hexdigest()[:12]


# ------------------------------------------------------------------ (3) unit strings

INVALID_KINDS = ['unknown', 'deca', 'double_prefix', 'prefixed_inch', 'space', 'caret', 'paren', 'wrong_dimension', 'not_str']


def invalid_string(rng, kind):
    tok = M.rnd_token(rng)
    if kind == 'unknown':
        cands = ['foo', 'xyz', 'mm m'.replace(' ', 'q'), 'kq', 'Qm', 'ml', 'sec', 'Ns', 'kgs', 'mN2m']
        for _ in range(20):
            c = cands[int(rng.integers(0, len(cands)))]
            if not M.SI.resolve(c):
                return '3' + c
    if kind == 'deca':
        return '2da' + str(rng.choice(['m', 'g', 'N', 'L', 'Pa', 'V']))
    if kind == 'double_prefix':
        for _ in range(50):
            p = str(rng.choice(list(M.PREFIX)))
            t = p + M.rnd_token(rng, names=[n for n in M.SI.tokens() if len(M.SI.resolve(n)) == 1 and M.SI.resolve(n)[0][0]])
            if not M.SI.resolve(t):
                return '1.5' + t
    if kind == 'prefixed_inch':
        for _ in range(50):
            t = str(rng.choice(list(M.PREFIX))) + 'in'
            if not M.SI.resolve(t):
                return '4' + t
    if kind == 'space':
        return f'5 {tok}' if rng.random() < .5 else f'5{tok} *s'
    if kind == 'caret':
        return f'5{tok}^2'
    if kind == 'paren':
        return f'5{tok}/(s*m)'
    return None


def run_string_case(env, res, seed, index):
    """One generated unit string through parse, typed constructors, str-division and the format round trip."""
    from vlib.runner import rng_for
    rng = rng_for(seed, 'c20', 'str', index)
    SI = env.SI
    case = dict(family='str', seed=seed, index=index)
    mon = Monitor(env, res, case)
    res.count('evaluations')
    res.count('strings')
    vec = M.rnd_vec(rng) if rng.random() < .9 else M.NIL
    body = M.unit_string(rng, vec, scales=True)
    lead = M.rnd_number(rng, signed=True) if rng.random() < .8 else ''
    s = lead + body
    if rng.random() < .05 and lead and body and body[0] not in '/*':
        s = lead + '*' + body
    case['string'] = s
    try:
        mval, mvec = M.parse(s)
    except M.ModelOverflow:
        res.count('strings_discarded_float_range')    # leading number / factor scales pushed a partial product out of range
        return
    except M.ModelInvalid as e:
        raise AssertionError(f'generator produced a string outside the model grammar: {s!r}: {e}')
    assert mvec == vec, (s, mvec, vec)
    nfactors = sum(s.count(c) for c in '*/') + 1
    if body and (nfactors > 1 or any(c.isdigit() or c == '_' for c in body)):
        res.add('distinct', h('str', s))
    res.count(f'string_factors/{min(nfactors, 5)}')
    if '_' in body:
        res.count('strings_with_fractional_power')
    if '/' in body and '*' in body[body.index('/'):]:
        res.count('strings_with_mul_after_div')
    try:
        q = SI.parse(s)
    except Exception as e:
        if s != lead + body and isinstance(e, ValueError):
            res.count('refusals')
            res.add('refusal_kinds', f'parse number*unit: {type(e).__name__}')
            return
        mon.violation('valid unit string rejected', f'parse({s!r}): {type(e).__name__}: {e}')
        return
    prob = env.check_dim(q, vec)
    if prob:
        mon.violation('parse', f'parse({s!r}): {prob}')
        return
    if not vec and type(q) is not float:
        mon.violation('parse', f'parse({s!r}) is {type(q).__name__}, expected float')
        return
    v, det = cmp_rel(env.payload(q), mval)
    if v == VIOLATION:
        mon.violation('parse', f'parse({s!r}) = {env.payload(q)!r}, model {mval!r}')
        return
    if v == MARGINAL:
        res.count('marginal')
        res.note(f'marginal parse({s!r}): {det}')
    res.count('strings_parsed_ok')
    if not vec:
        res.count('strings_dimensionless')
    # typed constructors: the right dimension accepts, any other rejects with DimensionError
    cls = env.registry.get(vec) if vec else SI.Dimensionless
    if cls is not None:
        try:
            q2 = cls(s)
            ok = type(q2) is type(q) and cmp_rel(env.payload(q2), mval)[0] != VIOLATION
            if not ok:
                mon.violation('parse', f'{cls.__name__}({s!r}) = {q2!r} differs from parse')
        except Exception as e:
            mon.violation('valid unit string rejected', f'{cls.__name__}({s!r}): {type(e).__name__}: {e}')
        res.count('typed_constructor_ok')
    other = M.rnd_vec(rng)
    ocls = env.registry.get(other)
    if ocls is not None and other != vec:
        res.count('typed_constructor_mismatch_presented')
        try:
            r = ocls(s)
            mon.violation('mismatched dimensions accepted', f'{ocls.__name__}({s!r}) returned {r!r}')
        except SI.DimensionError:
            res.count('typed_constructor_mismatch_rejected')
        except Exception as e:
            res.count('typed_constructor_mismatch_rejected')
            res.add('rejected_other_exception_types', f'typed constructor: {type(e).__name__}')
    # stringly / ags round trips are documented as returning the parsed text
    if vec:
        try:
            d = type(q).__stringly_dumps__(q)
            back = type(q).__stringly_loads__(d)
            if d != s or type(back) is not type(q) or env.payload(back) != env.payload(q):
                mon.violation('stringly round trip', f'{s!r} -> {d!r} -> {back!r}')
            res.count('stringly_roundtrips')
        except Exception as e:
            mon.violation('stringly round trip', f'{s!r}: {type(e).__name__}: {e}')
    # format with the same unit round-trips the value
    if vec:
        unit = M.unit_string(rng, vec)
        uval = M.parse(unit)[0]
        x = float(rng.uniform(1, 1000)) * (1 if rng.random() < .7 else -1)
        text = M.fmt_num(round(x, int(rng.integers(0, 9)))) + unit
        x = float(text[:len(text) - len(unit)])
        try:
            M.parse(text)
        except M.ModelOverflow:
            return
        try:
            qq = SI.parse(text)
        except Exception as e:
            mon.violation('valid unit string rejected', f'parse({text!r}): {type(e).__name__}: {e}')
            return
        if env.check_dim(qq, vec) or cmp_rel(env.payload(qq), x * uval)[0] == VIOLATION:
            mon.violation('parse', f'parse({text!r}) = {qq!r}, model {x * uval!r} {M.vstr(vec)}')
            return
        from vlib.c20_gen import Gen
        G = Gen.__new__(Gen)
        G.env, G.mon, G.rng = env, mon, rng
        prec = 6 if rng.random() < .7 else int(rng.integers(7, 10))
        Gen.format_roundtrip(G, qq, unit, x, prec=prec)
        # division by the unit string gives back the number
        try:
            back = qq / unit
            v, det = cmp_rel(back, x)
            if v == VIOLATION:
                mon.violation('value', f'parse({text!r}) / {unit!r} = {back!r}')
            res.count('string_divisions')
        except Exception as e:
            mon.violation('value', f'parse({text!r}) / {unit!r}: {type(e).__name__}: {e}')
    # an invalid neighbour must be rejected
    kind = INVALID_KINDS[int(rng.integers(0, len(INVALID_KINDS)))]
    if kind == 'wrong_dimension' or kind == 'not_str':
        arg = 5. if kind == 'not_str' else None
        if arg is not None:
            res.count('invalid_strings_presented')
            try:
                r = SI.parse(arg)
                mon.violation('invalid unit string accepted', f'parse({arg!r}) returned {r!r}')
            except Exception:
                res.count('invalid_strings_rejected')
        return
    bad = invalid_string(rng, kind)
    if bad is None:
        return
    try:
        M.parse(bad)
        return   # the model reads it: not an invalid string after all
    except (M.ModelInvalid, M.ModelAmbiguous):
        pass
    res.count('invalid_strings_presented')
    res.count('invalid_kind/' + kind)
    try:
        r = SI.parse(bad)
        mon.violation('invalid unit string accepted', f'parse({bad!r}) returned {r!r} ({kind})')
    except ValueError:
        res.count('invalid_strings_rejected')
    except Exception as e:
        res.count('invalid_strings_rejected')
        res.add('rejected_other_exception_types', f'parse invalid: {type(e).__name__}')


# ------------------------------------------------------------------ (3) the whole unit table: all prefixes x units

def run_table(env, res, seed):
    SI = env.SI
    case = dict(family='table', seed=seed, index=0)
    mon = Monitor(env, res, case)
    res.count('evaluations')
    names = M.SI.all_names()
    real = dict(SI.units)
    extra = sorted(set(real) - set(names))
    missing = sorted(set(names) - set(real))
    if extra:
        mon.violation('unit table', f'units not in the SI model table: {extra[:10]}')
    if missing:
        mon.violation('unit table', f'model units missing from SI.units: {missing[:10]}')
    for n, ((mval, mvec),) in sorted(names.items()):
        if n not in real:
            continue
        res.count('table_entries_checked')
        q = getattr(SI.units, n)
        prob = env.check_dim(q, mvec)
        if prob:
            mon.violation('unit table', f'units.{n}: {prob}')
            continue
        v, det = cmp_rel(env.payload(q), mval)
        if v == VIOLATION:
            mon.violation('unit table', f'units.{n} = {env.payload(q)!r}, model {mval!r}')
        elif v == MARGINAL:
            res.count('marginal')
            res.note(f'marginal units.{n}: {det}')
        # the same through parse, with a power, and inverted
        for s in (n, '2' + n + '2', '/' + n):
            try:
                qq = SI.parse(s)
                mv, mvv = M.parse(s)
                if env.check_dim(qq, mvv) or cmp_rel(env.payload(qq), mv)[0] == VIOLATION:
                    mon.violation('parse', f'parse({s!r}) = {qq!r}, model {mv!r} {M.vstr(mvv)}')
                res.count('table_strings_checked')
            except Exception as e:
                mon.violation('valid unit string rejected', f'parse({s!r}): {type(e).__name__}: {e}')
    res.add('distinct', h('table', len(names)))
    # named dimensions
    for name, v in sorted(M.NAMED.items()):
        cls = getattr(SI, name, None)
        if cls is None:
            res.add('named_dimensions_missing', name)
            continue
        res.count('named_dimensions_checked')
        try:
            cv = env.vec_of_class(cls)
        except Exception as e:
            mon.violation('dimension', f'SI.{name}: {e}')
            continue
        if cv != v:
            mon.violation('dimension', f'SI.{name} is {cls.__name__}, physics says {M.vstr(v)}')
        elif env.registry.setdefault(v, cls) is not cls:
            mon.violation('dimension', f'SI.{name} is not the canonical class for {M.vstr(v)}')


    # names bound to a dimension that physics does not give them: reported, not a verdict (the property is about tracking, not naming)
    for name, v in sorted(M.NAMED_SUSPECT.items()):
        cls = getattr(SI, name, None)
        if cls is not None:
            try:
                if env.vec_of_class(cls) != v:
                    res.add('named_dimension_anomalies', f'SI.{name} is {cls.__name__}, physics says {M.vstr(v)}')
            except Exception:
                pass


def run_extension(env, res, seed):
    """The extension scenario of the module docstring on the GLOBAL table, plus collisions (run last in a worker)."""
    import math
    SI = env.SI
    case = dict(family='extension', seed=seed, index=0)
    mon = Monitor(env, res, case)
    res.count('evaluations')
    res.add('distinct', h('extension'))

    def must_raise(what, f, exc=ValueError):
        res.count('extension_rejections_presented')
        try:
            r = f()
        except exc:
            res.count('extension_rejections_ok')
            return True
        except Exception as e:
            res.count('extension_rejections_ok')
            res.add('rejected_other_exception_types', f'{what}: {type(e).__name__}')
            return True
        mon.violation('unit table', f'{what} was accepted')
        return False
    before = dict(SI.units)
    # colliding names: <prefix><name> already exists
    for name in ('ol', 'd', 'a', 'y', 'ay', 'u', 'at', 'in', 'z', 'x', 'eV', 'g', 'kg', 'mm'):
        collides = name in M.SI.all_names() or any(p + name in M.SI.all_names() for p in M.PREFIX)
        if not collides:
            continue
        if must_raise(f'units.{name} = 2m (collides with an existing unit)', lambda: setattr(SI.units, name, SI.Length.wrap(2.))):
            pass
    if dict(SI.units).keys() != before.keys() or any(SI.units[k] is not before[k] for k in before):
        mon.violation('unit table', 'unit table changed by rejected definitions')
        return
    must_raise('units.x = 5 (not a quantity or str)', lambda: setattr(SI.units, 'x', 5.), TypeError)
    must_raise("Dimension.create('L')", lambda: SI.Dimension.create('L'))
    must_raise("Dimension.create('L2')", lambda: SI.Dimension.create('L2'))
    must_raise("Dimension.create('A*B')", lambda: SI.Dimension.create('A*B'))
    must_raise("Dimension.create(5)", lambda: SI.Dimension.create(5))
    try:
        Angle = SI.Dimension.create('Φ')
        SI.units.rad = Angle.wrap(1.)
        SI.units.deg = math.pi / 180 * SI.units.rad
    except Exception as e:
        mon.violation('unit table', f'extension scenario of the module docstring failed: {type(e).__name__}: {e}')
        return
    must_raise("units.deg redefinition", lambda: setattr(SI.units, 'deg', '0.017453292519943295rad'))
    must_raise("Dimension.create('Φ') twice", lambda: SI.Dimension.create('Φ'))
    PHI = (('Φ', F(1)),)
    units = dict(M.UNITS)
    units['rad'] = (1., PHI)
    units['deg'] = (math.pi / 180, PHI)
    table = M.Table(units)
    env.extra_base = {'Φ': Angle}
    prob = env.check_dim(SI.units.rad, PHI)
    if prob:
        mon.violation('dimension', f'units.rad: {prob}')
    from vlib.runner import rng_for
    rng = rng_for(seed, 'c20', 'extension')
    baseunit = dict(M.BASEUNIT)
    baseunit['Φ'] = 'rad'
    for i in range(200):
        vec = M.vmul(M.vpow(PHI, int(rng.choice([1, 1, 2, -1]))), M.rnd_vec(rng) if rng.random() < .6 else M.NIL)
        s = M.rnd_number(rng) + M.unit_string(rng, vec, table=table, baseunit=baseunit)
        mval, mvec = M.parse(s, table)
        res.count('extension_strings')
        try:
            q = SI.parse(s)
        except Exception as e:
            mon.violation('valid unit string rejected', f'parse({s!r}) after extension: {type(e).__name__}: {e}')
            continue
        prob = env.check_dim(q, mvec)
        if prob or cmp_rel(env.payload(q), mval)[0] == VIOLATION:
            mon.violation('parse', f'parse({s!r}) after extension = {q!r}: {prob or mval}')
            continue
        if mvec:
            r = pickle.loads(pickle.dumps(type(q)))
            if r is not type(q):
                mon.violation('pickle', f'class {type(q).__name__} does not survive pickling')
    try:
        a = SI.parse('30deg') / 'rad'
        if abs(a - math.pi / 6) > 1e-12:
            mon.violation('value', f"parse('30deg')/'rad' = {a!r}")
    except Exception as e:
        mon.violation('value', f"parse('30deg')/'rad': {type(e).__name__}: {e}")


# ------------------------------------------------------------------ (4) Dimension algebra laws

def run_algebra_case(env, res, seed, index):
    from vlib.runner import rng_for
    rng = rng_for(seed, 'c20', 'alg', index)
    SI = env.SI
    case = dict(family='alg', seed=seed, index=index)
    mon = Monitor(env, res, case)
    res.count('evaluations')
    res.count('algebra_cases')
    va, vb = M.rnd_vec(rng), M.rnd_vec(rng)
    if rng.random() < .3:
        va = M.vpow(va, F(int(rng.integers(1, 6)), int(rng.integers(1, 6))))
    case['A'], case['B'] = M.vstr(va), M.vstr(vb)
    res.add('distinct', h('alg', va, vb))

    def mk(v):
        # two routes to the same exponents: base powers multiplied in random order; from_powers
        base = dict(T=SI.Time, L=SI.Length, M=SI.Mass, I=SI.ElectricCurrent, N=SI.AmountOfSubstance, J=SI.LuminousIntensity)
        base['θ'] = SI.Temperature
        cls = SI.Dimensionless
        for i in rng.permutation(len(v)):
            s, p = v[int(i)]
            if rng.random() < .5:
                cls = cls * base[s] ** p
            else:
                cls = cls / base[s] ** (-p)
        return cls

    def law(name, got, vec):
        res.count('laws_checked')
        res.count('law/' + name)
        if not isinstance(got, SI.Dimension):
            mon.violation('algebra', f'{name}: result {got!r} is not a Dimension')
            return False
        try:
            v = env.vec_of_class(got)
        except Exception as e:
            mon.violation('algebra', f'{name}: unreadable name {got.__name__!r}')
            return False
        if v != vec:
            mon.violation('algebra', f'{name}: got {got.__name__}, model {M.vstr(vec)}')
            return False
        if vec:
            first = env.registry.setdefault(vec, got)
            if first is not got:
                mon.violation('algebra', f'{name}: {got!r} is not the canonical class object for {M.vstr(vec)} (cache canonicality)')
                return False
        elif got is not SI.Dimensionless:
            mon.violation('algebra', f'{name}: empty exponents but not Dimensionless')
            return False
        return True
    try:
        A, A2, B = mk(va), mk(va), mk(vb)
        if not (law('construct', A, va) and law('construct', B, vb)):
            return
        if A2 is not A:
            mon.violation('algebra', f'two routes to {M.vstr(va)} give different class objects')
        res.count('laws_checked')
        law('A*B', A * B, M.vmul(va, vb))
        law('A/B', A / B, M.vdiv(va, vb))
        if (A * B) / B is not A:
            mon.violation('algebra', f'A*B/B is not A for A={A.__name__} B={B.__name__}')
        if (A / B) * B is not A:
            mon.violation('algebra', f'A/B*B is not A for A={A.__name__} B={B.__name__}')
        if A * B is not B * A:
            mon.violation('algebra', f'A*B is not B*A')
        res.count('laws_checked', 3)
        n = int(rng.choice([2, 3, 4, 5, 7, -1, -2, -3]))
        law('A**n', A ** n, M.vpow(va, n))
        if (A ** n) ** F(1, n) is not A:
            mon.violation('algebra', f'(A**{n})**(1/{n}) is not A for A={A.__name__}')
        res.count('laws_checked')
        if n in (2, 4, -2):
            if (A ** n) ** (1 / n) is not A:     # 1/n exactly representable as a float
                mon.violation('algebra', f'(A**{n})**{1/n} is not A for A={A.__name__}')
            res.count('laws_checked')
        p = [.5, 1.5, 2., -.5, .25, 1 / 3, numpy.float64(.5), numpy.int64(2), F(2, 3), F(-3, 4), 0, True][int(rng.integers(0, 12))]
        law('A**p', A ** p, M.vpow(va, F(p)))
        law('A**0', A ** 0, M.NIL)
        law('A/A', A / A, M.NIL)
        if bool(A) is not True or bool(SI.Dimensionless) is not False:
            mon.violation('algebra', 'bool(Dimension)')
        # pickle and name round trip preserve identity
        for X in (A, A * B, A ** F(1, 2)):
            r = pickle.loads(pickle.dumps(X))
            res.count('class_pickles')
            if r is not X:
                mon.violation('pickle', f'class {X.__name__}: round trip gives {r!r}')
            g = getattr(SI.Quantity, X.__name__)
            if g is not X:
                mon.violation('pickle', f'getattr(Quantity, {X.__name__!r}) is not the class')
        fp = SI.Dimension.from_powers({s: p for s, p in va})
        if fp is not A:
            mon.violation('algebra', f'from_powers gives another class object for {M.vstr(va)}')
        # instances: wrap/unwrap and pickle
        x = float(rng.uniform(-5, 5))
        q = A.wrap(x)
        if type(q) is not A or q.unwrap() != x:
            mon.violation('algebra', 'wrap/unwrap')
        r = pickle.loads(pickle.dumps(q))
        if type(r) is not A or r.unwrap() != x:
            mon.violation('pickle', f'instance of {A.__name__}: round trip gives {r!r}')
        if SI.Dimensionless.wrap(x) is not x:
            mon.violation('algebra', 'Dimensionless.wrap does not return the bare value')
        # mixed Dimension/non-Dimension operands are refused
        for f in (lambda: A * 2, lambda: A / 2, lambda: 2 * A):
            res.count('laws_checked')
            try:
                r = f()
                mon.violation('algebra', f'Dimension combined with a number returned {r!r}')
            except TypeError:
                pass
    except Exception as e:
        import traceback
        mon.violation('algebra', f'{type(e).__name__}: {e}\n{traceback.format_exc()[-600:]}')


# ------------------------------------------------------------------ (5) nutils.unit

ULETTERS = ['m', 'k', 'h', 'd', 'a', 'c', 'g', 's', 'in', 'ol', 'P', 'T', 'x', 'N', 'μ', 'Ω', 'b', 'l']


def rnd_uname(rng, taken):
    for _ in range(50):
        n = ''.join(ULETTERS[int(i)] for i in rng.integers(0, len(ULETTERS), size=int(rng.integers(1, 3))))
        if n not in taken:
            return n
    return None


def uword(rng, U, names):
    """A word (optionally prefixed) for a defined unit; returns text."""
    n = names[int(rng.integers(0, len(names)))]
    if rng.random() < .45:
        p = list(M.PREFIX)[int(rng.integers(0, len(M.PREFIX)))]
        return p + n
    return n


def ustring(rng, names, maxf=3, number=True):
    nf = int(rng.integers(1, maxf + 1))
    s = ''
    if number and rng.random() < .8:
        s = M.rnd_number(rng)
    for i in range(nf):
        op = '*' if rng.random() < .6 else '/'
        w = uword(rng, None, names)
        pw = '' if rng.random() < .6 else str(int(rng.integers(1, 4)))
        if i == 0 and op == '*' and (rng.random() < .9 or not s):
            s += w + pw
        else:
            s += op + w + pw
    return s


def run_unitpy_case(env, res, seed, index):
    from vlib.runner import rng_for
    rng = rng_for(seed, 'c20', 'unitpy', index)
    unit = env.unit
    case = dict(family='unitpy', seed=seed, index=index)
    mon = Monitor(env, res, case)
    res.count('evaluations')
    res.count('unitpy_systems')
    # a random unit system: base units with numeric values, derived units referring to earlier ones
    defs = {}
    nbase = int(rng.integers(1, 4))
    for _ in range(nbase):
        n = rnd_uname(rng, defs)
        if n:
            defs[n] = [1, 1., 1e-3, 2.5, 60][int(rng.integers(0, 5))]
    for _ in range(int(rng.integers(0, 4))):
        n = rnd_uname(rng, defs)
        if n:
            defs[n] = ustring(rng, sorted(defs), maxf=2)
    case['defs'] = {k: v for k, v in defs.items()}
    try:
        model = M.UnitSystem(defs)
    except M.ModelInvalid as e:
        # e.g. a new name that also reads as prefix+unit in an earlier definition (cycle), or float overflow: not a valid system
        res.count('unitpy_generator_discards')
        return
    # shuffle the definition order: resolution must not depend on it
    order = [list(defs)[int(i)] for i in rng.permutation(len(defs))]
    try:
        U = unit.create(**{k: defs[k] for k in order})
    except Exception as e:
        mon.violation('unit.create', f'create({defs}) raised {type(e).__name__}: {e}')
        return
    res.add('distinct', h('unitpy', sorted(defs.items(), key=str)))
    names = sorted(defs)
    for j in range(8):
        s = ustring(rng, names)
        try:
            mval, mvec = model.parse(s)
        except M.ModelInvalid:
            continue
        w = [t for t in __import__('re').findall('[A-Za-zα-ωΑ-Ω]+', s)]
        if any(t not in defs and t[1:] in defs and t in defs for t in w):
            pass
        if any(t in defs and len(t) > 1 and t[0] in M.PREFIX and t[1:] in defs for t in w):
            res.count('unitpy_ambiguous_words')   # e.g. 'min' with both 'min' and 'in' defined: the unit wins
        res.count('unitpy_strings')
        try:
            q = U._parse(s)
            val, powers = q.value, {k: F(v) for k, v in q.powers.items()}
        except Exception as e:
            mon.violation('unit.parse', f'{defs}: parse({s!r}) raised {type(e).__name__}: {e}')
            continue
        if M.vnorm(powers) != mvec:
            mon.violation('unit.parse', f'{defs}: parse({s!r}).powers = {q.powers}, model {M.vstr(mvec)}')
            continue
        v, det = cmp_rel(val, mval)
        if v == VIOLATION:
            mon.violation('unit.parse', f'{defs}: parse({s!r}).value = {val!r}, model {mval!r}')
            continue
        if v == MARGINAL:
            res.count('marginal')
        # the public call: U(s) is a float subclass bound to the unit of s
        try:
            u = U(s)
            if cmp_rel(float(u), mval)[0] == VIOLATION:
                mon.violation('unit.parse', f'{defs}: U({s!r}) = {float(u)!r}, model {mval!r}')
        except Exception as e:
            mon.violation('unit.parse', f'{defs}: U({s!r}) raised {type(e).__name__}: {e}')
            continue
        # bound types: same dimension accepted (value in reference units), other dimension rejected
        t = ustring(rng, names, number=False)
        try:
            tval, tvec = model.parse(t)
        except M.ModelInvalid:
            continue
        try:
            B = U[t]
        except Exception as e:
            mon.violation('unit.parse', f'U[{t!r}] raised {type(e).__name__}: {e}')
            continue
        if tvec == mvec:
            res.count('unitpy_bound_same')
            try:
                b = B(s)
                if cmp_rel(float(b), mval)[0] == VIOLATION:
                    mon.violation('unit.parse', f'{defs}: U[{t!r}]({s!r}) = {float(b)!r}, model {mval!r}')
                # stringly round trip
                if 1e-12 < abs(mval / tval) < 1e15:
                    d = B.__stringly_dumps__(float(b))
                    back = B.__stringly_loads__(d)
                    res.count('unitpy_stringly_roundtrips')
                    if not d.endswith(t) or cmp_rel(back, float(b))[0] == VIOLATION or 'e' in d[:len(d) - len(t)]:
                        mon.violation('stringly round trip', f'{defs}: U[{t!r}] dumps({float(b)!r}) = {d!r} loads -> {back!r}')
            except Exception as e:
                mon.violation('unit.parse', f'{defs}: U[{t!r}]({s!r}) raised {type(e).__name__}: {e}')
        else:
            res.count('unitpy_wrong_unit_presented')
            try:
                b = B(s)
                mon.violation('wrong unit accepted', f'{defs}: U[{t!r}]({s!r}) returned {float(b)!r}; dimensions {M.vstr(tvec)} vs {M.vstr(mvec)}')
            except ValueError:
                res.count('unitpy_wrong_unit_rejected')
            except Exception as e:
                res.count('unitpy_wrong_unit_rejected')
                res.add('rejected_other_exception_types', f'unit.py wrong unit: {type(e).__name__}')
    # unknown units are rejected
    for bad in ('2foo', '3' + 'q' + names[0], '1da' + names[0]):
        w = bad.lstrip('0123456789')
        try:
            model.parse(bad)
            continue
        except M.ModelInvalid:
            pass
        res.count('unitpy_wrong_unit_presented')
        try:
            r = U(bad)
            mon.violation('wrong unit accepted', f'{defs}: U({bad!r}) returned {float(r)!r}')
        except ValueError:
            res.count('unitpy_wrong_unit_rejected')
        except Exception as e:
            res.count('unitpy_wrong_unit_rejected')
            res.add('rejected_other_exception_types', f'unit.py unknown unit: {type(e).__name__}')


def run_unitpy_prefix_sweep(env, res, seed):
    """All prefixes x the documented example system."""
    unit = env.unit
    case = dict(family='unitpy_prefixes', seed=seed, index=0)
    mon = Monitor(env, res, case)
    res.count('evaluations')
    defs = dict(m=1, s=1, g=1e-3, Pa='N/m2', N='kg*m/s2', lb='453.59237g', h='3600s', **{'in': '.0254m'})
    U = unit.create(**defs)
    model = M.UnitSystem(defs)
    res.add('distinct', h('unitpy_prefixes'))
    for p in [''] + list(M.PREFIX):
        for n in defs:
            for s in (f'1{p}{n}', f'2.5{p}{n}2', f'3/{p}{n}'):
                try:
                    mval, mvec = model.parse(s)
                except M.ModelInvalid:
                    continue
                res.count('unitpy_prefix_entries')
                try:
                    q = U._parse(s)
                except Exception as e:
                    mon.violation('unit.parse', f'parse({s!r}) raised {type(e).__name__}: {e}')
                    continue
                if M.vnorm({k: F(v) for k, v in q.powers.items()}) != mvec or cmp_rel(q.value, mval)[0] == VIOLATION:
                    mon.violation('unit.parse', f'parse({s!r}) = {q.value!r} {q.powers}, model {mval!r} {M.vstr(mvec)}')


# ------------------------------------------------------------------ Units.__setattr__: prefix expansion and collisions

def run_useq_case(env, res, seed, index):
    from vlib.runner import rng_for
    rng = rng_for(seed, 'c20', 'useq', index)
    SI = env.SI
    case = dict(family='useq', seed=seed, index=index)
    mon = Monitor(env, res, case)
    res.count('evaluations')
    res.count('units_sequences')
    U = SI.Units()
    model = {}
    seq = []
    for step in range(int(rng.integers(4, 9))):
        name = rnd_uname(rng, ())
        if name is None:
            continue
        x = float(rng.uniform(.5, 9))
        how = int(rng.integers(0, 3))
        if how == 0:
            value, mval, mvec = SI.Length.wrap(x), x, M.L_
        elif how == 1:
            value, mval, mvec = SI.Time.wrap(x), x, M.T_
        else:
            s = M.fmt_num(round(x, 2)) + M.unit_string(rng, M.rnd_vec(rng))
            value = s
            mval, mvec = M.parse(s)
            if not mvec:
                continue
        seq.append(name)
        collide = name in model or any(p + name in model for p in M.PREFIX)
        res.count('units_definitions')
        try:
            setattr(U, name, value)
            accepted = True
        except ValueError:
            accepted = False
        except Exception as e:
            mon.violation('unit table', f'defining {name!r} after {seq[:-1]} raised {type(e).__name__}: {e}')
            return
        if collide:
            res.count('units_collisions_presented')
            if accepted:
                mon.violation('unit collision accepted', f'defining {name!r} after {seq[:-1]} was accepted although it collides with an existing (prefixed) unit')
                return
            res.count('units_collisions_rejected')
        else:
            if not accepted:
                mon.violation('unit table', f'defining {name!r} after {seq[:-1]} was rejected without a collision')
                return
            model[name] = (mval, mvec)
            for p, sc in M.PREFIX.items():
                model[p + name] = (mval * sc, mvec)
        if set(U) != set(model):
            mon.violation('unit table', f'after defining {seq}: table keys differ from the model: {sorted(set(U) ^ set(model))[:8]}')
            return
        for k in ([name] + [p + name for p in M.PREFIX]) if not collide else list(model)[:40]:
            mv, mvv = model[k]
            q = U[k]
            prob = env.check_dim(q, mvv)
            if prob or cmp_rel(env.payload(q), mv)[0] == VIOLATION:
                mon.violation('unit table', f'after defining {seq}: units[{k!r}] = {q!r}, model {mv!r} {M.vstr(mvv)}')
                return
            if getattr(U, k) is not q:
                mon.violation('unit table', 'getattr differs from getitem')
    case['names'] = seq
    if len(seq) >= 3:
        res.add('distinct', h('useq', seq))
