"""C17 — catalogue of real nutils objects (references, transforms, points, samples, lowered
integrals) taken from small meshes, addressable by name from recipes ``['nu', name]``;
``fresh(name)`` rebuilds the object through a new mesh call (another construction route of
the structurally same value)."""

import numpy

_CAT = None
_MESHES = None


def _mesh_makers():
    from nutils import mesh
    return {
        'line1': lambda: mesh.line(1),
        'line2': lambda: mesh.line(2),
        'line3': lambda: mesh.line(3),
        'line3b': lambda: mesh.line(numpy.linspace(0, 3, 4)),          # same topology as line3 through another call
        'line3p': lambda: mesh.rectilinear([3], periodic=[0]),
        'rect22': lambda: mesh.rectilinear([2, 2]),
        'rect23': lambda: mesh.rectilinear([2, 3]),
        'rect32': lambda: mesh.rectilinear([3, 2]),
        'rect23b': lambda: mesh.rectilinear([numpy.linspace(0, 2, 3), numpy.linspace(0, 3, 4)]),
        'rect22p': lambda: mesh.rectilinear([2, 2], periodic=[1]),
        'rect111': lambda: mesh.rectilinear([1, 1, 1]),
        'tri1': lambda: mesh.unitsquare(1, 'triangle'),
        'tri2': lambda: mesh.unitsquare(2, 'triangle'),
        'mixed2': lambda: mesh.unitsquare(2, 'mixed'),
        'prodXY': lambda: _product(mesh),
    }


def _product(mesh):
    from nutils import function
    X, x = mesh.line(2, space='X')
    Y, y = mesh.line(3, space='Y')
    return X * Y, numpy.stack([x, y])


def _objects_of(name, dom, geom, out):
    """Name -> object for everything hashable that hangs off one topology."""
    def put(k, f):
        try:
            out[name + '.' + k] = f()
        except Exception:
            pass
    topos = {'': dom}
    trim = name in ('line2', 'rect22', 'tri1')
    for k, f in (('.boundary', lambda: dom.boundary), ('.interfaces', lambda: dom.interfaces), ('.refined', lambda: dom.refined), ('[:1]', lambda: dom[:1]),
                 ('.refined_by0', lambda: dom.refined_by([0])), ('.trimmed', lambda: dom.trim(geom[0] - .7, maxrefine=1)),
                 ('.trimmed.boundary', lambda: dom.trim(geom[0] - .7, maxrefine=1).boundary)):
        if 'trimmed' in k and not trim:
            continue
        try:
            topos[k] = f()
        except Exception:
            pass
    for tk, T in topos.items():
        put('topo' + tk + '.references', lambda: T.references)
        put('topo' + tk + '.transforms', lambda: T.transforms)
        put('topo' + tk + '.opposites', lambda: T.opposites)
        put('topo' + tk + '.references[0]', lambda: T.references[0])
        put('topo' + tk + '.transforms[0]', lambda: T.transforms[0])
        put('topo' + tk + '.transforms[-1]', lambda: T.transforms[len(T) - 1])
        put('topo' + tk + '.transforms[0][-1]', lambda: T.transforms[0][-1])
        for ischeme, degree in (('gauss', 1), ('gauss', 2), ('gauss', 3), ('bezier', 2), ('uniform', 1), ('uniform', 2)):
            sk = 'topo' + tk + '.sample(%s%d)' % (ischeme, degree)
            try:
                smp = T.sample(ischeme, degree)
            except Exception:
                continue
            put(sk, lambda: smp)
            put(sk + '.points', lambda: smp.points)
            put(sk + '.points[0]', lambda: smp.points[0])
            put(sk + '.transforms', lambda: tuple(smp.transforms))
            if tk == '':
                put(sk + '.take_elements', lambda: smp.take_elements(numpy.array([0])))
                put(sk + '+self', lambda: smp + smp)
                put(sk + '.zip', lambda: smp.zip(smp))
            if tk in ('', '.boundary') and degree <= 2 and ischeme == 'gauss':
                put(sk + '.integral(x0)', lambda: smp.integral(geom[0]).as_evaluable_array)
                put(sk + '.integral(1)', lambda: smp.integral(1.).as_evaluable_array)
                put(sk + '.eval(x)', lambda: smp(geom).as_evaluable_array)
                if tk == '':
                    put(sk + '.integral(basis)', lambda: smp.integral(dom.basis('std', degree=1)).as_evaluable_array)
                    put(sk + '.integral(basis.simplified)', lambda: smp.integral(dom.basis('std', degree=1)).as_evaluable_array.simplified)


def catalogue():
    global _CAT, _MESHES
    if _CAT is None:
        cat = {}
        meshes = {}
        for name, make in _mesh_makers().items():
            dom, geom = make()
            meshes[name] = (dom, geom)
            _objects_of(name, dom, geom, cat)
        from nutils import element, transform, points, transformseq
        direct = {
            'ref.point': lambda: element.PointReference(), 'ref.line': lambda: element.LineReference(), 'ref.triangle': lambda: element.TriangleReference(),
            'ref.tet': lambda: element.TetrahedronReference(), 'ref.square': lambda: element.LineReference()**2, 'ref.cube': lambda: element.LineReference()**3,
            'ref.line*tri': lambda: element.LineReference() * element.TriangleReference(), 'ref.tri*line': lambda: element.TriangleReference() * element.LineReference(),
            'tr.Identity1': lambda: transform.Identity(1), 'tr.Identity2': lambda: transform.Identity(2), 'tr.Index(1,0)': lambda: transform.Index(1, 0),
            'tr.Index(1,1)': lambda: transform.Index(1, 1), 'tr.Index(2,0)': lambda: transform.Index(2, 0), 'tr.Index(2,1)': lambda: transform.Index(2, 1),
            'tr.SimplexEdge(1,0)': lambda: transform.SimplexEdge(1, 0), 'tr.SimplexEdge(1,1)': lambda: transform.SimplexEdge(1, 1),
            'tr.SimplexEdge(1,0,True)': lambda: transform.SimplexEdge(1, 0, True), 'tr.SimplexEdge(2,0)': lambda: transform.SimplexEdge(2, 0),
            'tr.SimplexChild(1,0)': lambda: transform.SimplexChild(1, 0), 'tr.SimplexChild(1,1)': lambda: transform.SimplexChild(1, 1), 'tr.SimplexChild(2,0)': lambda: transform.SimplexChild(2, 0),
            'tr.Point0': lambda: transform.Point(_ad([0.])), 'tr.Point1': lambda: transform.Point(_ad([1.])),
            'tr.Square([[1]],[0])': lambda: transform.Square(_ad([[1.]]), _ad([0.])), 'tr.Square([[2]],[0])': lambda: transform.Square(_ad([[2.]]), _ad([0.])),
            'tr.Square([[1]],[1])': lambda: transform.Square(_ad([[1.]]), _ad([1.])), 'tr.Matrix([[1]],[0])': lambda: transform.Matrix(_ad([[1.]]), _ad([0.])),
            'trs.Index(1,3)': lambda: transformseq.IndexTransforms(1, 3), 'trs.Index(1,3,1)': lambda: transformseq.IndexTransforms(1, 3, 1), 'trs.Index(3,1)': lambda: transformseq.IndexTransforms(3, 1),
            'pts.gauss(1,1)': lambda: points.SimplexGaussPoints(1, 1), 'pts.gauss(1,2)': lambda: points.SimplexGaussPoints(1, 2), 'pts.gauss(2,1)': lambda: points.SimplexGaussPoints(2, 1),
            'pts.bezier(1,2)': lambda: points.SimplexBezierPoints(1, 2), 'pts.bezier(2,1)': lambda: points.SimplexBezierPoints(2, 1), 'pts.bezier(1,3)': lambda: points.SimplexBezierPoints(1, 3),
        }
        for k, f in direct.items():
            try:
                cat[k] = f()
            except Exception:
                pass
        _CAT, _MESHES = cat, meshes
    return _CAT


def _ad(x):
    from nutils import types
    return types.arraydata(numpy.array(x, dtype=float))


def names():
    return sorted(catalogue())


def fresh(name):
    """Rebuild catalogue object ``name`` via a new mesh call."""
    mname = name.split('.', 1)[0]
    makers = _mesh_makers()
    if mname not in makers:
        raise KeyError(name)
    dom, geom = makers[mname]()
    out = {}
    _objects_of(mname, dom, geom, out)
    return out[name]


# pairs of catalogue names whose objects are structurally the same value reached through different mesh calls
SAME_STRUCTURE = [('line3', 'line3b'), ('rect23', 'rect23b')]
