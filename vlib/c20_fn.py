"""C20 function-array family: Quantity-wrapped nutils function arrays on a small topology, evaluated per point."""

import numpy
from vlib import c20_model as M
from vlib.c20_core import Opd, Call, cmp_rel, cmp_same, PASS, VIOLATION, MARGINAL

FN_KEYS = ['function.' + n for n in ('scatter replace_arguments opposite swap_spaces linearize kronecker jump factor derivative surfgrad grad div '
                                     'curl laplace jacobian normalized normal curvature evaluate field arguments_for').split()] + \
    ['sample.Sample.integral', 'sample.Sample.bind', 'topology.Topology.locate']


class FnCtx:
    """Topology, geometry, basis, sample and argument values for one case."""

    def __init__(self, env, rng):
        self.env, self.rng = env, rng
        mesh, function = env.mesh, env.function
        self.d = d = int(rng.choice([1, 2, 2, 2, 2, 3]))
        nel = [int(rng.integers(1, 3)) for _ in range(d)]
        if d == 1:
            nel = [int(rng.integers(2, 4))]
        if d == 3:
            nel = [1, 1, 2]
        if int(numpy.prod(nel)) < 2:
            nel[0] = 2
        self.kind = 'rect'
        if d == 2 and rng.random() < .25:
            self.topo, self.geom0 = mesh.unitsquare(2, 'triangle')
            self.kind = 'tri'
        else:
            self.topo, self.geom0 = mesh.rectilinear([numpy.linspace(0, 1 + .5 * rng.random(), n + 1) for n in nel])
        self.space = self.topo.spaces[0] if hasattr(self.topo, 'spaces') else 'X'
        stretch = rng.uniform(.6, 1.8, size=d)
        self.geom1 = self.geom0 * stretch + .15 * self.geom0[::-1] ** 2 if rng.random() < .6 and d < 3 else self.geom0 * stretch
        self.where = str(rng.choice(['interior', 'interior', 'interior', 'boundary', 'boundary', 'interfaces']))
        if self.where == 'interior':
            self.smp = self.topo.sample('gauss', 2)
            self.tipdim = d
        elif self.where == 'boundary':
            self.smp = self.topo.boundary.sample('gauss', 2)
            self.tipdim = d - 1
        else:
            self.smp = self.topo.interfaces.sample('gauss', 1)
            self.tipdim = d - 1
        btype = str(rng.choice(['std', 'std', 'discont']))
        self.basis = self.topo.basis(btype, degree=int(rng.integers(1, 3)) if d < 3 else 1)
        self.nb = len(self.basis)
        self.arguments = {}
        self.nargs = 0

    def newarg(self, shape):
        name = f'a{self.nargs}'
        self.nargs += 1
        self.arguments[name] = self.rng.uniform(-2, 2, size=shape)
        return name

    # ---------------- observation

    def evaluate_pair(self, real, plain, res):
        """Evaluate the real (possibly Quantity-wrapped) and the plain function array at the sample points.
        Returns None when the plain computation itself cannot be evaluated on this sample."""
        env, function, smp = self.env, self.env.function, self.smp
        mode = int(self.rng.choice([0, 0, 0, 1, 2]))
        if mode == 0:
            try:
                rv, pv = function.evaluate(smp.bind(real), smp.bind(plain), arguments=self.arguments)
            except Exception:
                # who is to blame?  if the plain array alone cannot be evaluated here, nothing can be said about values
                try:
                    function.evaluate(smp.bind(plain), arguments=self.arguments)
                except Exception:
                    return None
                raise
            res.count('evalmode/evaluate(bind(q), bind(plain))')
            return rv, pv
        try:
            pv = function.evaluate(smp.bind(plain), arguments=self.arguments)[0]
        except Exception:
            return None
        if mode == 1:
            rv = smp.eval(real, self.arguments)
            res.count('evalmode/sample.eval(q)')
        else:
            rv = function.eval([smp.bind(real)], self.arguments)[0]
            res.count('evalmode/function.eval([bind(q)])')
        return rv, pv

    def observe(self, G):
        def obs(o, desc, step):
            mon, res = G.mon, G.mon.res
            if G.rng.random() > G.evalprob:
                return True
            try:
                pair = self.evaluate_pair(o.real, o.plain, res)
            except Exception as e:
                from vlib.c20_core import REFUSAL_TYPES
                if isinstance(e, REFUSAL_TYPES) and not mon.env.isq(e) and not isinstance(e, mon.env.SI.DimensionError):
                    res.count('refusals')
                    res.count('refused/evaluation')
                    res.add('refusal_kinds', f'evaluation: {type(e).__name__}: {str(e)[:60]}')
                    return None
                mon.violation('unexpected exception', f'evaluating result of {desc}: {type(e).__name__}: {str(e)[:300]}', step=step)
                return False
            if pair is None:
                return None
            rv, pv = pair
            res.count('fn_evaluations')
            prob = mon.env.check_dim(rv, o.vec)
            if prob:
                mon.violation('dimension', f'evaluated result of {desc}: {prob}', step=step)
                return False
            v, det = cmp_same(mon.env.payload(rv), pv)
            if not mon.verdict(v, f'evaluated {desc}', det, step):
                return False
            if o.vec and G.rng.random() < .3:
                G.readback(o, values=(rv, pv), step=step)
            return True
        return obs

    # ---------------- leaves

    def leaf(self, G, vec=None, shape=None, ndim_min=0, role=None):
        env, rng, res, mon = self.env, self.rng, G.mon.res, G.mon
        function, SI = env.function, env.SI
        d = self.d
        if vec is None or not M.expressible(vec):
            vec = G.casedims[int(rng.integers(0, len(G.casedims)))]
        roles = ['geom', 'field', 'vfield', 'const', 'cvec']
        if shape == ():
            roles = ['field', 'const']
        elif shape == (d,):
            roles = ['geom', 'vfield', 'cvec']
        elif shape is not None:
            return None
        elif ndim_min >= 1:
            roles = ['geom', 'vfield', 'cvec']
        role = role or roles[int(rng.integers(0, len(roles)))]
        if role == 'geom':
            base = self.geom1
        elif role == 'field':
            base = function.field(self.newarg((self.nb,)), self.basis)
        elif role == 'vfield':
            base = function.field(self.newarg((self.nb, d)), self.basis, shape=(d,))
        elif role == 'const':
            base = function.Array.cast(float(rng.uniform(.5, 4.)))
        else:
            base = function.Array.cast(rng.uniform(.5, 4., size=d))
        s = M.unit_string(rng, vec)
        uval, uvec = M.parse(s)
        assert uvec == vec
        res.count('leaves')
        res.count('leafmode/fn_' + role)
        try:
            u = SI.parse(s)
            real = base * u if rng.random() < .5 else u * base
        except Exception as e:
            mon.violation('valid unit string rejected', f'function array * parse({s!r}): {type(e).__name__}: {e}')
            return None
        prob = env.check_dim(real, vec)
        if prob:
            mon.violation('dimension', f'fn leaf {s!r}: {prob}')
            return None
        plain = env.payload(real)
        if not isinstance(plain, function.Array):
            mon.violation('value', f'fn leaf {s!r}: payload is {type(plain).__name__}')
            return None
        # value of the leaf against the model scale (one evaluation)
        try:
            rv, bv = function.evaluate(self.smp.bind(real), self.smp.bind(base), arguments=self.arguments)
        except Exception as e:
            mon.violation('unexpected exception', f'evaluating fn leaf {s!r}: {type(e).__name__}: {str(e)[:200]}')
            return None
        prob = env.check_dim(rv, vec)
        if prob:
            mon.violation('dimension', f'evaluated fn leaf {s!r}: {prob}')
            return None
        v, det = cmp_rel(env.payload(rv), bv * uval)
        if not mon.verdict(v, f'fn leaf {s!r}', det):
            return None
        o = Opd(real, plain, vec, role=role, isfn=True)
        G.pool.append(o)
        return o

    def geomq(self, G, dimensional=True):
        o = G.pick(lambda o: o.role == 'geom') if self.rng.random() < .7 else None
        if o is None:
            if not dimensional:
                return Opd(self.geom1, self.geom1, M.NIL, role='geom', isfn=True)
            o = self.leaf(G, role='geom')
        return o

    def spatial(self, G, shape=None, ndim_min=0):
        """An operand that varies in space (so that derivatives are non-trivial)."""
        def p(o):
            return o.isfn and o.role in ('geom', 'field', 'vfield', 'derived') and (shape is None or o.shape == shape) and o.ndim >= ndim_min \
                and o.dlevel <= (0 if self.d == 3 else 1)
        o = G.pick(p) if self.rng.random() < .6 else None
        if o is None:
            if shape == ():
                o = self.leaf(G, role='field')
            elif shape is not None or ndim_min:
                o = self.leaf(G, role='vfield' if self.rng.random() < .6 else 'geom')
            else:
                o = self.leaf(G, role=str(self.rng.choice(['field', 'vfield', 'geom'])))
        return o

    def with_argument(self, G):
        o = G.pick(lambda o: o.isfn and o.role in ('field', 'vfield')) if self.rng.random() < .5 else None
        return o or self.leaf(G, role='field' if self.rng.random() < .6 else 'vfield')


def fn_call(G, key):
    """Build a random call (or short list of calls) for a nutils dispatch key."""
    ctx, rng, env = G.fn, G.rng, G.env
    function = env.function
    name = key.split('.')[-1]
    fn = getattr(function, name, None)
    d = ctx.d
    if name in ('grad', 'surfgrad', 'laplace', 'div', 'curl'):
        if name == 'curl':
            if d != 3:
                return None
            f = ctx.spatial(G, shape=(3,))
        elif name == 'div':
            f = ctx.spatial(G, shape=(d,))
        else:
            f = ctx.spatial(G)
        if f is None:
            return None
        r = rng.random()
        if r < .15:
            f = Opd(f.plain, f.plain, M.NIL, isfn=True)     # plain function, dimensional geometry
            g = ctx.geomq(G)
        elif r < .25:
            g = ctx.geomq(G, dimensional=False)
        else:
            g = ctx.geomq(G)
        if g is None:
            return None
        args = [f, g]
        if name in ('grad', 'div', 'laplace') and rng.random() < .3:
            args.append(0)
        return Call(key, fn, args)
    if name == 'jacobian':
        g = ctx.geomq(G)
        if g is None:
            return None
        if rng.random() < .15:
            return Call(key, fn, [g], meta=dict(tipdim=ctx.tipdim))
        return Call(key, fn, [g, ctx.tipdim])
    if name in ('normal', 'curvature'):
        g = ctx.geomq(G)
        return g and Call(key, fn, [g])
    if name == 'normalized':
        f = ctx.spatial(G, ndim_min=1)
        return f and Call(key, fn, [f])
    if name in ('jump', 'opposite'):
        f = ctx.spatial(G)
        return f and Call(key, fn, [f])
    if name == 'derivative':
        f = ctx.with_argument(G)
        if f is None:
            return None
        names = sorted(f.plain.arguments)
        if not names:
            return None
        n = names[int(rng.integers(0, len(names)))]
        if rng.random() < .5:
            return Call(key, fn, [f, n])
        shape, dtype = f.plain.arguments[n]
        return Call(key, fn, [f, function.Argument(n, shape, dtype)])
    if name == 'linearize':
        f = ctx.with_argument(G)
        if f is None:
            return None
        names = sorted(f.plain.arguments)
        if not names:
            return None
        n = names[int(rng.integers(0, len(names)))]
        new = ctx.newarg(f.plain.arguments[n][0])
        return Call(key, fn, [f, f'{n}:{new}' if rng.random() < .5 else {n: new}])
    if name == 'replace_arguments':
        f = ctx.with_argument(G)
        if f is None:
            return None
        names = sorted(f.plain.arguments)
        if not names:
            return None
        n = names[int(rng.integers(0, len(names)))]
        shape = f.plain.arguments[n][0]
        new = ctx.newarg(shape)
        rep = function.Argument(new, shape) * 2. if rng.random() < .5 else new
        return Call(key, fn, [f, {n: rep}])
    if name == 'kronecker':
        f = G.any()
        if f is None or not f.isfn:
            f = ctx.spatial(G)
        if f is None:
            return None
        ax = int(rng.integers(0, f.ndim + 1))
        return Call(key, fn, [f, ax, 3, int(rng.integers(0, 3))])
    if name == 'scatter':
        f = ctx.spatial(G, ndim_min=1)
        if f is None:
            return None
        n = f.shape[-1]
        idx = rng.permutation(n + 2)[:n]
        return Call(key, fn, [f, n + 2, idx])
    if name == 'swap_spaces':
        f = ctx.spatial(G)
        return f and Call(key, fn, [f, ctx.space, 'Zz' if rng.random() < .7 else ctx.space])
    if name == 'factor' or key == 'sample.Sample.integral':
        f = ctx.with_argument(G) if rng.random() < .7 else ctx.spatial(G)
        if f is None:
            return None
        c1 = Call('sample.Sample.integral', lambda smp, func: smp.integral(func), [ctx.smp, f])
        if name != 'factor':
            return c1
        return [c1, ('then', lambda r: Call(key, fn, [r]))]
    if key == 'sample.Sample.bind':
        f = ctx.spatial(G)
        return f and Call(key, lambda smp, func: smp.bind(func), [ctx.smp, f])
    if name == 'evaluate':
        n = int(rng.integers(1, 4))
        items = []
        for _ in range(n):
            r = rng.random()
            if r < .2:
                items.append(G.leaf())
            elif r < .3:
                x = numpy.arange(3.)
                items.append(Opd(x, x, M.NIL))
            else:
                o = ctx.spatial(G)
                if o is None:
                    return None
                b = Call('sample.Sample.bind', lambda smp, func: smp.bind(func), [ctx.smp, o])
                items.append(('bound', b))
        return ('evaluate', items)
    if name == 'field':
        n = int(rng.integers(1, 3))
        arrs = []
        for _ in range(n):
            base = ctx.basis if rng.random() < .7 else function.Array.cast(rng.uniform(.5, 2., size=3))
            if rng.random() < .75:
                vec = G.casedims[int(rng.integers(0, len(G.casedims)))]
                s = M.unit_string(rng, vec)
                try:
                    q = base * env.SI.parse(s)
                except Exception as e:
                    G.mon.violation('valid unit string rejected', f'basis * parse({s!r}): {type(e).__name__}: {e}')
                    return None
                prob = env.check_dim(q, vec)
                if prob:
                    G.mon.violation('dimension', f'basis * parse({s!r}): {prob}')
                    return None
                arrs.append(Opd(q, env.payload(q), vec, isfn=True))
            else:
                arrs.append(Opd(base, base, M.NIL, isfn=True))
        argname = f'a{ctx.nargs}'
        ctx.nargs += 1
        ctx.arguments[argname] = rng.uniform(-2, 2, size=tuple(a.shape[0] for a in arrs))
        return Call(key, fn, [argname] + arrs)
    if name == 'arguments_for':
        a, b = ctx.with_argument(G), G.any()
        return a and b and Call(key, fn, [a, b])
    if name == 'locate':
        return ('locate',)
    raise KeyError(key)


def run_locate(G, step=None):
    """Topology.locate with dimensional geometry / coordinates / tolerances (inputs made with wrap, results monitored)."""
    from vlib.c20_core import execute
    ctx, rng, env, mon, res = G.fn, G.rng, G.env, G.mon, G.mon.res
    topo = ctx.topo
    if ctx.kind != 'rect':
        return
    vec = G.casedims[0]
    other = ([v for v in G.casedims if v != vec] or [M.vmul(vec, M.T_)])[0]
    W, Wo = env.cls_for(vec).wrap, env.cls_for(other).wrap
    geom = Opd(ctx.geom0 * W(1.), ctx.geom0, vec, role='geom', isfn=True)
    prob = env.check_dim(geom.real, vec) or env.check_dim(Wo(1.), other)
    if prob:
        mon.violation('dimension', 'wrap: ' + prob, step=step)
        return
    hi = numpy.array([float(numpy.max(v)) for v in ctx.topo.sample('bezier', 2).eval(ctx.geom0).T])
    pts = rng.uniform(.1, .9, size=(2, ctx.d)) * hi
    case = str(rng.choice(['ok', 'ok', 'ok_maxdist', 'coords', 'tol', 'tol_plain', 'tol_default', 'maxdist', 'coords_plain']))
    res.count('locate_case/' + case)
    coords = Opd(Wo(pts), pts, other) if case == 'coords' else Opd(pts, pts, M.NIL) if case == 'coords_plain' else Opd(W(pts), pts, vec)
    kw = dict(tol=Opd(Wo(1e-10), 1e-10, other) if case == 'tol' else 1e-10 if case == 'tol_plain' else Opd(W(1e-10), 1e-10, vec))
    if case == 'tol_default':
        kw = dict(eps=1e-10)
    if case == 'maxdist':
        kw['maxdist'] = Opd(Wo(5.), 5., other)
    if case == 'ok_maxdist':
        kw['maxdist'] = Opd(W(5.), 5., vec)
    call = Call('topology.Topology.locate', lambda t, g, c, **k: t.locate(g, c, **k), [topo, geom, coords], kw)
    out = execute(mon, call, step=step)
    if out is not None and case.startswith('ok'):
        try:
            back = out.real.eval(geom.real)
        except Exception as e:
            mon.violation('unexpected exception', f'sample.eval(geom) after locate: {type(e).__name__}: {e}', step=step)
            return
        prob = env.check_dim(back, vec)
        if prob:
            mon.violation('dimension', f'located sample.eval(geom): {prob}', step=step)
            return
        if not (abs(env.payload(back) - pts) < 1e-6).all():
            mon.violation('value', f'located points {env.payload(back).tolist()} != requested {pts.tolist()}', step=step)
        else:
            res.count('locate_verified')
