"""C20 workload generators: leaves made through unit strings, random calls for every dispatch key (numpy family)."""

import operator
import numpy
from fractions import Fraction as F
from vlib import c20_model as M
from vlib.c20_core import Opd, Call, cmp_rel, cmp_same, PASS, VIOLATION, MARGINAL

SHAPES = [(), (), (3,), (3,), (2, 3), (3, 3)]
OPFN = {'operator.' + n: getattr(operator, n) for n in
        'pos neg abs getitem setitem add sub mod mul matmul truediv pow eq ne lt le gt ge'.split()}
NPFN = {'numpy.' + n: getattr(numpy, n) for n in
        ('transpose trace take sum reshape real ptp positive negative min mean max imag conjugate broadcast_to amin amax absolute '
         'subtract minimum maximum hypot add multiply matmul divide sqrt power size shape ndim isnan isfinite not_equal less_equal less '
         'greater_equal greater equal concatenate stack interp').split()}
NPFN['numpy.linalg.norm'] = numpy.linalg.norm
NP_KEYS = sorted(OPFN) + sorted(NPFN)


def is_complex(o):
    dt = getattr(o.plain, 'dtype', None)
    if dt is complex:
        return True
    if dt is None:
        return isinstance(o.plain, complex)
    return getattr(dt, 'kind', '') == 'c'


def rnd_values(rng, shape, cplx=False, kind=None):
    kind = kind or rng.choice(['float', 'float', 'float', 'int', 'pos'])
    if kind == 'int':
        x = rng.integers(1, 7, size=shape).astype(float) * rng.choice([-1., 1.], size=shape)
    elif kind == 'pos':
        x = rng.uniform(.5, 8., size=shape)
    else:
        x = rng.uniform(.5, 8., size=shape) * rng.choice([-1., 1.], size=shape)
    if cplx:
        x = x + 1j * rng.uniform(.5, 4., size=shape)
    if shape == ():
        x = x[()]
    return x


class Gen:
    """Generation context: rng, operand pool, the dimensions in play in this case."""

    def __init__(self, env, mon, rng, fnctx=None):
        self.env, self.mon, self.rng, self.fn = env, mon, rng, fnctx
        self.pool = []
        n = int(rng.integers(2, 4))
        self.casedims = []
        while len(self.casedims) < n:
            v = M.rnd_vec(rng)
            if v and v not in self.casedims:
                self.casedims.append(v)
        self.shapes = SHAPES if fnctx is None else [(), (), (fnctx.d,), (fnctx.d,)]

    # ---------------- leaves

    def leaf(self, vec=None, shape=None, cplx=False, scalar_kind=None, values=None):
        """A fresh dimensional operand created through a unit string; monitors (1) and (3) apply to it."""
        env, rng, res = self.env, self.rng, self.mon.res
        SI = env.SI
        if vec is None:
            vec = self.casedims[int(rng.integers(0, len(self.casedims)))]
        if shape is None:
            shape = self.shapes[int(rng.integers(0, len(self.shapes)))]
        x = rnd_values(rng, shape, cplx) if values is None else values
        if shape == ():
            sk = scalar_kind or rng.choice(['py', 'py', 'np', 'arr0'])
            x = (complex(x) if cplx else float(x)) if sk == 'py' else (numpy.asarray(x) if sk == 'arr0' else x)
        if not M.expressible(vec):
            # exponents with 16-digit denominators (from float powers like 1/3) cannot be spelled as unit strings
            res.count('leaves')
            res.count('leafmode/wrap')
            real = env.cls_for(vec).wrap(x)
            prob = env.check_dim(real, vec)
            if prob:
                self.mon.violation('dimension', f'wrap: {prob}')
                return None
            o = Opd(real, numpy.array(x, copy=True) if isinstance(x, numpy.ndarray) else x, vec)
            self.pool.append(o)
            return o
        s = M.unit_string(rng, vec)
        uval, uvec = M.parse(s)
        assert uvec == vec, (s, uvec, vec)
        modes = ['mul', 'rmul', 'mul', 'rmul']
        if isinstance(x, float):
            modes += ['text', 'text', 'typed']
        single = [t for t in (s,) if len(M.SI.resolve(t)) == 1]
        if single:
            modes += ['attr', 'attr']
        mode = modes[int(rng.integers(0, len(modes)))]
        text = None
        res.count('leaves')
        res.count('leafmode/' + mode)
        try:
            if mode == 'text' or mode == 'typed':
                xs = round(x, 3) or 1.
                text = M.fmt_num(xs) + s
                mval = M.parse(text)[0]
                named = [n for n, v in M.NAMED.items() if v == vec and hasattr(SI, n)]
                if mode == 'typed' and named:
                    real = getattr(SI, named[int(rng.integers(0, len(named)))])(text)
                else:
                    real = SI.parse(text)
            else:
                u = getattr(SI.units, s) if mode == 'attr' else SI.parse(s)
                real = x * u if mode in ('mul', 'attr') else u * x
                mval = x * uval
        except Exception as e:
            self.mon.violation('valid unit string rejected', f'{text or s!r} ({mode}): {type(e).__name__}: {e}')
            return None
        prob = env.check_dim(real, vec)
        if prob:
            self.mon.violation('dimension', f'leaf {text or s!r} ({mode}): {prob}')
            return None
        v, det = cmp_rel(env.payload(real), mval)
        if not self.mon.verdict(v, f'leaf {text or s!r} ({mode})', det):
            return None
        p = env.payload(real)
        plain = numpy.array(p, copy=True) if isinstance(p, numpy.ndarray) else p
        o = Opd(real, plain, vec)
        self.pool.append(o)
        return o

    def number(self, shape=()):
        x = rnd_values(self.rng, shape, kind='float')
        if shape == ():
            x = float(x) if self.rng.random() < .6 else x
        o = Opd(x, x, M.NIL)
        return o

    # ---------------- picking operands

    def pick(self, pred=None, dimensional=True, fn=None):
        c = [o for o in self.pool if (not dimensional or o.vec) and (pred is None or pred(o)) and (fn is None or o.isfn == fn) and o.evaluable]
        if c:
            return c[int(self.rng.integers(0, len(c)))]
        return None

    def any(self, pred=None, shape=None, ndim_min=0, cplx=False):
        def p(o):
            return (pred is None or pred(o)) and (shape is None or o.shape == shape) and o.ndim >= ndim_min and not isinstance(o.plain, (dict,))
        o = self.pick(p) if self.rng.random() < .8 else None
        if o is None:
            if self.fn is not None and self.rng.random() < .7:
                o = self.fn.leaf(self, shape=shape, ndim_min=ndim_min)
            else:
                shp = shape
                if shp is None:
                    cands = [s for s in self.shapes if len(s) >= ndim_min] or [(3,)]
                    shp = cands[int(self.rng.integers(0, len(cands)))]
                o = self.leaf(shape=shp, cplx=cplx)
        return o

    def partner(self, a, same):
        """Operand broadcast-compatible with a, of the same / of a different dimension."""
        rng = self.rng

        def compat(o):
            return o is not a and (o.shape == a.shape or o.shape == () or a.shape == ()) and not isinstance(o.plain, dict)
        if same:
            o = self.pick(lambda o: compat(o) and o.vec == a.vec) if rng.random() < .7 else None
            if o is None:
                if a.isfn and self.fn is not None and rng.random() < .6:
                    o = self.fn.leaf(self, vec=a.vec, shape=a.shape if rng.random() < .7 else None)
                    if o is not None and not compat(o):
                        o = None
                if o is None:
                    o = self.leaf(vec=a.vec, shape=a.shape if rng.random() < .7 else ())
            return o
        r = rng.random()
        if r < .3:
            return self.number(a.shape if rng.random() < .5 and not a.isfn else ())
        o = self.pick(lambda o: compat(o) and o.vec != a.vec, dimensional=False)
        if o is None:
            others = [v for v in self.casedims if v != a.vec]
            v = others[int(rng.integers(0, len(others)))] if others else M.vmul(a.vec, M.L_)
            o = self.leaf(vec=v, shape=a.shape if rng.random() < .7 else ())
        return o

    # ---------------- read-back in non-reference units (monitor 1 value clause, monitor 3 round trip)

    def readback(self, o, values=None, step=None):
        env, rng, res, mon = self.env, self.rng, self.mon.res, self.mon
        if not o.vec or not M.expressible(o.vec):
            return
        real = o.real if values is None else values[0]
        plain = o.plain if values is None else values[1]
        s = M.unit_string(rng, o.vec)
        uval = M.parse(s)[0]
        res.count('readbacks')
        try:
            with numpy.errstate(all='ignore'):
                obs = real / s
                exp = plain / uval
        except Exception as e:
            mon.violation('value', f'quantity of dimension {M.vstr(o.vec)} / {s!r}: {type(e).__name__}: {e}', step=step)
            return
        if env.isq(obs):
            mon.violation('dimension', f'q / {s!r} is still a Quantity {type(obs).__name__}', step=step)
            return
        v, det = cmp_rel(obs, exp)
        mon.verdict(v, f'q / {s!r}', det, step)
        if rng.random() < .4:
            try:
                with numpy.errstate(all='ignore'):
                    obs2 = real / env.SI.parse(s)
            except Exception as e:
                mon.violation('value', f'q / parse({s!r}): {type(e).__name__}: {e}', step=step)
                return
            if env.isq(obs2):
                mon.violation('dimension', f'q / parse({s!r}) is still a Quantity {type(obs2).__name__}', step=step)
                return
            v, det = cmp_rel(obs2, exp)
            mon.verdict(v, f'q / parse({s!r})', det, step)
            res.count('readbacks_dispatch')
        if isinstance(plain, (float, numpy.floating)) and numpy.isfinite(plain):
            x = float(exp)
            if 1 <= abs(x) < 1e12:
                self.format_roundtrip(real, s, x, step)

    def format_roundtrip(self, q, s, x, step=None, prec=6):
        """f'{q:.6<unit>}' ends in the unit, shows q/unit to 6 decimals, and parses back to q within 1e-6 relative."""
        env, res, mon = self.env, self.mon.res, self.mon
        res.count('format_roundtrips')
        try:
            text = format(q, f'.{prec}{s}')
            back = env.SI.parse(text)
        except Exception as e:
            mon.violation('format round trip', f'format(q, ".{prec}{s}") / parse: {type(e).__name__}: {e}', step=step)
            return
        if not text.endswith(s):
            mon.violation('format round trip', f'{text!r} does not end in {s!r}', step=step)
            return
        try:
            shown = float(text[:len(text) - len(s)])
        except ValueError:
            mon.violation('format round trip', f'{text!r}: number part unreadable', step=step)
            return
        tol = 0.5000001 * 10. ** -prec
        if abs(shown - x) > tol + 1e-9 * abs(x):
            mon.violation('format round trip', f'{text!r} shows {shown!r}, value in that unit is {x!r}', step=step)
            return
        if type(back) is not type(q):
            mon.violation('format round trip', f'parse({text!r}) has type {type(back).__name__}, q has {type(q).__name__}', step=step)
            return
        a, b = float(env.payload(back)), float(env.payload(q))
        if abs(a - b) > 1e-6 * abs(b):
            mon.violation('format round trip', f'parse({text!r}) = {a!r} vs q = {b!r} (rel {abs(a-b)/abs(b):.2e})', step=step)


# ------------------------------------------------------------------ call generators, one per key

def _axis(rng, nd, none=True):
    c = list(range(-nd, nd)) + ([None] if none else [])
    a = c[int(rng.integers(0, len(c)))]
    return a


def _index(rng, shape):
    kinds = ['int', 'slice', 'tuple', 'ellipsis', 'mask', 'fancy', 'neg']
    k = kinds[int(rng.integers(0, len(kinds)))]
    n = shape[0]
    if 0 in shape:
        return slice(None)
    if k == 'int':
        return int(rng.integers(0, n))
    if k == 'neg':
        return -int(rng.integers(1, n + 1))
    if k == 'slice':
        a = int(rng.integers(0, n))
        return slice(a, int(rng.integers(a, n + 1)))
    if k == 'tuple' and len(shape) > 1:
        return (int(rng.integers(0, n)), slice(None, int(rng.integers(1, shape[1] + 1))))
    if k == 'ellipsis':
        return (Ellipsis, int(rng.integers(0, shape[-1])))
    if k == 'mask':
        return rng.random(n) < .6
    if k == 'fancy':
        return rng.integers(0, n, size=2)
    return slice(None)


def g_unary(G, key, fn):
    rng = G.rng
    name = key.rsplit('.', 1)[1]
    if name in ('pos', 'neg', 'abs', 'positive', 'negative', 'absolute'):
        return Call(key, fn, [G.any()])
    if name in ('real', 'imag', 'conjugate'):
        a = G.pick(lambda o: is_complex(o)) if rng.random() < .5 else None
        if a is None:
            a = G.leaf(cplx=rng.random() < .85) if (G.fn is None or rng.random() < .6) else G.any()
        return Call(key, fn, [a])
    if name == 'getitem':
        a = G.any(ndim_min=1)
        return a and Call(key, fn, [a, _index(rng, a.shape)])
    if name == 'transpose':
        a = G.any(ndim_min=1)
        if a is None:
            return None
        if rng.random() < .5:
            return Call(key, fn, [a])
        return Call(key, fn, [a, tuple(int(i) for i in rng.permutation(a.ndim))])
    if name == 'trace':
        a = G.any(ndim_min=2)
        if a is None:
            return None
        return Call(key, fn, [a], dict(axis1=0, axis2=a.ndim - 1) if rng.random() < .5 else {})
    if name == 'take':
        a = G.any(ndim_min=1)
        if a is None:
            return None
        ax = _axis(rng, a.ndim, none=False)
        n = a.shape[ax]
        if n == 0:
            return None
        idx = int(rng.integers(0, n)) if rng.random() < .4 else [int(i) for i in rng.integers(0, n, size=2)]
        return Call(key, fn, [a, idx], dict(axis=ax))
    if name in ('sum', 'mean', 'min', 'max', 'amin', 'amax', 'ptp'):
        a = G.any(ndim_min=1 if rng.random() < .9 else 0)
        if a is None:
            return None
        kw = {}
        if a.ndim and rng.random() < .7:
            kw['axis'] = _axis(rng, a.ndim)
            if rng.random() < .2 and not a.isfn:
                kw['keepdims'] = True
        return Call(key, fn, [a], kw)
    if name == 'reshape':
        a = G.any(ndim_min=1)
        if a is None:
            return None
        n = int(numpy.prod(a.shape))
        opts = [(n,), (-1,), (1, n), (n, 1)] + ([(a.shape[1], a.shape[0])] if a.ndim == 2 else [])
        return Call(key, fn, [a, opts[int(rng.integers(0, len(opts)))]])
    if name == 'norm':
        a = G.any(ndim_min=1)
        if a is None:
            return None
        kw = dict(axis=_axis(rng, a.ndim, none=False)) if rng.random() < .6 or a.ndim > 2 else {}
        return Call(key, fn, [a], kw)
    if name == 'broadcast_to':
        a = G.any()
        return a and Call(key, fn, [a, (2,) + a.shape])
    raise KeyError(key)


def g_binary(G, key, fn, cat):
    rng = G.rng
    if cat in ('add-like', 'comparison'):
        a = G.any()
        if a is None:
            return None
        b = G.partner(a, same=rng.random() < .62)
        if b is None:
            return None
        args = [a, b] if rng.random() < .6 else [b, a]
        if key == 'numpy.hypot' and any(is_complex(o) for o in args):
            return None
        return Call(key, fn, args)
    # mul-like / div-like with operators and ufuncs
    a = G.any()
    if a is None:
        return None
    if key.endswith('matmul'):
        a = G.any(ndim_min=1)
        if a is None:
            return None
        n = a.shape[-1]
        b = G.pick(lambda o: o.ndim >= 1 and o.shape[0] == n and o.ndim <= 2, dimensional=rng.random() < .8)
        if b is None:
            b = G.leaf(shape=(n,) if rng.random() < .5 else (n, 3)) if rng.random() < .8 else G.number((n,))
        if rng.random() < .15 and not a.isfn and b is not None and not b.isfn and b.vec:
            a = Opd(numpy.array(a.plain, copy=True), numpy.array(a.plain, copy=True), M.NIL) if isinstance(a.plain, numpy.ndarray) else a
        return b and Call(key, fn, [a, b])
    r = rng.random()
    if r < .25:
        b = G.number(a.shape if rng.random() < .4 and not a.isfn else ())
    elif r < .35:
        b = a
    else:
        b = G.pick(lambda o: o.shape == a.shape or o.shape == () or a.shape == ())
        if b is None:
            b = G.leaf(shape=a.shape if rng.random() < .6 else ())
    if b is None:
        return None
    args = [a, b] if rng.random() < .6 else [b, a]
    return Call(key, fn, args)


EXPONENTS = [2, 3, -1, -2, 0, 1, .5, 1.5, -.5, 2., F(1, 3), F(2, 3), F(3, 2), numpy.int64(2), numpy.float64(.5), True,
             1 / 3, numpy.int32(3), numpy.float64(2.), numpy.array(2), 4, .25]
HOSTILE_EXPONENTS = [None, 'q', 'arr', numpy.float32(.5), numpy.array(.5), 'rev', float('nan'), 1j, '2']


def g_pow(G, key, fn):
    rng = G.rng
    a = G.any()
    if a is None:
        return None
    if rng.random() < .12:
        h = HOSTILE_EXPONENTS[int(rng.integers(0, len(HOSTILE_EXPONENTS)))]
        if isinstance(h, str) and h == 'q':
            return Call(key, fn, [a, G.any(shape=())], strict=False)
        if isinstance(h, str) and h == 'arr':
            return Call(key, fn, [a, numpy.array([1, 2, 3][:max(1, a.shape[-1] if a.ndim else 2)])], strict=False)
        if isinstance(h, str) and h == 'rev':
            return Call(key, fn, [2., a], strict=False)
        return Call(key, fn, [a, h], strict=False)
    p = EXPONENTS[int(rng.integers(0, len(EXPONENTS)))]
    if isinstance(p, F) and not isinstance(a.plain, float):
        p = float(p) if rng.random() < .5 else 2
    if key == 'numpy.power' and isinstance(p, (F, bool)):
        p = 2
    return Call(key, fn, [a, p])


def g_stack(G, key, fn):
    rng = G.rng
    a = G.any(ndim_min=1 if key.endswith('concatenate') else 0)
    if a is None:
        return None
    n = int(rng.integers(2, 4))
    items = [a]
    same = rng.random() < .6
    for i in range(n - 1):
        b = G.pick(lambda o: o.shape == a.shape and o.vec == a.vec) if rng.random() < .6 else None
        if b is None:
            b = (G.fn.leaf(G, vec=a.vec, shape=a.shape) if a.isfn and G.fn is not None and rng.random() < .5 else None) or G.leaf(vec=a.vec, shape=a.shape)
        if b is None:
            return None
        items.append(b)
    if not same:
        j = int(rng.integers(0, n))
        if rng.random() < .3:
            items[j] = G.number(a.shape)
        else:
            others = [v for v in G.casedims if v != a.vec] or [M.vmul(a.vec, M.T_)]
            b = G.leaf(vec=others[int(rng.integers(0, len(others)))], shape=a.shape)
            if b is None:
                return None
            items[j] = b
    kw = dict(axis=_axis(rng, a.ndim + (1 if key.endswith('stack') else 0), none=False)) if rng.random() < .5 and a.ndim else {}
    return Call(key, fn, [items], kw)


def g_setitem(G, key, fn):
    rng = G.rng
    a = G.pick(lambda o: isinstance(o.plain, numpy.ndarray) and o.ndim >= 1 and o.plain.flags.writeable and not o.isfn)
    if a is None:
        a = G.leaf(shape=(3,) if rng.random() < .5 else (2, 3))
    if a is None or not isinstance(a.plain, numpy.ndarray):
        return None
    idx = _index(rng, a.shape)
    same = rng.random() < .6
    if same:
        v = G.leaf(vec=a.vec, shape=())
    elif rng.random() < .3:
        v = G.number()
    else:
        others = [x for x in G.casedims if x != a.vec] or [M.vmul(a.vec, M.T_)]
        v = G.leaf(vec=others[int(rng.integers(0, len(others)))], shape=())
    return v and Call(key, fn, [a, idx, v])


def g_interp(G, key, fn):
    rng = G.rng
    mode = rng.choice(['ok', 'ok', 'mismatch', 'fp_plain', 'x_plain'])
    xv = G.casedims[int(rng.integers(0, len(G.casedims)))]
    m = int(rng.integers(2, 5))
    xp = G.leaf(vec=xv, shape=(m,), values=numpy.sort(rng.uniform(-5, 5, size=m)) + numpy.arange(m) * .01) if mode != 'x_plain' else \
        Opd(*(numpy.sort(rng.uniform(-5, 5, size=m)),) * 2, M.NIL)
    if xp is None:
        return None
    if mode == 'mismatch':
        others = [v for v in G.casedims if v != xv] or [M.vmul(xv, M.T_)]
        x = G.leaf(vec=others[int(rng.integers(0, len(others)))], shape=(2,)) if rng.random() < .7 else G.number((2,))
    elif mode == 'x_plain':
        x = G.number((2,))
    else:
        x = G.leaf(vec=xv, shape=(2,) if rng.random() < .7 else ())
    fp = G.number((m,)) if mode == 'fp_plain' else G.leaf(shape=(m,))
    if x is None or fp is None:
        return None
    return Call(key, fn, [x, xp, fp])


def np_call(G, key):
    """Build a random call for a numpy/operator dispatch key."""
    from vlib.c20_core import RULES
    fn = OPFN.get(key) or NPFN.get(key)
    cat = RULES[key][0]
    if key == 'operator.setitem':
        return g_setitem(G, key, fn)
    if key == 'numpy.interp':
        return g_interp(G, key, fn)
    if cat == 'same':
        return g_unary(G, key, fn)
    if cat in ('add-like', 'comparison', 'mul-like', 'div-like'):
        return g_binary(G, key, fn, cat)
    if cat == 'sqrt':
        return Call(key, fn, [G.any()])
    if cat == 'pow-like':
        return g_pow(G, key, fn)
    if cat == 'stripping':
        return Call(key, fn, [G.any()])
    if cat == 'stack-like':
        return g_stack(G, key, fn)
    raise KeyError(key)


# ------------------------------------------------------------------ protocol methods of Quantity that are not dispatch keys

def protocol_checks(G, o, step=None):
    """len / iter / bool / hash / pickle / str of a numpy-payload quantity."""
    import pickle
    env, mon, res = G.env, G.mon, G.mon.res
    if not env.isq(o.real) or o.isfn:
        return
    q, p = o.real, o.plain
    res.count('protocol_checks')
    try:
        if isinstance(p, numpy.ndarray) and p.ndim >= 1:
            if len(q) != len(p):
                mon.violation('protocol', f'len {len(q)} != {len(p)}', step=step)
            for qi, pi in zip(q, p):
                prob = env.check_dim(qi, o.vec)
                if prob:
                    mon.violation('dimension', f'iter: {prob}', step=step)
                    break
                if cmp_same(env.payload(qi), pi)[0] == VIOLATION:
                    mon.violation('value', 'iter yields other values', step=step)
                    break
        if numpy.size(p) == 1:
            if bool(q) != bool(p):
                mon.violation('protocol', 'bool differs', step=step)
        r = pickle.loads(pickle.dumps(q))
        if type(r) is not type(q):
            mon.violation('pickle', f'instance pickle round trip changes class: {type(r)!r} vs {type(q)!r}', step=step)
        elif cmp_same(env.payload(r), p)[0] == VIOLATION:
            mon.violation('pickle', 'instance pickle round trip changes value', step=step)
        if isinstance(p, float):
            hash(q)
    except Exception as e:
        mon.violation('protocol', f'{type(e).__name__}: {e}', step=step)
