"""C20 reference model of dimensional analysis.

Nothing in this file imports nutils.  Dimensions are exponent vectors of
``fractions.Fraction`` over base symbols, stored as a canonical tuple of
``(symbol, Fraction)`` pairs (zero exponents dropped, sorted by symbol) so they
are hashable.  The SI table below is typed from the SI brochure (9th ed.,
tables 2, 4, 7, 8) and from the comments in the module under test which say
*which* non-SI units exist; it is never read from ``SI.units``.
"""

import re
from fractions import Fraction as F

# ------------------------------------------------------------------ vectors

BASE = ('T', 'L', 'M', 'I', 'θ', 'N', 'J')   # time length mass current temperature amount luminous-intensity
NIL = ()


def vec(**kw):
    return vnorm(kw)


def vnorm(d):
    return tuple(sorted((k, F(v)) for k, v in dict(d).items() if v))


def vmul(a, b):
    d = dict(a)
    for k, v in b:
        d[k] = d.get(k, 0) + v
    return vnorm(d)


def vpow(a, p):
    p = F(p)   # a float IS a rational number: Fraction(0.5) == 1/2, Fraction(1/3) == 6004799503160661/2**54
    return vnorm({k: v * p for k, v in a})


def vdiv(a, b):
    return vmul(a, vpow(b, -1))


def expressible(a):
    """Can this vector be spelled as a unit string (powers n or n_d with small n, d)?"""
    return all(v.denominator <= 12 and abs(v) <= 6 for _, v in a)


def vstr(a):
    return '1' if not a else ' '.join(f'{k}^{v}' for k, v in a)


T_, L_, M_, I_, TH_, N_, J_ = (((s, F(1)),) for s in BASE)


def _v(T=0, L=0, M=0, I=0, TH=0, N=0, J=0):
    return vnorm(dict(zip(BASE, (T, L, M, I, TH, N, J))))


# ------------------------------------------------------------------ SI table (independent)

# prefixes of the SI brochure table 7, minus deca (two letters; the module documents single-letter prefixes only)
PREFIX = {'Y': 1e24, 'Z': 1e21, 'E': 1e18, 'P': 1e15, 'T': 1e12, 'G': 1e9, 'M': 1e6, 'k': 1e3, 'h': 1e2,
          'd': 1e-1, 'c': 1e-2, 'm': 1e-3, 'μ': 1e-6, 'n': 1e-9, 'p': 1e-12, 'f': 1e-15, 'a': 1e-18, 'z': 1e-21, 'y': 1e-24}

# name: (value in coherent SI units kg m s A K mol cd, exponent vector)
UNITS = {
    # base units (the gram is the prefix-free mass unit)
    'm': (1., _v(L=1)), 's': (1., _v(T=1)), 'g': (1e-3, _v(M=1)), 'A': (1., _v(I=1)), 'K': (1., _v(TH=1)),
    'mol': (1., _v(N=1)), 'cd': (1., _v(J=1)),
    # derived units with special names (table 4), in base units
    'N': (1., _v(M=1, L=1, T=-2)),                 # newton   kg m s-2
    'Pa': (1., _v(M=1, L=-1, T=-2)),               # pascal   kg m-1 s-2
    'J': (1., _v(M=1, L=2, T=-2)),                 # joule    kg m2 s-2
    'W': (1., _v(M=1, L=2, T=-3)),                 # watt     kg m2 s-3
    'Hz': (1., _v(T=-1)),                          # hertz    s-1
    'C': (1., _v(I=1, T=1)),                       # coulomb  A s
    'V': (1., _v(M=1, L=2, T=-3, I=-1)),           # volt     kg m2 s-3 A-1
    'F': (1., _v(M=-1, L=-2, T=4, I=2)),           # farad    kg-1 m-2 s4 A2
    'Ω': (1., _v(M=1, L=2, T=-3, I=-2)),      # ohm      kg m2 s-3 A-2
    'S': (1., _v(M=-1, L=-2, T=3, I=2)),           # siemens  kg-1 m-2 s3 A2
    'Wb': (1., _v(M=1, L=2, T=-2, I=-1)),          # weber    kg m2 s-2 A-1
    'T': (1., _v(M=1, T=-2, I=-1)),                # tesla    kg s-2 A-1
    'H': (1., _v(M=1, L=2, T=-2, I=-2)),           # henry    kg m2 s-2 A-2
    'lm': (1., _v(J=1)),                           # lumen    cd sr (steradian dimensionless)
    'lx': (1., _v(J=1, L=-2)),                     # lux      cd sr m-2
    'Bq': (1., _v(T=-1)),                          # becquerel s-1
    'Gy': (1., _v(L=2, T=-2)),                     # gray     m2 s-2
    'Sv': (1., _v(L=2, T=-2)),                     # sievert  m2 s-2
    'kat': (1., _v(N=1, T=-1)),                    # katal    mol s-1
    # non-SI units accepted for use with the SI (table 8)
    'min': (60., _v(T=1)), 'h': (3600., _v(T=1)), 'day': (86400., _v(T=1)),
    'au': (149597870700., _v(L=1)), 'ha': (1e4, _v(L=2)), 'L': (1e-3, _v(L=3)), 't': (1e3, _v(M=1)),
    # dalton: experimentally determined.  The module under test carries the CODATA-2014 figure 1.660539040(20)e-27 kg
    # with the uncertainty digits appended; CODATA-2018 (brochure 9th ed.) is 1.66053906660e-27 (1.6e-8 relative away,
    # i.e. inside the marginal band).  The model uses the 2014 figure; finalize reports the difference as a note.
    'Da': (1.660539040e-27, _v(M=1)),
    'eV': (1.602176634e-19, _v(M=1, L=2, T=-2)),   # exact since 2019
    'in': (0.0254, _v(L=1)),
}
DALTON_CODATA2018 = 1.66053906660e-27
NO_PREFIX = {'in'}     # "inch (no prefixes)"

COHERENT = {'T': 's', 'L': 'm', 'M': 'kg', 'I': 'A', 'θ': 'K', 'N': 'mol', 'J': 'cd'}
BASEUNIT = {'T': 's', 'L': 'm', 'M': 'g', 'I': 'A', 'θ': 'K', 'N': 'mol', 'J': 'cd'}

# named dimensions of the SI module (names from the module, exponents from physics)
NAMED = {
    'Time': _v(T=1), 'Length': _v(L=1), 'Mass': _v(M=1), 'ElectricCurrent': _v(I=1), 'Temperature': _v(TH=1),
    'AmountOfSubstance': _v(N=1), 'LuminousIntensity': _v(J=1), 'LuminousFlux': _v(J=1),
    'Area': _v(L=2), 'Volume': _v(L=3), 'WaveNumber': _v(L=-1), 'Vergence': _v(L=-1), 'Velocity': _v(L=1, T=-1), 'Speed': _v(L=1, T=-1),
    'Acceleration': _v(L=1, T=-2), 'Force': _v(M=1, L=1, T=-2), 'Weight': _v(M=1, L=1, T=-2), 'Pressure': _v(M=1, L=-1, T=-2),
    'Stress': _v(M=1, L=-1, T=-2), 'Tension': _v(M=1, T=-2), 'Energy': _v(M=1, L=2, T=-2), 'Work': _v(M=1, L=2, T=-2), 'Heat': _v(M=1, L=2, T=-2),
    'Power': _v(M=1, L=2, T=-3), 'Density': _v(M=1, L=-3), 'SpecificVolume': _v(M=-1, L=3), 'SurfaceDensity': _v(M=1, L=-2),
    'Viscosity': _v(M=1, L=-1, T=-1), 'Frequency': _v(T=-1), 'Radioactivity': _v(T=-1), 'CurrentDensity': _v(I=1, L=-2),
    'MagneticFieldStrength': _v(I=1, L=-1), 'Charge': _v(I=1, T=1), 'ElectricPotential': _v(M=1, L=2, T=-3, I=-1),
    'Capacitance': _v(M=-1, L=-2, T=4, I=2), 'Resistance': _v(M=1, L=2, T=-3, I=-2), 'Impedance': _v(M=1, L=2, T=-3, I=-2),
    'Reactance': _v(M=1, L=2, T=-3, I=-2), 'Conductance': _v(M=-1, L=-2, T=3, I=2), 'MagneticFlux': _v(M=1, L=2, T=-2, I=-1),
    'MagneticFluxDensity': _v(M=1, T=-2, I=-1), 'Inductance': _v(M=1, L=2, T=-2, I=-2), 'AbsorbedDose': _v(L=2, T=-2),
    'EquivalentDose': _v(L=2, T=-2), 'Concentration': _v(N=1, L=-3), 'CatalyticActivity': _v(N=1, T=-1),
}
# 'MassConcentration' is bound to Density**-1 in the module (physically it is M/L3) and 'Llluminance' is a misspelling;
# both are naming matters outside the property: reported in coverage as anomalies, never a verdict.
NAMED_SUSPECT = {'MassConcentration': _v(M=1, L=-3), 'Illuminance': _v(J=1, L=-2), 'Llluminance': _v(J=1, L=-2)}


class Table:
    """A unit table: names -> (value, vec), with the prefix expansion rule."""

    def __init__(self, units=UNITS, prefix=PREFIX, no_prefix=NO_PREFIX):
        self.units = dict(units)
        self.prefix = dict(prefix)
        self.no_prefix = set(no_prefix)

    def resolve(self, token):
        """All (prefix, unit) readings of a token.  A sound table has at most one."""
        out = []
        if token in self.units:
            out.append(('', token))
        if len(token) > 1 and token[0] in self.prefix and token[1:] in self.units and token[1:] not in self.no_prefix:
            out.append((token[0], token[1:]))
        return out

    def lookup(self, token):
        r = self.resolve(token)
        if not r:
            raise ModelInvalid(f'unknown unit {token!r}')
        if len(r) > 1:
            raise ModelAmbiguous(f'ambiguous unit {token!r}: {r}')
        p, u = r[0]
        value, v = self.units[u]
        return (self.prefix[p] if p else 1.) * value, v

    def all_names(self):
        names = {}
        for u, (value, v) in self.units.items():
            names.setdefault(u, []).append((value, v))
            if u not in self.no_prefix:
                for p, s in self.prefix.items():
                    names.setdefault(p + u, []).append((value * s, v))
        return names

    def tokens(self):
        t = getattr(self, '_tokens', None)
        if t is None:
            t = self._tokens = sorted(self.all_names())
        return t


class ModelInvalid(Exception):
    pass


class ModelAmbiguous(Exception):
    pass


class ModelOverflow(ModelInvalid):
    """grammatical, but some partial result leaves the comfortable float range"""


SI = Table()

# ------------------------------------------------------------------ SI string grammar (model reading)
#
#   quantity := [sign] [number] [factor] { ('*'|'/') factor }          (a leading operator is allowed: '/s')
#   factor   := [number] token [power]
#   number   := digits ['.' [digits]] | '.' digits
#   power    := digits | digits '_' digits | '_' digits                  (n, n/d, 1/d)
#   meaning  : ordinary left-to-right arithmetic, a/b*c == (a/b)*c

_NUM = r'(?:\d+\.?\d*|\.\d+)'
_LEAD = re.compile(r'^([+-]?' + _NUM + r')?(.*)$', re.S)
_FACTOR = re.compile(r'^(' + _NUM + r')?([^\d_*/.+\-\s][^*/\s]*?)(\d+)?(?:_(\d+))?$')


def split_factors(tail):
    """[(op, text)] with op in '*', '/'; a leading operator is optional."""
    out = []
    op = '*'
    cur = ''
    first = True
    for ch in tail:
        if ch in '*/':
            if cur or not first:
                if not cur:
                    raise ModelInvalid('empty factor')
                out.append((op, cur))
            op, cur, first = ch, '', False
        else:
            cur += ch
    if cur:
        out.append((op, cur))
    elif not first:
        raise ModelInvalid('trailing operator')
    return out


def parse(s, table=SI):
    """Model value of a unit string: (value in coherent units, vec)."""
    m = _LEAD.match(s)
    lead, tail = m.group(1), m.group(2)
    value = float(lead) if lead else 1.
    v = NIL
    for op, text in split_factors(tail):
        fm = _FACTOR.match(text)
        if not fm:
            raise ModelInvalid(f'bad factor {text!r}')
        num, token, pn, pd = fm.groups()
        if pd is not None and int(pd) == 0:
            raise ModelInvalid('zero denominator')
        power = F(int(pn) if pn else 1, int(pd) if pd else 1)
        uval, uvec = table.lookup(token)
        try:
            fval = (float(num) if num else 1.) * uval ** (int(power) if power.denominator == 1 else float(power))
        except OverflowError:
            raise ModelOverflow('overflow')
        if not 1e-280 < abs(fval) < 1e280 or (value != 0 and not 1e-280 < abs(value) < 1e280):
            raise ModelOverflow('overflow')
        if op == '*':
            value = value * fval
            v = vmul(v, vpow(uvec, power))
        else:
            value = value / fval
            v = vdiv(v, vpow(uvec, power))
        if value != 0 and not 1e-280 < abs(value) < 1e280:
            raise ModelOverflow('overflow')
    return value, v


# ------------------------------------------------------------------ dimension names (independent reading of '[M*L/T2]')

_NAMEFACTOR = re.compile(r'^(.+?)(\d*)(?:_(\d+))?$')


def parse_dimname(name):
    if not (name.startswith('[') and name.endswith(']')):
        raise ModelInvalid(f'not a dimension name: {name!r}')
    body = name[1:-1]
    d = {}
    sign = 1
    cur = ''
    items = []
    for ch in body:
        if ch in '*/':
            if cur:
                items.append((sign, cur))
            sign, cur = (1 if ch == '*' else -1), ''
        else:
            cur += ch
    if cur:
        items.append((sign, cur))
    for sign, text in items:
        m = _NAMEFACTOR.match(text)
        base, n, dd = m.groups()
        p = F(int(n) if n else 1, int(dd) if dd else 1) * sign
        if base in d:
            raise ModelInvalid(f'base {base!r} occurs twice in {name!r}')
        d[base] = p
    return vnorm(d)


# ------------------------------------------------------------------ string generators

def fmt_num(x):
    """Decimal literal without exponent that float() reads back exactly as x (x must be a short decimal)."""
    s = repr(float(x))
    if 'e' in s or 'E' in s or 'n' in s:
        raise ValueError(s)
    return s


def rnd_number(rng, signed=False):
    kind = rng.integers(0, 6)
    if kind == 0:
        s = str(int(rng.integers(1, 1000)))
    elif kind == 1:
        s = '.' + str(int(rng.integers(1, 1000))).rstrip('0')
    elif kind == 2:
        s = str(int(rng.integers(0, 100))) + '.' + str(int(rng.integers(1, 10000)))
    elif kind == 3:
        s = str(int(rng.integers(1, 60)))
    elif kind == 4:
        s = '0.' + '0' * int(rng.integers(0, 3)) + str(int(rng.integers(1, 100)))
    else:
        s = str(int(rng.integers(1, 10))) + '.' + str(int(rng.integers(0, 10)))
    if signed and rng.random() < .3:
        s = ('-' if rng.random() < .8 else '+') + s
    return s


def power_str(rng, p):
    assert p > 0
    if p.denominator == 1:
        if p == 1:
            return '' if rng.random() < .9 else '1'
        return str(p.numerator)
    if p.numerator == 1 and rng.random() < .5:
        return '_' + str(p.denominator)
    return f'{p.numerator}_{p.denominator}'


def rnd_power(rng, frac=.2):
    r = rng.random()
    if r < frac:
        return F(int(rng.integers(1, 4)), int(rng.choice([2, 3, 4])))
    return F(int(rng.choice([1, 1, 1, 2, 2, 3, 4])))


def rnd_token(rng, table=SI, names=None):
    names = names or table.tokens()
    return names[int(rng.integers(0, len(names)))]


def unit_string(rng, target, table=SI, nfree=None, scales=False, names=None, baseunit=BASEUNIT, prefixes=None):
    """A random unit string (no leading number, not starting with a digit) whose model dimension is `target` and whose
    model value (and every partial product) stays well inside the float range."""
    for attempt in range(12):
        s = _unit_string(rng, target, table, nfree if attempt < 8 else 0, scales, names, baseunit, prefixes if attempt < 10 else ())
        try:
            v, vv = parse(s, table)
        except ModelInvalid:
            continue
        if 1e-250 < abs(v) < 1e250:
            return s
    raise ModelInvalid(f'no representable unit string for {vstr(target)}')


def _unit_string(rng, target, table, nfree, scales, names, baseunit, prefixes):
    if nfree is None:
        nfree = int(rng.choice([0, 0, 1, 1, 2, 3]))
    factors = []
    resid = target
    for _ in range(nfree):
        tok = rnd_token(rng, table, names)
        p = rnd_power(rng)
        op = '*' if rng.random() < .6 else '/'
        _, tv = table.lookup(tok)
        resid = vdiv(resid, vpow(tv, p)) if op == '*' else vmul(resid, vpow(tv, p))
        factors.append((op, tok, p))
    plist = list(prefixes if prefixes is not None else table.prefix)
    for sym, e in resid:
        if sym not in baseunit:
            raise ModelInvalid(f'no base unit for {sym!r}')
        u = baseunit[sym]
        if sym == 'M' and baseunit is BASEUNIT:
            tok = (plist[int(rng.integers(0, len(plist)))] if plist and rng.random() < .5 else 'k') + u if rng.random() < .9 or not plist else 'k' + u
        else:
            tok = (plist[int(rng.integers(0, len(plist)))] + u) if plist and rng.random() < .4 else u
        factors.append(('*' if e > 0 else '/', tok, abs(e)))
    order = rng.permutation(len(factors))
    s = ''
    for n, i in enumerate(order):
        op, tok, p = factors[i]
        sc = rnd_number(rng) if (scales and n > 0 and rng.random() < .2) else ''
        piece = sc + tok + power_str(rng, p)
        if n == 0 and op == '*':
            s += piece if not sc else tok + power_str(rng, p)
        else:
            s += op + piece
    return s


def rnd_vec(rng, small=True):
    """Random exponent vector: a named one, a random sparse integer one, or a fractional one."""
    r = rng.random()
    if r < .5:
        names = sorted(NAMED)
        return NAMED[names[int(rng.integers(0, len(names)))]]
    n = int(rng.integers(1, 4))
    syms = rng.choice(len(BASE), size=n, replace=False)
    d = {}
    for i in syms:
        if r < .85:
            d[BASE[int(i)]] = F(int(rng.choice([-3, -2, -1, 1, 2, 3])))
        else:
            d[BASE[int(i)]] = F(int(rng.choice([-3, -1, 1, 2, 3, 5])), int(rng.choice([1, 2, 3, 4])))
    return vnorm(d)


# ------------------------------------------------------------------ nutils.unit (unit.py) model
#
# grammar of the module docstring (BNF): <number> [<operator>] <unit> {<operator> <unit>}, unit = prefix name power,
# integer powers, left-to-right arithmetic; ambiguity rule: "the first character is considered part of the unit if this
# unit exists; otherwise it is considered a prefix".

_UWORD = re.compile(r'^([A-Za-zα-ωΑ-Ω]+)(\d+)?$')
_ULEAD = re.compile(r'^(\d+(?:\.\d+)?|\.\d+)?(.*)$', re.S)


class UnitSystem:
    def __init__(self, defs, prefix=PREFIX):
        """defs: {name: number | str}.  Resolves every definition (raises ModelInvalid on unknown names / cycles)."""
        self.defs = dict(defs)
        self.prefix = prefix
        self.values = {}
        self._busy = set()
        for name in self.defs:
            self._resolve(name)

    def _resolve(self, name):
        if name in self.values:
            return self.values[name]
        if name in self._busy:
            raise ModelInvalid('cyclic definition')
        self._busy.add(name)
        d = self.defs[name]
        if isinstance(d, str):
            r = self.parse(d, _defining=True)
        else:
            r = (float(d), vnorm({name: 1}))
        self._busy.discard(name)
        if not self.LO < abs(r[0]) < self.HI:
            raise ModelInvalid('unit value outside the comfortable float range')
        self.values[name] = r
        return r

    # every partial result must stay inside this window, so that any order of multiplication is free of overflow and
    # of subnormal precision loss (the module under test multiplies prefix and unit powers in another order)
    LO, HI = 1e-90, 1e90

    def word(self, w, _defining=False):
        """(prefix scale, unit value, vec) of a word."""
        if w in self.defs:
            val, v = self._resolve(w) if _defining else self.values[w]
            return 1., val, v
        if len(w) > 1 and w[0] in self.prefix and w[1:] in self.defs:
            val, v = self._resolve(w[1:]) if _defining else self.values[w[1:]]
            return self.prefix[w[0]], val, v
        raise ModelInvalid(f'unknown unit {w!r}')

    def parse(self, s, _defining=False):
        m = _ULEAD.match(s)
        lead, tail = m.group(1), m.group(2)
        value = float(lead) if lead else 1.
        v = NIL
        for op, text in split_factors(tail):
            fm = _UWORD.match(text)
            if not fm:
                raise ModelInvalid(f'bad factor {text!r}')
            w, pn = fm.groups()
            n = int(pn) if pn else 1
            pscale, uval, uvec = self.word(w, _defining)
            pf, uf = pscale ** n, uval ** n
            f = pf * uf
            if not all(self.LO < abs(x) < self.HI for x in (pf, uf, f)):
                raise ModelInvalid('overflow')
            if op == '*':
                value *= f
                v = vmul(v, vpow(uvec, n))
            else:
                value /= f
                v = vdiv(v, vpow(uvec, n))
            if value != 0 and not self.LO < abs(value) < self.HI:
                raise ModelInvalid('overflow')
        return value, v


# ------------------------------------------------------------------ self test (harness error if the model is inconsistent)

def selftest():
    names = SI.all_names()
    assert len(names) == 701, len(names)
    for n, readings in names.items():
        assert len(readings) == 1, ('ambiguous model name', n)
        assert len(SI.resolve(n)) == 1, ('ambiguous model token', n, SI.resolve(n))
    assert parse('7μN*5h/6g') == (7e-6 * (5 * 3600.) / (6 * 1e-3), _v(L=1, T=-1))
    assert parse('-864km/24h')[0] == -864e3 / (24 * 3600.)
    assert parse('2m/5cm') == (2 / (5 * .01), NIL)
    assert parse('/s') == (1., _v(T=-1))
    assert parse('m/s*kg')[1] == _v(L=1, T=-1, M=1)
    assert parse('m1_2')[1] == vnorm({'L': F(1, 2)})
    assert parse('m_2*m3_2')[1] == _v(L=2)
    assert parse('min') == (60., _v(T=1))
    for bad in ('dam', 'kkm', 'kin', 'foo', 'm s', 'm^2', 'm_0', 'm**2', 'm/', '1e3m'):
        try:
            parse(bad)
        except ModelInvalid:
            continue
        raise AssertionError(('model accepts', bad))
    assert parse_dimname('[M*L/T2]') == _v(M=1, L=1, T=-2)
    assert parse_dimname('[M_2*L_2/T]') == vnorm({'M': F(1, 2), 'L': F(1, 2), 'T': -1})
    assert parse_dimname('[M3_2*L3_2/T3]') == vnorm({'M': F(3, 2), 'L': F(3, 2), 'T': -3})
    assert parse_dimname('[/L]') == _v(L=-1) and parse_dimname('[]') == NIL
    U = UnitSystem(dict(m=1, s=1, g=1e-3, Pa='N/m2', N='kg*m/s2', lb='453.59237g', h='3600s', **{'in': '.0254m'}))
    assert U.parse('1km/h')[0] == 1000 / 3600. and U.parse('1Pa')[1] == vnorm(dict(g=1, m=-1, s=-2))
    assert abs(U.parse('10in')[0] - .254) < 1e-15
    U2 = UnitSystem(dict(m=1, s=1, min='60s', **{'in': '.0254m'}))
    assert U2.parse('min') == (60., vnorm(dict(s=1)))      # the unit, not milli-inch
    U3 = UnitSystem(dict(m=1, **{'in': '.0254m'}))
    assert U3.parse('min')[1] == vnorm(dict(m=1))          # milli-inch
    return True
