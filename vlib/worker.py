import sys
from vlib import runner
if __name__ == '__main__':
    runner.worker_main(sys.argv[1:])
