"""C07 helper: evaluation environments (0..3 leading point axes) and topology-dependent leaves.

An environment is a sample (or no sample at all) together with a catalogue of
*leaves*: function arrays that live on the sample's topology.  The per-point
numpy value of a leaf is obtained from a SEPARATE evaluation of that leaf alone
on the same sample (G-fn homomorphism oracle, DESIGN 1.3); nothing about a leaf
is computed by the harness itself.
"""

import traceback
import numpy

ENV_NAMES = ['const', 'plain', 'mixed', 'boundary', 'prod2', 'prod3']
POINT_AXES = {'const': 0, 'plain': 1, 'mixed': 1, 'boundary': 1, 'prod2': 2, 'prod3': 3}

_cache = {}


class Env:
    """name, npoint_axes, npoints, leaves: name -> (function array, values (P, *shape), meta);
    failures: leaves that could not be built or evaluated alone (reported by the check as violations)"""

    def __init__(self, name):
        from nutils import mesh, function
        self.name = name
        self.npoint_axes = POINT_AXES[name]
        self.leaves = {}
        self.failures = []
        self.sample = None
        L = {}
        if name == 'const':
            self.npoints = 1
            return
        if name in ('plain', 'boundary', 'prod2', 'prod3'):
            X, gx = mesh.rectilinear([numpy.linspace(0, 1, 3), numpy.linspace(.5, 2, 2)], space='X')
            if name == 'boundary':
                self.sample = X.boundary.sample('gauss', 2)
            else:
                self.sample = X.sample('gauss', 2)
            self._space_leaves(L, 'X', X, gx, nelems=2)
            if name == 'boundary':
                L['X.normal'] = (lambda: function.normal(gx), dict(kind='f'))
        if name == 'mixed':
            X, gx = mesh.unitsquare(2, 'mixed')
            self.sample = X.sample('gauss', 2)
            self._space_leaves(L, 'X', X, gx, nelems=len(X), basisdegree=1)
        if name in ('prod2', 'prod3'):
            Y, gy = mesh.rectilinear([numpy.linspace(1, 2, 3)], space='Y')
            sy = Y.sample('gauss', 2)
            self.sample = self.sample * sy
            self._space_leaves(L, 'Y', Y, gy, nelems=2, basisdegree=2)
        if name == 'prod3':
            Z, gz = mesh.rectilinear([numpy.linspace(-1, -.2, 3)], space='Z')
            sz = Z.sample('uniform', 1)
            self.sample = self.sample * sz
            self._space_leaves(L, 'Z', Z, gz, nelems=2, basisdegree=1)
        if name == 'plain':
            # leaves that contain another sample's points: sample.bind / sample.integral of a function on another space
            Y, gy = mesh.rectilinear([numpy.linspace(1, 2, 3)], space='Y')
            sy = Y.sample('gauss', 1)
            L['Y.bound_geom'] = (lambda: sy.bind(gy[0]), dict(kind='f'))
            L['Y.integral'] = (lambda: sy.integral(gy[0] * function.J(gy)), dict(kind='f'))
        self.npoints = self.sample.npoints
        # separate evaluation of every leaf alone
        for lname, (build, meta) in L.items():
            try:
                f = build()
                v = numpy.asarray(self.sample.eval(f))
                if v.shape != (self.npoints,) + tuple(f.shape):
                    raise ValueError(f'evaluated shape {v.shape} is not (npoints,)+shape = {(self.npoints,) + tuple(f.shape)}')
                if v.dtype.kind in 'fc' and not numpy.isfinite(v).all():
                    raise ValueError('non-finite values')
                if tolerance_kind(v) != meta['kind']:
                    raise ValueError(f'evaluated dtype {v.dtype} but the leaf is of kind {meta["kind"]}')
            except Exception as e:
                # a leaf that cannot be evaluated alone is itself an observation (reported by the check), not a harness failure
                self.failures.append((lname, f'{type(e).__name__}: {str(e)[:200]} | ' + traceback.format_exc(limit=-2)[-500:]))
                continue
            self.leaves[lname] = (f, v, meta)

    @staticmethod
    def _space_leaves(L, s, topo, geom, nelems, basisdegree=1):
        thr = {'X': .45, 'Y': 1.45, 'Z': -.55}[s]
        L[s + '.geom'] = (lambda: geom, dict(kind='f'))
        L[s + '.basis'] = (lambda: topo.basis('std', degree=basisdegree), dict(kind='f'))
        L[s + '.findex'] = (lambda: topo.f_index, dict(kind='i', bounds=(0, nelems - 1), pointindep=True))
        L[s + '.coords'] = (lambda: topo.f_coords, dict(kind='f'))
        L[s + '.geom0'] = (lambda: geom[0], dict(kind='f'))
        # derived leaves of the remaining element kinds (their values, too, come from evaluating the leaf alone)
        L[s + '.bool'] = (lambda: numpy.greater(geom[0], thr), dict(kind='b'))
        L[s + '.cplx'] = (lambda: geom[0] + 1j * topo.f_coords[0], dict(kind='c'))
        L[s + '.ivec'] = (lambda: numpy.stack([topo.f_index, 1 - topo.f_index, topo.f_index * 2]), dict(kind='i', pointindep=True))

    def eval(self, funcs, arguments):
        from nutils import function
        if self.sample is None:
            return [numpy.asarray(v)[numpy.newaxis] for v in function.eval(list(funcs), arguments)]
        return [numpy.asarray(v) for v in self.sample.eval(list(funcs), arguments=arguments)]


def tolerance_kind(v):
    return {'b': 'b', 'i': 'i', 'u': 'i', 'f': 'f', 'c': 'c'}.get(v.dtype.kind, '?')


def get(name):
    if name not in _cache:
        _cache[name] = Env(name)
    return _cache[name]
