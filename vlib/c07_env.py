"""C07 helper: evaluation environments (0..3 leading point axes) and topology-dependent leaves.

An environment is a sample (or no sample at all) together with a catalogue of
*leaves*: function arrays that live on the sample's topology.  The per-point
numpy value of a leaf is obtained from a SEPARATE evaluation of that leaf alone
on the same sample (G-fn homomorphism oracle, DESIGN 1.3); nothing about a leaf
is computed by the harness itself.
"""

import numpy

ENV_NAMES = ['const', 'plain', 'mixed', 'boundary', 'prod2', 'prod3']
POINT_AXES = {'const': 0, 'plain': 1, 'mixed': 1, 'boundary': 1, 'prod2': 2, 'prod3': 3}

_cache = {}


class Env:
    """name, npoint_axes, npoints, leaves: name -> (function array, values (P, *shape), meta)"""

    def __init__(self, name):
        from nutils import mesh, function
        self.name = name
        self.npoint_axes = POINT_AXES[name]
        self.leaves = {}
        self.sample = None
        L = {}
        if name == 'const':
            self.npoints = 1
            return
        if name in ('plain', 'boundary', 'prod2', 'prod3'):
            X, gx = mesh.rectilinear([numpy.linspace(0, 1, 3), numpy.linspace(.5, 2, 2)], space='X')
            if name == 'boundary':
                bnd = X.boundary
                self.sample = bnd.sample('gauss', 2)
            else:
                self.sample = X.sample('gauss', 2)
            self._space_leaves(L, 'X', X, gx, nelems=2)
            if name == 'boundary':
                L['X.normal'] = (function.normal(gx), dict(kind='f'))
        if name == 'mixed':
            X, gx = mesh.unitsquare(2, 'mixed')
            self.sample = X.sample('gauss', 2)
            self._space_leaves(L, 'X', X, gx, nelems=len(X), basisdegree=1)
        if name in ('prod2', 'prod3'):
            Y, gy = mesh.rectilinear([numpy.linspace(1, 2, 3)], space='Y')
            sy = Y.sample('gauss', 2)
            self.sample = self.sample * sy
            self._space_leaves(L, 'Y', Y, gy, nelems=2, basisdegree=2)
        if name == 'prod3':
            Z, gz = mesh.rectilinear([numpy.linspace(-1, -.2, 3)], space='Z')
            sz = Z.sample('uniform', 1)
            self.sample = self.sample * sz
            self._space_leaves(L, 'Z', Z, gz, nelems=2, basisdegree=1)
        if name == 'plain':
            # leaves that contain another sample's points: sample.bind / sample.integral of a function on another space
            Y, gy = mesh.rectilinear([numpy.linspace(1, 2, 3)], space='Y')
            sy = Y.sample('gauss', 1)
            L['Y.bound_geom'] = (sy.bind(gy[0]), dict(kind='f'))
            L['Y.integral'] = (sy.integral(gy[0] * function.J(gy)), dict(kind='f'))
        self.npoints = self.sample.npoints
        # separate evaluation of every leaf alone
        for lname, (f, meta) in L.items():
            v = numpy.asarray(self.sample.eval(f))
            assert v.shape == (self.npoints,) + tuple(f.shape), (lname, v.shape, f.shape)
            assert numpy.isfinite(v).all() if v.dtype.kind in 'fc' else True
            self.leaves[lname] = (f, v, meta)

    @staticmethod
    def _space_leaves(L, s, topo, geom, nelems, basisdegree=1):
        L[s + '.geom'] = (geom, dict(kind='f'))
        basis = topo.basis('std', degree=basisdegree)
        L[s + '.basis'] = (basis, dict(kind='f'))
        L[s + '.findex'] = (topo.f_index, dict(kind='i', bounds=(0, nelems - 1), pointindep=True))
        L[s + '.coords'] = (topo.f_coords, dict(kind='f'))
        L[s + '.geom0'] = (geom[0], dict(kind='f'))
        # derived leaves of the remaining element kinds (their values, too, come from evaluating the leaf alone)
        thr = {'X': .45, 'Y': 1.45, 'Z': -.55}[s]
        L[s + '.bool'] = (numpy.greater(geom[0], thr), dict(kind='b'))
        L[s + '.cplx'] = (geom[0] + 1j * topo.f_coords[0], dict(kind='c'))
        L[s + '.ivec'] = (numpy.stack([topo.f_index, 1 - topo.f_index, topo.f_index * 2]), dict(kind='i', pointindep=True))

    def eval(self, funcs, arguments):
        from nutils import function
        if self.sample is None:
            return [numpy.asarray(v)[numpy.newaxis] for v in function.eval(list(funcs), arguments)]
        return [numpy.asarray(v) for v in self.sample.eval(list(funcs), arguments=arguments)]


def get(name):
    if name not in _cache:
        _cache[name] = Env(name)
    return _cache[name]
