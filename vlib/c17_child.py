"""C17 — subprocess side of the cross-process monitor.

usage: python -m vlib.c17_child infile outfile
infile : {"recipes": [...], "pickles": [base64|null...], "order": "reversed"|"forward"}
outfile: {"built": [token...], "unpickled": [token|null...], "built_canon": [hex|null...], "unpickled_canon": [hex|null...], ...}
A token is the hex nutils_hash, or 'R:<exception type>' (refused), 'M:<type>' (result is
not 20 bytes), 'U:<exception type>' (recipe could not be built).
"""

import sys, os, json, base64, pickle, warnings


def token(v):
    from nutils import types
    try:
        h = types.nutils_hash(v)
    except Exception as e:
        return 'R:' + type(e).__name__
    if not isinstance(h, bytes) or len(h) != 20:
        return 'M:' + type(h).__name__
    return h.hex()


def canon_hex(v):
    from vlib import c17_canon as K
    try:
        return K.canon(v).hex()
    except Exception:
        return None


def built_token(r):
    from vlib import c17_corpus as G
    try:
        v = G.build(r)
    except Exception as e:
        return 'U:' + type(e).__name__, None
    return token(v), canon_hex(v)


def main(argv):
    from vlib.runner import setup_paths
    setup_paths()
    warnings.simplefilter('ignore')
    infile, outfile = argv
    with open(infile) as f:
        job = json.load(f)
    recipes = job['recipes']
    idx = list(range(len(recipes)))
    if job.get('order') == 'reversed':
        idx.reverse()
    built = [None] * len(recipes)
    built_canon = [None] * len(recipes)
    for i in idx:
        built[i], built_canon[i] = built_token(recipes[i])
    unp, unp_canon = [], []
    for p in job.get('pickles', []):
        if p is None:
            unp.append(None)
            unp_canon.append(None)
            continue
        try:
            v = pickle.loads(base64.b64decode(p))
        except Exception as e:
            unp.append('U:' + type(e).__name__)
            unp_canon.append(None)
            continue
        unp.append(token(v))
        unp_canon.append(canon_hex(v))
    tmp = outfile + '.tmp'
    with open(tmp, 'w') as f:
        json.dump(dict(built=built, unpickled=unp, built_canon=built_canon, unpickled_canon=unp_canon, hashseed=os.environ.get('PYTHONHASHSEED'), pid=os.getpid(),
                       str_hash=hash('c17 probe string')), f)
    os.replace(tmp, outfile)


if __name__ == '__main__':
    main(sys.argv[1:])
