"""Offline checkers over the C16 event log (see c16_trace for the record formats).

analyse(events, info, parent, returned_normally) -> dict with
  problems: list of (monitor, detail)   -- refuting events
  stats:    counters of what was observed
  signature: canonical per-array pid sequences (the interleaving that was observed)
  concurrent: bool -- at least two processes wrote/claimed in an interleaved fashion
"""

import collections


def analyse(events, info, parent, returned_normally):
    problems = []
    st = collections.Counter()
    arrays = {}      # aid -> dict(shared, site, alloc_pid)
    ranges = {}      # rid -> dict(stop, expected)
    claims = collections.defaultdict(list)    # rid -> [(pid, i)]
    claimed_by = collections.defaultdict(set)  # pid -> {i}
    writes = collections.defaultdict(list)    # aid -> [(pid, op, held(frozenset), inloop, key)]
    vacc = collections.defaultdict(list)      # vid -> [(pid, kind, held)]
    lock_site = {}
    forks = []
    held_recon = collections.defaultdict(list)  # pid -> locks held, reconstructed from a/r events
    faults = []
    barrier = []
    in_loop = {}       # pid -> currently between a claim and StopIteration
    order_edges = {}   # (held lock, acquired lock) -> pid, parallel phase only
    for e in events:
        k = e[0]
        try:
            if k == 'w':
                aid, pid, op, held, inloop = int(e[1]), int(e[2]), e[3], e[4], e[5] == '1'
                key = int(e[6]) if len(e) > 6 else None
                hs = frozenset() if held == '-' else frozenset(map(int, held.split(',')))
                if hs != frozenset(held_recon[pid]):
                    st['lockset_log_mismatch'] += 1
                writes[aid].append((pid, op, hs, inloop, key))
                st['write'] += 1
                st['write/' + op] += 1
            elif k == 'a':
                lid, pid = int(e[1]), int(e[2])
                if held_recon[pid]:
                    st['nested_acquire'] += 1
                    if pid != parent or in_loop.get(pid):
                        for h in held_recon[pid]:
                            order_edges.setdefault((h, lid), pid)
                held_recon[pid].append(lid)
                st['acquire'] += 1
                st['acquire/' + lock_site.get(int(e[1]), '?')] += 1
            elif k == 'r':
                lid, pid = int(e[1]), int(e[2])
                if lid in held_recon[pid]:
                    held_recon[pid].remove(lid)
                else:
                    st['release_without_acquire'] += 1
                st['release'] += 1
            elif k == 'c':
                rid, pid, i = e[1], int(e[2]), int(e[3])
                claims[rid].append((pid, i))
                in_loop[pid] = True
                claimed_by[pid].add(i)
                st['claim'] += 1
            elif k == 's':
                st['stop'] += 1
                in_loop[int(e[2])] = False
            elif k == 'A':
                arrays[int(e[1])] = dict(alloc_pid=int(e[2]), shared=e[3] == '1', site=e[4], nbytes=int(e[5]))
                st['alloc'] += 1
                st['alloc_shared' if e[3] == '1' else 'alloc_private'] += 1
            elif k == 'L':
                lock_site[int(e[1])] = e[3]
                st['lock_created/' + e[3]] += 1
            elif k == 'R':
                ranges[e[1]] = dict(pid=int(e[2]), stop=int(e[3]), expected=int(e[4]))
                st['range'] += 1
            elif k in ('vr', 'vw'):
                held = e[3]
                vacc[int(e[1])].append((int(e[2]), k, frozenset() if held == '-' else frozenset(map(int, held.split(',')))))
                st['counter_' + ('read' if k == 'vr' else 'write')] += 1
            elif k == 'f':
                forks.append(int(e[2]))
                st['fork'] += 1
            elif k == 'F':
                faults.append(e[1:])
                st['fault_injected'] += 1
            elif k == 'b':
                barrier.append((e[1], int(e[2]), int(e[3]), int(e[4]), int(e[5])))
            elif k == 'V':
                pass
        except (ValueError, IndexError):
            st['malformed_event'] += 1

    canon = {parent: 'P'}
    for n, pid in enumerate(forks):
        canon.setdefault(pid, chr(ord('a') + n) if n < 26 else f'<{n}>')

    def cn(pid):
        return canon.get(pid, '?')

    # ---- (2) exactly-once
    for rid, r in ranges.items():
        cl = claims.get(rid, [])
        cnt = collections.Counter(i for _, i in cl)
        dup = sorted(i for i, c in cnt.items() if c > 1)
        if dup:
            who = [(cn(p), i) for p, i in cl if i in dup[:3]]
            problems.append(('exactly-once', f'range {rid} (stop={r["stop"]}): iteration(s) {dup[:5]} claimed more than once: {who[:8]}'))
        bad = sorted(i for i in cnt if not 0 <= i < r['stop'])
        if bad:
            problems.append(('exactly-once', f'range {rid} (stop={r["stop"]}): claim outside range: {bad[:5]}'))
        if returned_normally:
            missing = [i for i in range(r['stop']) if i not in cnt]
            if missing:
                problems.append(('exactly-once', f'range {rid} (stop={r["stop"]}): iteration(s) {missing[:8]} never claimed although the call returned'))
        st['ranges_checked'] += 1
        st['iterations_checked'] += r['stop']

    # ---- shared claim counter: every access under a common lock
    for vid, acc in vacc.items():
        common = None
        for pid, kind, hs in acc:
            if not hs:
                problems.append(('counter-lockset', f'claim counter {vid}: {"read" if kind == "vr" else "write"} by {cn(pid)} while holding no lock'))
                break
            common = hs if common is None else common & hs
            if not common:
                problems.append(('counter-lockset', f'claim counter {vid}: no common lock protects all accesses'))
                break

    # ---- (3) lockset / ownership on traced shared arrays
    sig = []
    pids_writing = set()
    for aid in sorted(writes):
        ws = writes[aid]
        a = arrays.get(aid)
        if a is None:
            st['write_to_unknown_array'] += 1
            continue
        par = [(pid, op, hs, key) for pid, op, hs, inloop, key in ws if inloop or pid != parent]
        st['parallel_phase_writes'] += len(par)
        st['serial_phase_writes'] += len(ws) - len(par)
        st['serial_phase_writes_locked'] += sum(1 for pid, op, hs, inloop, key in ws if not (inloop or pid != parent) and hs)
        for pid, op, hs, key in par:
            if pid != a['alloc_pid'] and not a['shared']:
                problems.append(('visibility', f'array {aid} ({a["site"]}) is not backed by shared memory but worker {cn(pid)} writes to it ({op}): update lost to the parent'))
                break
        if a['site'] == 'gen':
            common = None
            for pid, op, hs, key in par:
                if not hs:
                    problems.append(('lockset', f'shared array {aid}: write ({op}) by {cn(pid)} inside the parallel loop while holding no lock'))
                    break
                common = hs if common is None else common & hs
                if not common:
                    problems.append(('lockset', f'shared array {aid}: no single lock protects all writes (locksets intersect to empty at {op} by {cn(pid)})'))
                    break
            st['arrays_lockset_checked'] += 1
        else:
            # lock-free protocol of Topology._locate: a row may only be written by the process that claimed that index
            for pid, op, hs, key in par:
                if key is None:
                    st['ownership_unkeyed_write'] += 1
                elif key not in claimed_by[pid]:
                    problems.append(('ownership', f'array {aid} ({a["site"]}): row {key} written by {cn(pid)} which never claimed iteration {key}'))
                    break
                else:
                    st['ownership_writes_checked'] += 1
            st['arrays_ownership_checked'] += 1
        seq = ''.join(cn(pid) for pid, op, hs, key in par)
        pids_writing.update(pid for pid, op, hs, key in par)
        sig.append(f'{aid}:{seq}')
    for aid, nz in info.get('nonzero', {}).items():
        if nz and not writes.get(aid):
            st['array_modified_without_logged_write'] += 1

    # ---- lock order: a cycle among parallel-phase nested acquisitions is a schedule without a result (deadlock)
    st['lock_order_edges'] += len(order_edges)
    for (a, b), pid in order_edges.items():
        if a != b and (b, a) in order_edges:
            problems.append(('lock-order', f'locks {a} and {b} are acquired in both orders inside the parallel loop (by {cn(pid)} and {cn(order_edges[(b, a)])}): potential deadlock'))
            break

    # ---- join audit
    if returned_normally and info.get('unreaped'):
        problems.append(('join', f'call returned while {len(info["unreaped"])} of {info.get("nchildren")} forked workers had not been waited for'))

    claim_pids = {pid for cl in claims.values() for pid, i in cl}
    st['pids_claiming'] = len(claim_pids)
    st['pids_writing'] = len(pids_writing)
    for rid, pid, arrived, seen, waited in barrier:
        st['barrier_waits'] += 1
        if seen >= ranges.get(rid, {}).get('expected', 1 << 30):
            st['barrier_complete'] += 1
    concurrent = len(pids_writing) >= 2
    return dict(problems=problems, stats=dict(st), signature='|'.join(sig), concurrent=concurrent,
                claim_sequence={rid: ''.join(cn(p) for p, i in cl) for rid, cl in claims.items()}, faults=faults)
